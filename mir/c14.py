#!/usr/bin/env python3
"""Engine M (C14): MIR -> SMT-LIB for zorro's specialised multiply-by-a (and add_b when the tree
overrides it), plus ground constant relations.  The MIR is re-dumped from /repo's current tree on every run.

Claimed:  mul_by_a(x) = COEFF_A * x for every base-field element x (solver, all x in [0,p));
          generator on y^2 = x^3 + a x + b; COFACTOR = 1, COFACTOR_INV = 1; scalar modulus = 2^255 - 19
          (ground relations over the constants exported by the compiled crate).
Not claimed: primality of the moduli, #E(F_p) = r (see DESIGN.md).
"""
import json, os, re, subprocess, sys, time

VERIF = os.path.dirname(os.path.dirname(os.path.abspath(__file__)))
SYMARK = os.path.join(VERIF, "symark", "target", "release", "symark")
TD = os.path.join(VERIF, "mir", "target")
REPO = os.environ.get("VERIF_REPO", "/repo")
FQ = r"Fp<(?:[\w]+::)*MontBackend<(?:[\w]+::)*FqConfig, 4>, 4>"


def sh(cmd, **kw):
    return subprocess.run(cmd, stdout=subprocess.PIPE, stderr=subprocess.PIPE, text=True, **kw)


def dump_mir():
    env = dict(os.environ, CARGO_TARGET_DIR=TD, CARGO_NET_OFFLINE="true")
    sh(["cargo", "+nightly", "clean", "--offline", "-p", "ark-bulletproofs"], cwd=REPO, env=env)
    r = sh(["cargo", "+nightly", "rustc", "--offline", "--lib", "--", "-Zunpretty=mir"], cwd=REPO, env=env)
    if r.returncode != 0 or not r.stdout.strip():
        print(r.stderr[-2000:])
        return None
    return r.stdout


class CannotEncode(Exception):
    pass


def translate(body, p, consts=None, mir="", fn_name="mul_by_a"):
    """loop-free MIR over a fixed vocabulary of field operations -> list of paths
    (path condition as SMT Bool terms, SMT Int term for _0) plus shared definitions.
    Values: field elements and BigInt<4> are Int terms (canonical representative / integer value),
    booleans are Bool terms.  `(_k.0: BigInt<4>)` of a field element is its Montgomery form x * 2^256 mod p.
    Branches (switchInt on a bool) fork the path."""
    consts = consts or {}
    defs = []
    n = [0]
    R = pow(2, 256, p)

    def fresh(expr, modulus=None):
        n[0] += 1
        name = "v%d" % n[0]
        defs.append("(define-fun %s () Int (mod %s %d))" % (name, expr, modulus or p))
        return name

    W = 2 ** 256
    Rinv = pow(R, -1, p)

    def promoted(k):
        m_ = re.search(r"\nconst zorro::g1::<impl at [^>]*>::%s::promoted\[%s\]: &(?:ark_ff::)?BigInt<4> = \{(.*?)\n\}\n" % (fn_name, k), mir, re.S)
        if not m_:
            raise CannotEncode("promoted[%s] of %s not found" % (k, fn_name))
        if re.search(r"_1 = const <(?:ark_ff::)?Fp<(?:ark_ff::)?MontBackend<(?:curve::zorro::)?fq::FqConfig, 4>, 4> as (?:ark_ff::)?PrimeField>::MODULUS;", m_.group(1)):
            return str(p)
        raise CannotEncode("promoted[%s] is not a constant of the vocabulary" % k)

    blocks = re.findall(r"\n\s*(bb\d+)(?: \(cleanup\))?: \{(.*?)\n\s*\}", body, re.S)
    if not blocks:
        raise CannotEncode("no basic blocks")
    order = {b: k for k, (b, _) in enumerate(blocks)}
    paths = []
    work = [("bb0", {"_1": "x"}, [], 0)]
    while work:
        cur, env, cond, steps = work.pop()
        if steps > 64:
            raise CannotEncode("more than 64 blocks on one path (loop?)")
        if len(paths) + len(work) > 64:
            raise CannotEncode("more than 64 paths")
        if cur not in order:
            raise CannotEncode("unknown block %s" % cur)

        def val(tok):
            tok = re.sub(r"^(move|copy)\s+", "", tok.strip())
            mp = re.fullmatch(r"const <.*?>::%s::promoted\[(\d+)\]" % fn_name, tok)
            if mp:
                return promoted(mp.group(1))
            if tok not in env:
                raise CannotEncode("use of unknown local %s" % tok)
            v = env[tok]
            if isinstance(v, tuple):  # ("ref", local): a mutable borrow, read through
                return val(v[1])
            return v

        def target(tok):
            # the local a `&mut` argument points to
            tok = re.sub(r"^(move|copy)\s+", "", tok.strip())
            v = env.get(tok)
            if isinstance(v, tuple):
                return v[1]
            raise CannotEncode("mutating call on something that is not a tracked &mut borrow: %s" % tok)

        text = blocks[order[cur]][1]
        nxt = None
        done = False
        for line in [l.strip() for l in text.split("\n") if l.strip()]:
            if line.startswith("StorageLive") or line.startswith("StorageDead") or line.startswith("//") or line.startswith("nop"):
                continue
            if line == "return;":
                if "_0" not in env:
                    raise CannotEncode("return without value")
                paths.append((cond, env["_0"]))
                done = True
                break
            m = re.fullmatch(r"goto -> (bb\d+);", line)
            if m:
                nxt = m.group(1)
                break
            m = re.fullmatch(r"switchInt\((?:move|copy) (_\d+)\) -> \[0: (bb\d+), otherwise: (bb\d+)\];", line)
            if m:
                c = val(m.group(1))
                work.append((m.group(2), dict(env), cond + ["(not %s)" % c], steps + 1))
                work.append((m.group(3), dict(env), cond + [c], steps + 1))
                done = True
                break
            m = re.fullmatch(r"(_\d+) = &mut (_\d+);", line)
            if m:
                if m.group(2) not in env:
                    raise CannotEncode("borrow of unknown local %s" % m.group(2))
                env[m.group(1)] = ("ref", m.group(2))
                continue
            m = re.fullmatch(r"(_\d+) = &(_\d+);", line) or re.fullmatch(r"(_\d+) = (?:move|copy) (_\d+);", line) or re.fullmatch(r"(_\d+) = &\(\*(_\d+)\);", line) or re.fullmatch(r"(_\d+) = (?:move|copy) \(\*(_\d+)\);", line)
            if m:
                env[m.group(1)] = val(m.group(2))
                continue
            m = re.fullmatch(r"(_\d+) = &?\((?:\*)?(_\d+)\.0: ark_ff::BigInt<4>\);", line) or re.fullmatch(r"(_\d+) = (?:move|copy) \((?:\*)?(_\d+)\.0: ark_ff::BigInt<4>\);", line)
            if m:
                env[m.group(1)] = fresh("(* %s %d)" % (val(m.group(2)), R))
                continue
            m = re.fullmatch(r"(_\d+) = Not\((?:move|copy) (_\d+)\);", line)
            if m:
                env[m.group(1)] = "(not %s)" % val(m.group(2))
                continue
            m = re.fullmatch(r"(_\d+) = const (true|false);", line)
            if m:
                env[m.group(1)] = m.group(2)
                continue
            m = re.fullmatch(r"(_\d+) = const <.*? as (?:ark_ec::short_weierstrass::)?SWCurveConfig>::(COEFF_A|COEFF_B);", line)
            if m:
                key = {"COEFF_A": "a", "COEFF_B": "b"}[m.group(2)]
                if key not in consts:
                    raise CannotEncode("constant %s not exported" % m.group(2))
                env[m.group(1)] = str(int(consts[key]))
                continue
            m = re.fullmatch(r"(_\d+) = BigInt::<4>::(one|zero)\(\) -> \[return: (bb\d+), unwind[^\]]*\];", line)
            if m:
                env[m.group(1)] = "1" if m.group(2) == "one" else "0"
                nxt = m.group(3)
                break
            m = re.fullmatch(r"(_\d+) = <&?(?:ark_ff::)?BigInt<4> as PartialOrd>::(ge|gt|le|lt)\((.*)\) -> \[return: (bb\d+), unwind[^\]]*\];", line)
            if m:
                a = [val(t) for t in m.group(3).split(", ")]
                env[m.group(1)] = "(%s %s %s)" % ({"ge": ">=", "gt": ">", "le": "<=", "lt": "<"}[m.group(2)], a[0], a[1])
                nxt = m.group(4)
                break
            m = re.fullmatch(r"(_\d+) = <(?:ark_ff::)?BigInt<4> as (?:ark_ff::)?BigInteger>::(mul2|div2|sub_with_borrow|add_with_carry)\((.*)\) -> \[return: (bb\d+), unwind[^\]]*\];", line)
            if m:
                dst, op, args, ret = m.groups()
                parts = args.split(", ")
                tgt = target(parts[0])
                cur_v = val(tgt)
                if op == "mul2":
                    env[dst] = "(>= (* 2 %s) %d)" % (cur_v, W)
                    env[tgt] = fresh("(* 2 %s)" % cur_v, W)
                elif op == "div2":
                    env[dst] = "true"
                    env[tgt] = fresh("(div %s 2)" % cur_v, W)
                elif op == "sub_with_borrow":
                    o = val(parts[1])
                    env[dst] = "(< %s %s)" % (cur_v, o)
                    env[tgt] = fresh("(- %s %s)" % (cur_v, o), W)
                else:
                    o = val(parts[1])
                    env[dst] = "(>= (+ %s %s) %d)" % (cur_v, o, W)
                    env[tgt] = fresh("(+ %s %s)" % (cur_v, o), W)
                nxt = ret
                break
            m = re.fullmatch(r"(_\d+) = (?:ark_ff::)?fp::montgomery_backend::<impl (?:ark_ff::)?Fp<(?:ark_ff::)?MontBackend<(?:curve::zorro::)?fq::FqConfig, 4>, 4>>::new_unchecked\((.*)\) -> \[return: (bb\d+), unwind[^\]]*\];", line)
            if m:
                # the argument is the raw Montgomery form: the element is t * 2^-256 mod p
                env[m.group(1)] = fresh("(* %s %d)" % (val(m.group(2)), Rinv))
                nxt = m.group(3)
                break
            m = re.fullmatch(r"(_\d+) = <&?(?:ark_ff::)?BigInt<4> as PartialEq>::(eq|ne)\((.*)\) -> \[return: (bb\d+), unwind[^\]]*\];", line)
            if m:
                a = [val(t) for t in m.group(3).split(",")]
                e = "(= %s %s)" % (a[0], a[1])
                env[m.group(1)] = e if m.group(2) == "eq" else "(not %s)" % e
                nxt = m.group(4)
                break
            m = re.fullmatch(r"(_\d+) = <(.*?)>::(\w+)\((.*)\) -> \[return: (bb\d+), unwind[^\]]*\];", line)
            if m:
                dst, ty, fn, args, ret = m.groups()
                if not re.search(FQ, ty):
                    raise CannotEncode("call on a type outside the vocabulary: %s" % ty)
                a = [val(t) for t in args.split(",")] if args.strip() else []
                trait = ty.split(" as ")[-1]
                if fn == "add" and trait.startswith("Add") and len(a) == 2:
                    env[dst] = fresh("(+ %s %s)" % (a[0], a[1]))
                elif fn == "sub" and trait.startswith("Sub") and len(a) == 2:
                    env[dst] = fresh("(- %s %s)" % (a[0], a[1]))
                elif fn == "mul" and trait.startswith("Mul") and len(a) == 2:
                    env[dst] = fresh("(* %s %s)" % (a[0], a[1]))
                elif fn == "neg" and trait.startswith("Neg") and len(a) == 1:
                    env[dst] = fresh("(- 0 %s)" % a[0])
                elif fn == "double" and len(a) == 1:
                    env[dst] = fresh("(* 2 %s)" % a[0])
                elif fn == "square" and len(a) == 1:
                    env[dst] = fresh("(* %s %s)" % (a[0], a[0]))
                elif fn in ("eq", "ne") and trait.startswith("PartialEq") and len(a) == 2:
                    e = "(= %s %s)" % (a[0], a[1])
                    env[dst] = e if fn == "eq" else "(not %s)" % e
                elif fn == "is_zero" and len(a) == 1:
                    env[dst] = "(= %s 0)" % a[0]
                elif fn == "is_one" and len(a) == 1:
                    env[dst] = "(= %s 1)" % a[0]
                elif fn == "zero" and len(a) == 0:
                    env[dst] = "0"
                elif fn == "one" and len(a) == 0:
                    env[dst] = "1"
                else:
                    raise CannotEncode("call outside the vocabulary: %s::%s" % (trait, fn))
                nxt = ret
                break
            raise CannotEncode("statement outside the vocabulary: %s" % line)
        if done:
            continue
        if nxt is None:
            raise CannotEncode("block %s without recognised terminator" % cur)
        work.append((nxt, env, cond, steps + 1))
    if not paths:
        raise CannotEncode("no path reaches return")
    return paths, defs


def run(solver_cmd, text, timeout=60):
    t = time.time()
    try:
        r = subprocess.run(solver_cmd, input=text, stdout=subprocess.PIPE, stderr=subprocess.STDOUT, text=True, timeout=timeout + 10)
    except subprocess.TimeoutExpired:
        return "timeout", time.time() - t, ""
    out = r.stdout.strip()
    first = out.split("\n")[0].strip() if out else ""
    if "(error" in out and "model is not available" not in out:
        return "error", time.time() - t, out
    return (first if first in ("sat", "unsat") else "unknown"), time.time() - t, out


SOLVERS = [("z3-4.8.12", ["/usr/bin/z3", "-in", "-T:60"]), ("z3-5.1.0", ["z3-new", "-in", "-T:60"]), ("cvc5", ["cvc5", "--lang", "smt2", "--tlimit=60000", "--produce-models"])]


def main():
    tier = sys.argv[sys.argv.index("--tier") + 1] if "--tier" in sys.argv else "quick"
    seed = int(os.environ.get("VERIF_SEED", "0"))
    t0 = time.time()
    env = dict(os.environ, CARGO_NET_OFFLINE="true")
    b = sh(["cargo", "build", "--release", "--offline"], cwd=os.path.join(VERIF, "symark"), env=env)
    if b.returncode != 0:
        print(b.stderr[-2000:])
        print("INCONCLUSIVE: harness crate does not build")
        sys.exit(2)
    consts = json.loads(sh([SYMARK, "zorro-consts"]).stdout)
    p, r_mod, a = int(consts["p"]), int(consts["r"]), int(consts["a"])
    mir = dump_mir()
    inconclusive, violations, obligations, results = [], [], [], []
    if mir is None:
        print("INCONCLUSIVE: MIR dump failed")
        sys.exit(2)
    m = re.search(r"\nfn zorro::g1::<impl at [^>]*>::mul_by_a\(_1: " + FQ + r"\) -> " + FQ + r" \{(.*?)\n\}\n", mir, re.S)
    if not m:
        print("INCONCLUSIVE: mul_by_a not found in the MIR dump (signature changed?)")
        sys.exit(2)
    body = m.group(1)
    queries = []
    n_paths = 0
    try:
        paths, defs = translate(body, p, consts, mir, "mul_by_a")
        n_paths += len(paths)
        head = "(set-logic ALL)\n(declare-const x Int)\n(assert (and (<= 0 x) (< x %d)))\n" % p + "\n".join(defs) + "\n"

        def wrong(k):
            # some path is taken and returns something else than k * x
            alts = ["(and %s (not (= (mod %s %d) (mod (* %d x) %d))))" % (" ".join(c) if c else "true", r_, p, k, p) for c, r_ in paths]
            return "(assert (or %s))\n(check-sat)\n" % " ".join(alts)

        queries.append(("mul_by_a(x) = COEFF_A * x for every x in [0,p) (%d path(s))" % len(paths), head + wrong(a), "unsat", True))
        # vacuity twin: the same body against (COEFF_A + 1) must be refutable
        queries.append(("twin: mul_by_a(x) = (COEFF_A+1) * x is refutable", head + wrong(a + 1), "sat", False))
    except CannotEncode as e:
        inconclusive.append("mul_by_a: cannot encode: %s" % e)
    # add_b is normally inherited (x + COEFF_B); if the tree overrides it, the override must agree with the declared b
    mb = re.search(r"\nfn zorro::g1::<impl at [^>]*>::add_b\(_1: " + FQ + r"\) -> " + FQ + r" \{(.*?)\n\}\n", mir, re.S)
    if mb:
        try:
            bpaths, bdefs = translate(mb.group(1), p, consts, mir, "add_b")
            n_paths += len(bpaths)
            bhead = "(set-logic ALL)\n(declare-const x Int)\n(assert (and (<= 0 x) (< x %d)))\n" % p + "\n".join(bdefs) + "\n"
            alts = ["(and %s (not (= (mod %s %d) (mod (+ x %d) %d))))" % (" ".join(c) if c else "true", r_, p, int(consts["b"]), p) for c, r_ in bpaths]
            queries.append(("overridden add_b(x) = x + COEFF_B for every x in [0,p)", bhead + "(assert (or %s))\n(check-sat)\n" % " ".join(alts), "unsat", True))
        except CannotEncode as e:
            inconclusive.append("add_b is overridden and cannot be encoded: %s" % e)
    gx, gy, bb = int(consts["gx"]), int(consts["gy"]), int(consts["b"])
    ground = [
        ("generator satisfies y^2 = x^3 + a x + b (mod p) with the declared coefficients", "(= (mod (* %d %d) %d) (mod (+ (* %d %d %d) (* %d %d) %d) %d))" % (gy, gy, p, gx, gx, gx, a, gx, bb, p)),
        ("declared COFACTOR is 1", "(= %d 1)" % (sum(v << (64 * i) for i, v in enumerate(consts["cofactor"])))),
        ("declared COFACTOR_INV is 1", "(= %d 1)" % int(consts["cofactor_inv"])),
        ("scalar-field modulus is 2^255 - 19", "(= %d (- %d 19))" % (r_mod, 2 ** 255)),
        ("every exported scalar-field item of the zorro module (Fr, FrConfig, CurveConfig::ScalarField) has the modulus 2^255 - 19", "(and (= %d %d) (= %d %d))" % (int(consts.get("r_frconfig", -1)), r_mod, int(consts.get("r_curveconfig", -1)), r_mod)),
        ("every exported base-field item of the zorro module (Fq, FqConfig, CurveConfig::BaseField) has the modulus p", "(and (= %d %d) (= %d %d))" % (int(consts.get("p_fqconfig", -1)), p, int(consts.get("p_curveconfig", -1)), p)),
        ("coefficients and generator coordinates are reduced (below p)", "(and (< %d %d) (< %d %d) (< %d %d) (< %d %d))" % (a, p, bb, p, gx, p, gy, p)),
        ("Hasse bound: |r - (p + 1)| <= 2 sqrt(p), i.e. (r - p - 1)^2 <= 4 p (necessary for #E(F_p) = r)", "(<= (* (- %d %d 1) (- %d %d 1)) (* 4 %d))" % (r_mod, p, r_mod, p, p)),
    ]
    for name, f in ground:
        queries.append((name, "(set-logic ALL)\n(assert (not %s))\n(check-sat)\n" % f, "unsat", True))
    solver_s = 0.0
    replays = []
    for name, q, expect, counts in queries:
        verdicts = {}
        for sn, cmd in SOLVERS:
            v, dt, out = run(cmd, q)
            solver_s += dt
            verdicts[sn] = v
        results.append({"obligation": name, "expect": expect, "verdicts": verdicts})
        ok = all(v == expect for v in verdicts.values())
        if counts:
            obligations.append(ok)
        if ok:
            continue
        agree = set(verdicts.values())
        sat_by = [k for k, (sn, _) in enumerate(SOLVERS) if verdicts[sn] == "sat"]
        if ("mul_by_a" in name or "add_b" in name) and expect == "unsat" and sat_by:
            # a counterexample from any one solver is enough: it is evaluated natively below
            agree = {"sat"}
        if len(agree) == 1 and agree <= {"sat", "unsat"}:
            if "mul_by_a" in name and expect == "unsat":
                v, _, out = run(SOLVERS[sat_by[0]][1], q + "(get-model)\n")
                xm = re.search(r"define-fun x \(\) Int\s+(\d+)", out)
                xs = [xm.group(1)] if xm else []
                xs += ["1", "2", str(p - 1), str(seed + 12345)]
                rp = sh([SYMARK, "zorro-mul-by-a"] + xs)
                path = os.path.join(VERIF, "replays", "C14", "mul_by_a.json")
                os.makedirs(os.path.dirname(path), exist_ok=True)
                json.dump({"property": "C14", "what": name, "x": xs, "native": rp.stdout, "cmd": "%s zorro-mul-by-a %s" % (SYMARK, " ".join(xs))}, open(path, "w"), indent=1)
                if rp.returncode == 1:
                    violations.append((name, path))
                else:
                    inconclusive.append("%s: solver says sat but the native evaluation agrees -> encoding error" % name)
            elif "add_b" in name:
                sb = [k for k, (sn, _) in enumerate(SOLVERS) if verdicts[sn] == "sat"]
                v, _, out = run(SOLVERS[sb[0]][1], q + "(get-model)\n")
                xm = re.search(r"define-fun x \(\) Int\s+(\d+)", out)
                xs = ([xm.group(1)] if xm else []) + ["0", "1", str(p - 1)]
                rp = sh([SYMARK, "zorro-add-b"] + xs)
                path = os.path.join(VERIF, "replays", "C14", "add_b.json")
                os.makedirs(os.path.dirname(path), exist_ok=True)
                json.dump({"property": "C14", "what": name, "x": xs, "native": rp.stdout, "cmd": "%s zorro-add-b %s" % (SYMARK, " ".join(xs))}, open(path, "w"), indent=1)
                if rp.returncode == 1:
                    violations.append((name, path))
                else:
                    inconclusive.append("%s: solver says sat but the native evaluation agrees -> encoding error" % name)
            elif expect == "unsat":
                # ground relation over values exported by the compiled crate: the exported values are the native observation
                path = os.path.join(VERIF, "replays", "C14", "constants.json")
                os.makedirs(os.path.dirname(path), exist_ok=True)
                json.dump({"property": "C14", "what": name, "constants_exported_by_the_compiled_crate": consts, "cmd": "%s zorro-consts" % SYMARK}, open(path, "w"), indent=1)
                violations.append((name, path))
            else:
                inconclusive.append("%s: expected %s" % (name, expect))
        else:
            inconclusive.append("%s: solvers disagree or fail: %s" % (name, verdicts))
    # concrete companion for the ASSUMPTION of the encoding (ark_ff::Fp's ring contract for +, -, *, neg, double on this
    # field configuration): the real routine is evaluated natively on structured elements -- Montgomery residues next to
    # 0, p, 2^255, 2^256 - p and p/2, small integers and their negatives, powers of two -- and compared with a*x mod p
    # computed here with Python integers (not with the field's own multiplication)
    rinv = pow(1 << 256, -1, p)
    residues = set()
    for j in range(0, 9):
        for base in (0, p, 1 << 255, (1 << 256) - p, p // 2, (p + 1) // 2, (1 << 256) % p, 1 << 128, 1 << 192):
            residues.add((base + j) % p)
            residues.add((base - j) % p)
    xs_struct = sorted(set([(m * rinv) % p for m in residues] + [j % p for j in range(0, 9)] + [(-j) % p for j in range(1, 9)] + [(1 << k) % p for k in (63, 64, 127, 128, 191, 192, 254, 255)] + [(seed * 0x9e3779b97f4a7c15 + 77) % p]))
    rp = sh([SYMARK, "zorro-mul-by-a"] + [str(x) for x in xs_struct])
    got = re.findall(r"x=(\d+) mul_by_a\(x\)=(\d+)", rp.stdout)
    native_bad = [(int(x), int(y)) for x, y in got if int(y) != (a * int(x)) % p]
    native_checked = len(got)
    if native_checked != len(xs_struct):
        # the evaluation did not come back for every element (a panic / abort in the routine): find the elements one by one
        crashed = []
        for x in xs_struct:
            r1 = sh([SYMARK, "zorro-mul-by-a", str(x)])
            g1 = re.findall(r"x=(\d+) mul_by_a\(x\)=(\d+)", r1.stdout)
            if not g1:
                crashed.append((x, (r1.stderr or "").strip().split("\n")[-1][:200]))
            elif int(g1[0][1]) != (a * x) % p and (x, int(g1[0][1])) not in native_bad:
                native_bad.append((x, int(g1[0][1])))
        native_checked = len(xs_struct) - len(crashed)
        if crashed:
            path = os.path.join(VERIF, "replays", "C14", "mul_by_a_panics.json")
            os.makedirs(os.path.dirname(path), exist_ok=True)
            json.dump({"property": "C14", "what": "mul_by_a(x) does not return for these field elements (panic / abort)", "x": [str(x) for x, _ in crashed[:8]], "stderr": [e for _, e in crashed[:8]], "cmd": "%s zorro-mul-by-a %s" % (SYMARK, " ".join(str(x) for x, _ in crashed[:8]))}, open(path, "w"), indent=1)
            violations.append(("mul_by_a(x) returns a*x for every field element: the routine panics / aborts on %d structured element(s), first x = %d (%s)" % (len(crashed), crashed[0][0], crashed[0][1]), path))
    if native_bad:
        path = os.path.join(VERIF, "replays", "C14", "mul_by_a_structured.json")
        os.makedirs(os.path.dirname(path), exist_ok=True)
        json.dump({"property": "C14", "what": "mul_by_a(x) differs from a*x mod p (Python integers) at structured field elements", "x": [str(x) for x, _ in native_bad[:8]], "got": [str(y) for _, y in native_bad[:8]], "expected": [str((a * x) % p) for x, _ in native_bad[:8]], "cmd": "%s zorro-mul-by-a %s" % (SYMARK, " ".join(str(x) for x, _ in native_bad[:8]))}, open(path, "w"), indent=1)
        violations.append(("mul_by_a(x) = a*x mod p on %d structured elements (native, against integer arithmetic): %d differ, first x = %d" % (native_checked, len(native_bad), native_bad[0][0]), path))
    # second concrete companion: group elements with structured x coordinates (0, small integers, -1, 1/2, 1/4, 2^255 mod p,
    # the generator) are accepted by every validating path (curve equation, subgroup test, checked decoding, constructor)
    # and have order exactly r -- "the group of points has exactly r elements" must not lose individual elements
    pxs = sorted(set(list(range(0, 40)) + [p - 1, p - 2, p - 3, (p + 1) // 2, pow(4, -1, p), (1 << 255) % p, ((1 << 256) % p), rinv % p, (2 * rinv) % p, (seed * 7919 + 11) % p]))
    rp2 = sh([SYMARK, "zorro-points"] + [str(x) for x in pxs])
    pts_lines = [l for l in rp2.stdout.split("\n") if l.startswith("point ")]
    pts_wrong = [l for l in pts_lines if l.rstrip().endswith("WRONG")]
    points_checked = len(pts_lines)
    if rp2.returncode not in (0, 1) or points_checked < 10:
        # find the x the command dies on
        dead = []
        for x in pxs:
            r1 = sh([SYMARK, "zorro-points", str(x)])
            if r1.returncode not in (0, 1):
                dead.append(str(x))
            pts_wrong += [l for l in r1.stdout.split("\n") if l.startswith("point ") and l.rstrip().endswith("WRONG")]
        if dead:
            pts_wrong.append("the validating paths abort / panic for x in %s" % dead[:6])
        elif points_checked < 10:
            inconclusive.append("zorro-points returned %d points" % points_checked)
    if pts_wrong:
        path = os.path.join(VERIF, "replays", "C14", "points.json")
        os.makedirs(os.path.dirname(path), exist_ok=True)
        json.dump({"property": "C14", "what": "genuine points of the curve are refused (or mishandled) by a validating path", "lines": pts_wrong[:8], "cmd": "%s zorro-points %s" % (SYMARK, " ".join(str(x) for x in pxs[:12]))}, open(path, "w"), indent=1)
        violations.append(("every point with a structured x coordinate is a group element of order r accepted by all validating paths: %s" % pts_wrong[0][:200], path))
    wall = time.time() - t0
    ev = {
        "property_id": "C14", "tier": tier, "seed": seed, "level": "model_checking",
        "coverage": {
            "evaluations": len(queries) * len(SOLVERS), "distinct_nontrivial": len(queries),
            "rule": "one obligation = one SMT query (integer arithmetic mod p) discharged by three solvers; the mul_by_a query quantifies over every field element, the others are ground relations over the constants exported by the compiled crate",
            "samples": results[:4], "native_structured_elements": native_checked, "native_points_checked": points_checked, "native_structured_differ": len(native_bad),
            "states": max(1, n_paths), "transitions": max(1, len(queries)), "traces_validated_against_impl": native_checked,
            "states_rule": "states = paths of the MIR body of mul_by_a (and of an overridden add_b) that were translated; transitions = SMT obligations; traces validated = structured field elements on which the real routine was evaluated natively and compared with a*x mod p in integer arithmetic",
            "obligations": len(obligations), "discharged": sum(1 for o in obligations if o),
            "solver_time_s": round(solver_s, 2), "functions_encoded": ["curve::zorro::g1::Parameters::mul_by_a (from the MIR dump of /repo's current tree; calls modelled by ark_ff::Fp's documented ring contract on representatives in [0,p))"],
            "bounds": "none for mul_by_a (loop-free; every path of the MIR body is followed -- branches on field / raw Montgomery-limb comparisons fork the path -- for all x in [0,p)); <= 64 paths, <= 64 blocks per path; an overridden add_b is checked the same way against x + COEFF_B; ground relations are exact",
            "outside_claim": "primality of the base-field modulus p and of r, and #E(F_p) = r: number-theoretic facts about 255-bit constants that an SMT solver cannot decide and for which no certificate generator is available offline; only the necessary Hasse-interval condition is checked",
            "checker_cmd": "z3 4.8.12, z3 5.1.0, cvc5 1.0 (all three must agree)", "trusted_base": ["rustc nightly MIR dump", "ark_ff::Fp ring contract", "three SMT solvers"],
            "all_results": results, "explanation": "MIR of the leaf function is translated statement by statement into integer arithmetic mod p (field elements as canonical representatives, the raw limbs x.0 as x * 2^256 mod p); unsat of the disjunction over paths of (path condition and result differs) = holds for every field element; a counterexample from any solver is evaluated natively (symark zorro-mul-by-a) before it is reported",
        },
        "assumptions": ["ark_ff::Fp Add/Sub/Mul/Neg implement the ring operations on canonical representatives", "the constants are those exported by the compiled crate (symark zorro-consts)"],
        "wall_s": round(wall, 2), "violations": len(violations), "inconclusive": inconclusive,
    }
    os.makedirs(os.path.join(VERIF, "evidence"), exist_ok=True)
    json.dump(ev, open(os.path.join(VERIF, "evidence", "C14.json"), "w"), indent=1)
    print("C14 %s: %d/%d obligations discharged by 3 solvers, solver %.1fs, wall %.1fs" % (tier, sum(1 for o in obligations if o), len(obligations), solver_s, wall))
    if violations:
        for name, path in violations:
            print("  violated: %s" % name)
            print("VIOLATION property=C14 replay=%s" % path)
        sys.exit(1)
    if inconclusive:
        for m_ in inconclusive:
            print("INCONCLUSIVE: " + m_)
        sys.exit(2)
    sys.exit(0)


if __name__ == "__main__":
    main()
