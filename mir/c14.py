#!/usr/bin/env python3
"""Engine M (C14): MIR -> SMT-LIB for zorro's specialised multiply-by-a, plus ground constant
relations.  The MIR is re-dumped from /repo's current tree on every run.

Claimed:  mul_by_a(x) = COEFF_A * x for every base-field element x (solver, all x in [0,p));
          generator on y^2 = x^3 + a x + b; COFACTOR = 1, COFACTOR_INV = 1; scalar modulus = 2^255 - 19
          (ground relations over the constants exported by the compiled crate).
Not claimed: primality of the moduli, #E(F_p) = r (see DESIGN.md).
"""
import json, os, re, subprocess, sys, time

VERIF = os.path.dirname(os.path.dirname(os.path.abspath(__file__)))
SYMARK = os.path.join(VERIF, "symark", "target", "release", "symark")
TD = os.path.join(VERIF, "mir", "target")
FQ = r"Fp<ark_ff::MontBackend<(?:curve::zorro::)?fq::FqConfig, 4>, 4>"


def sh(cmd, **kw):
    return subprocess.run(cmd, stdout=subprocess.PIPE, stderr=subprocess.PIPE, text=True, **kw)


def dump_mir():
    env = dict(os.environ, CARGO_TARGET_DIR=TD, CARGO_NET_OFFLINE="true")
    sh(["cargo", "+nightly", "clean", "--offline", "-p", "ark-bulletproofs"], cwd="/repo", env=env)
    r = sh(["cargo", "+nightly", "rustc", "--offline", "--lib", "--", "-Zunpretty=mir"], cwd="/repo", env=env)
    if r.returncode != 0 or not r.stdout.strip():
        print(r.stderr[-2000:])
        return None
    return r.stdout


class CannotEncode(Exception):
    pass


def translate(body, p):
    """straight-line MIR over a fixed vocabulary of field operations -> SMT Int term for _0"""
    env = {"_1": "x"}
    defs = []
    n = [0]

    def fresh(expr):
        n[0] += 1
        name = "v%d" % n[0]
        defs.append("(define-fun %s () Int (mod %s %d))" % (name, expr, p))
        return name

    def val(tok):
        tok = tok.strip()
        tok = re.sub(r"^(move|copy)\s+", "", tok)
        if tok not in env:
            raise CannotEncode("use of unknown local %s" % tok)
        return env[tok]

    blocks = re.findall(r"\n\s*(bb\d+)(?: \(cleanup\))?: \{(.*?)\n\s*\}", body, re.S)
    if not blocks:
        raise CannotEncode("no basic blocks")
    order = {b: k for k, (b, _) in enumerate(blocks)}
    cur = "bb0"
    seen = set()
    while True:
        if cur in seen:
            raise CannotEncode("loop in MIR")
        seen.add(cur)
        text = blocks[order[cur]][1]
        nxt = None
        for line in [l.strip() for l in text.split("\n") if l.strip()]:
            if line.startswith("StorageLive") or line.startswith("StorageDead") or line.startswith("//") or line.startswith("nop"):
                continue
            if line == "return;":
                if "_0" not in env:
                    raise CannotEncode("return without value")
                return env["_0"], defs
            m = re.fullmatch(r"(_\d+) = &(?:mut )?(_\d+);", line)
            if m:
                env[m.group(1)] = val(m.group(2))
                continue
            m = re.fullmatch(r"(_\d+) = (?:move|copy) (_\d+);", line)
            if m:
                env[m.group(1)] = val(m.group(2))
                continue
            m = re.fullmatch(r"(_\d+) = &\(\*(_\d+)\);", line)
            if m:
                env[m.group(1)] = val(m.group(2))
                continue
            m = re.fullmatch(r"(_\d+) = <(.*?)>::(\w+)\((.*)\) -> \[return: (bb\d+), unwind[^\]]*\];", line)
            if m:
                dst, ty, fn, args, ret = m.groups()
                if not re.search(FQ, ty):
                    raise CannotEncode("call on a type outside the vocabulary: %s" % ty)
                a = [val(t) for t in args.split(",")] if args.strip() else []
                trait = ty.split(" as ")[-1]
                if fn == "add" and trait.startswith("Add") and len(a) == 2:
                    env[dst] = fresh("(+ %s %s)" % (a[0], a[1]))
                elif fn == "sub" and trait.startswith("Sub") and len(a) == 2:
                    env[dst] = fresh("(- %s %s)" % (a[0], a[1]))
                elif fn == "mul" and trait.startswith("Mul") and len(a) == 2:
                    env[dst] = fresh("(* %s %s)" % (a[0], a[1]))
                elif fn == "neg" and trait.startswith("Neg") and len(a) == 1:
                    env[dst] = fresh("(- 0 %s)" % a[0])
                elif fn == "double" and len(a) == 1:
                    env[dst] = fresh("(* 2 %s)" % a[0])
                elif fn == "square" and len(a) == 1:
                    env[dst] = fresh("(* %s %s)" % (a[0], a[0]))
                else:
                    raise CannotEncode("call outside the vocabulary: %s::%s" % (trait, fn))
                nxt = ret
                break
            raise CannotEncode("statement outside the vocabulary: %s" % line)
        if nxt is None:
            raise CannotEncode("block %s without recognised terminator" % cur)
        cur = nxt


def run(solver_cmd, text, timeout=60):
    t = time.time()
    try:
        r = subprocess.run(solver_cmd, input=text, stdout=subprocess.PIPE, stderr=subprocess.STDOUT, text=True, timeout=timeout + 10)
    except subprocess.TimeoutExpired:
        return "timeout", time.time() - t, ""
    out = r.stdout.strip()
    first = out.split("\n")[0].strip() if out else ""
    if "(error" in out and "model is not available" not in out:
        return "error", time.time() - t, out
    return (first if first in ("sat", "unsat") else "unknown"), time.time() - t, out


SOLVERS = [("z3-4.8.12", ["/usr/bin/z3", "-in", "-T:60"]), ("z3-5.1.0", ["z3-new", "-in", "-T:60"]), ("cvc5", ["cvc5", "--lang", "smt2", "--tlimit=60000", "--produce-models"])]


def main():
    tier = sys.argv[sys.argv.index("--tier") + 1] if "--tier" in sys.argv else "quick"
    seed = int(os.environ.get("VERIF_SEED", "0"))
    t0 = time.time()
    env = dict(os.environ, CARGO_NET_OFFLINE="true")
    b = sh(["cargo", "build", "--release", "--offline"], cwd=os.path.join(VERIF, "symark"), env=env)
    if b.returncode != 0:
        print(b.stderr[-2000:])
        print("INCONCLUSIVE: harness crate does not build")
        sys.exit(2)
    consts = json.loads(sh([SYMARK, "zorro-consts"]).stdout)
    p, r_mod, a = int(consts["p"]), int(consts["r"]), int(consts["a"])
    mir = dump_mir()
    inconclusive, violations, obligations, results = [], [], [], []
    if mir is None:
        print("INCONCLUSIVE: MIR dump failed")
        sys.exit(2)
    m = re.search(r"\nfn zorro::g1::<impl at [^>]*>::mul_by_a\(_1: " + FQ + r"\) -> " + FQ + r" \{(.*?)\n\}\n", mir, re.S)
    if not m:
        print("INCONCLUSIVE: mul_by_a not found in the MIR dump (signature changed?)")
        sys.exit(2)
    body = m.group(1)
    queries = []
    try:
        res, defs = translate(body, p)
        q = "(set-logic ALL)\n(declare-const x Int)\n(assert (and (<= 0 x) (< x %d)))\n" % p + "\n".join(defs) + "\n(assert (not (= %s (mod (* %d x) %d))))\n(check-sat)\n" % (res, a, p)
        queries.append(("mul_by_a(x) = COEFF_A * x for every x in [0,p)", q, "unsat", True))
        # vacuity twin: the same body against (COEFF_A + 1) must be refutable
        q2 = "(set-logic ALL)\n(declare-const x Int)\n(assert (and (<= 0 x) (< x %d)))\n" % p + "\n".join(defs) + "\n(assert (not (= %s (mod (* %d x) %d))))\n(check-sat)\n" % (res, a + 1, p)
        queries.append(("twin: mul_by_a(x) = (COEFF_A+1) * x is refutable", q2, "sat", False))
    except CannotEncode as e:
        inconclusive.append("mul_by_a: cannot encode: %s" % e)
    gx, gy, bb = int(consts["gx"]), int(consts["gy"]), int(consts["b"])
    ground = [
        ("generator satisfies y^2 = x^3 + a x + b (mod p) with the declared coefficients", "(= (mod (* %d %d) %d) (mod (+ (* %d %d %d) (* %d %d) %d) %d))" % (gy, gy, p, gx, gx, gx, a, gx, bb, p)),
        ("declared COFACTOR is 1", "(= %d 1)" % (sum(v << (64 * i) for i, v in enumerate(consts["cofactor"])))),
        ("declared COFACTOR_INV is 1", "(= %d 1)" % int(consts["cofactor_inv"])),
        ("scalar-field modulus is 2^255 - 19", "(= %d (- %d 19))" % (r_mod, 2 ** 255)),
        ("coefficients and generator coordinates are reduced (below p)", "(and (< %d %d) (< %d %d) (< %d %d) (< %d %d))" % (a, p, bb, p, gx, p, gy, p)),
        ("Hasse bound: |r - (p + 1)| <= 2 sqrt(p), i.e. (r - p - 1)^2 <= 4 p (necessary for #E(F_p) = r)", "(<= (* (- %d %d 1) (- %d %d 1)) (* 4 %d))" % (r_mod, p, r_mod, p, p)),
    ]
    for name, f in ground:
        queries.append((name, "(set-logic ALL)\n(assert (not %s))\n(check-sat)\n" % f, "unsat", True))
    solver_s = 0.0
    replays = []
    for name, q, expect, counts in queries:
        verdicts = {}
        for sn, cmd in SOLVERS:
            v, dt, out = run(cmd, q)
            solver_s += dt
            verdicts[sn] = v
        results.append({"obligation": name, "expect": expect, "verdicts": verdicts})
        ok = all(v == expect for v in verdicts.values())
        if counts:
            obligations.append(ok)
        if ok:
            continue
        agree = set(verdicts.values())
        if len(agree) == 1 and agree <= {"sat", "unsat"}:
            if "mul_by_a" in name and expect == "unsat":
                v, _, out = run(SOLVERS[0][1], q + "(get-model)\n")
                xm = re.search(r"define-fun x \(\) Int\s+(\d+)", out)
                xs = [xm.group(1)] if xm else []
                xs += ["1", "2", str(p - 1), str(seed + 12345)]
                rp = sh([SYMARK, "zorro-mul-by-a"] + xs)
                path = os.path.join(VERIF, "replays", "C14", "mul_by_a.json")
                os.makedirs(os.path.dirname(path), exist_ok=True)
                json.dump({"property": "C14", "what": name, "x": xs, "native": rp.stdout, "cmd": "%s zorro-mul-by-a %s" % (SYMARK, " ".join(xs))}, open(path, "w"), indent=1)
                if rp.returncode == 1:
                    violations.append((name, path))
                else:
                    inconclusive.append("%s: solver says sat but the native evaluation agrees -> encoding error" % name)
            elif expect == "unsat":
                # ground relation over values exported by the compiled crate: the exported values are the native observation
                path = os.path.join(VERIF, "replays", "C14", "constants.json")
                os.makedirs(os.path.dirname(path), exist_ok=True)
                json.dump({"property": "C14", "what": name, "constants_exported_by_the_compiled_crate": consts, "cmd": "%s zorro-consts" % SYMARK}, open(path, "w"), indent=1)
                violations.append((name, path))
            else:
                inconclusive.append("%s: expected %s" % (name, expect))
        else:
            inconclusive.append("%s: solvers disagree or fail: %s" % (name, verdicts))
    wall = time.time() - t0
    ev = {
        "property_id": "C14", "tier": tier, "seed": seed, "level": "model_checking",
        "coverage": {
            "evaluations": len(queries) * len(SOLVERS), "distinct_nontrivial": len(queries),
            "rule": "one obligation = one SMT query (integer arithmetic mod p) discharged by three solvers; the mul_by_a query quantifies over every field element, the others are ground relations over the constants exported by the compiled crate",
            "samples": results[:4], "obligations": len(obligations), "discharged": sum(1 for o in obligations if o),
            "solver_time_s": round(solver_s, 2), "functions_encoded": ["curve::zorro::g1::Parameters::mul_by_a (from the MIR dump of /repo's current tree; calls modelled by ark_ff::Fp's documented ring contract on representatives in [0,p))"],
            "bounds": "none for mul_by_a (loop-free, all x in [0,p)); ground relations are exact",
            "outside_claim": "primality of the base-field modulus p and of r, and #E(F_p) = r: number-theoretic facts about 255-bit constants that an SMT solver cannot decide and for which no certificate generator is available offline; only the necessary Hasse-interval condition is checked",
            "checker_cmd": "z3 4.8.12, z3 5.1.0, cvc5 1.0 (all three must agree)", "trusted_base": ["rustc nightly MIR dump", "ark_ff::Fp ring contract", "three SMT solvers"],
            "all_results": results, "explanation": "MIR of the leaf function is translated statement by statement into integer arithmetic mod p; unsat of the negated equation = holds for every field element",
        },
        "assumptions": ["ark_ff::Fp Add/Sub/Mul/Neg implement the ring operations on canonical representatives", "the constants are those exported by the compiled crate (symark zorro-consts)"],
        "wall_s": round(wall, 2), "violations": len(violations), "inconclusive": inconclusive,
    }
    os.makedirs(os.path.join(VERIF, "evidence"), exist_ok=True)
    json.dump(ev, open(os.path.join(VERIF, "evidence", "C14.json"), "w"), indent=1)
    print("C14 %s: %d/%d obligations discharged by 3 solvers, solver %.1fs, wall %.1fs" % (tier, sum(1 for o in obligations if o), len(obligations), solver_s, wall))
    if violations:
        for name, path in violations:
            print("  violated: %s" % name)
            print("VIOLATION property=C14 replay=%s" % path)
        sys.exit(1)
    if inconclusive:
        for m_ in inconclusive:
            print("INCONCLUSIVE: " + m_)
        sys.exit(2)
    sys.exit(0)


if __name__ == "__main__":
    main()
