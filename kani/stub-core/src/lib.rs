//! Bodies of the stubs, over primitive types only (no dependencies), so that the very same
//! code is used (a) under Kani via `#[kani::stub]` wrappers in `verif-kani::stubs` and
//! (b) natively inside the patched copies of keccak / rand_chacha / merlin / sha3 under
//! `/verif/kani/vendor` when their `verif-stub` feature is on.
#![no_std]

// ---------------------------------------------------------------------------------------
// Keccak permutation -> lane mixing
// ---------------------------------------------------------------------------------------
macro_rules! lane {
    ($s:ident, $i:expr) => {
        $s[$i] = $s[$i].rotate_left(7 + ($i as u32 % 13))
            ^ $s[($i + 1) % 25].wrapping_add(0x9E37_79B9_7F4A_7C15u64 ^ (($i as u64) << 17) ^ ($i as u64));
    };
}

/// One pass of sequential lane mixing over the 25 lanes (straight-line: no loop, so it does
/// not contribute to any unwinding bound).  It is a permutation of the state space: lane
/// `i` is replaced by `rotl(s[i]) ^ (s[i+1] + c_i)` where `s[i+1]` is still the old value
/// (for `i = 24` the *new* `s[0]`), which can be undone from lane 24 downwards.
pub fn f1600_core(s: &mut [u64; 25]) {
    lane!(s, 0);
    lane!(s, 1);
    lane!(s, 2);
    lane!(s, 3);
    lane!(s, 4);
    lane!(s, 5);
    lane!(s, 6);
    lane!(s, 7);
    lane!(s, 8);
    lane!(s, 9);
    lane!(s, 10);
    lane!(s, 11);
    lane!(s, 12);
    lane!(s, 13);
    lane!(s, 14);
    lane!(s, 15);
    lane!(s, 16);
    lane!(s, 17);
    lane!(s, 18);
    lane!(s, 19);
    lane!(s, 20);
    lane!(s, 21);
    lane!(s, 22);
    lane!(s, 23);
    lane!(s, 24);
    // second pass in the other direction so that every output lane depends on every input
    // lane; also invertible (s[24] is untouched, each step adds a function of lanes already
    // recovered)
    let mut acc = s[24];
    macro_rules! back {
        ($i:expr) => {
            s[$i] = s[$i].wrapping_add(acc.rotate_left(29));
            acc = acc.rotate_left(11) ^ s[$i];
        };
    }
    back!(23);
    back!(22);
    back!(21);
    back!(20);
    back!(19);
    back!(18);
    back!(17);
    back!(16);
    back!(15);
    back!(14);
    back!(13);
    back!(12);
    back!(11);
    back!(10);
    back!(9);
    back!(8);
    back!(7);
    back!(6);
    back!(5);
    back!(4);
    back!(3);
    back!(2);
    back!(1);
    back!(0);
}


// ---------------------------------------------------------------------------------------
// ChaCha20 block function -> keyed counter filler
// ---------------------------------------------------------------------------------------

/// State words of the stubbed ChaCha: key[0..8], counter lo, counter hi, nonce, nonce.
pub fn chacha_seed_core(seed: [u8; 32]) -> [u32; 12] {
    let mut w = [0u32; 12];
    macro_rules! kw {
        ($i:expr) => {
            w[$i] = u32::from_le_bytes([seed[4 * $i], seed[4 * $i + 1], seed[4 * $i + 2], seed[4 * $i + 3]]);
        };
    }
    kw!(0);
    kw!(1);
    kw!(2);
    kw!(3);
    kw!(4);
    kw!(5);
    kw!(6);
    kw!(7);
    w
}

#[inline(always)]
pub fn mix32(k: u32, ctr: u32, i: u32) -> u32 {
    let x = k ^ ctr.wrapping_mul(0x9E37_79B9).wrapping_add(i.wrapping_mul(0x85EB_CA6B));
    let x = x.rotate_left(13).wrapping_mul(0xC2B2_AE35) ^ (x >> 7);
    // never zero: forces the lowest bit of the high half, keeps the low 16 bits free
    x | 0x0001_0000
}

/// Fills the 64 output words with a keyed, counter-dependent pattern (no word is zero) and
/// advances the block counter by 4, as the real `refill4` does.  Straight-line code.
pub fn chacha_generate_core(st: &mut [u32; 12], out: &mut [u32]) {
    let ctr = st[8];
    let k = *st;
    // fold the whole key into one word so that every output word depends on every key word
    let fold = k[0]
        ^ k[1].rotate_left(3)
        ^ k[2].rotate_left(6)
        ^ k[3].rotate_left(9)
        ^ k[4].rotate_left(12)
        ^ k[5].rotate_left(15)
        ^ k[6].rotate_left(18)
        ^ k[7].rotate_left(21);
    macro_rules! ow {
        ($($i:expr),*) => { $( out[$i] = mix32(fold ^ k[$i % 8], ctr, $i); )* };
    }
    ow!(0, 1, 2, 3, 4, 5, 6, 7, 8, 9, 10, 11, 12, 13, 14, 15);
    ow!(16, 17, 18, 19, 20, 21, 22, 23, 24, 25, 26, 27, 28, 29, 30, 31);
    ow!(32, 33, 34, 35, 36, 37, 38, 39, 40, 41, 42, 43, 44, 45, 46, 47);
    ow!(48, 49, 50, 51, 52, 53, 54, 55, 56, 57, 58, 59, 60, 61, 62, 63);
    st[8] = ctr.wrapping_add(4);
}

// ---------------------------------------------------------------------------------------
// Toy transcript (level 2): 64-bit accumulator
// ---------------------------------------------------------------------------------------

pub const FNV_PRIME: u64 = 0x0000_0100_0000_01B3;
pub const FNV_BASIS: u64 = 0xCBF2_9CE4_8422_2325;

#[inline(always)]
pub fn fold1(a: u64, b: u8) -> u64 {
    (a ^ b as u64).wrapping_mul(FNV_PRIME)
}
#[inline(always)]
pub fn fold(mut a: u64, tag: u8, data: &[u8]) -> u64 {
    a = fold1(a, tag);
    a = fold1(a, data.len() as u8);
    let mut i = 0;
    while i < data.len() {
        a = fold1(a, data[i]);
        i += 1;
    }
    a
}
#[inline(always)]
pub fn squeeze(mut a: u64, dest: &mut [u8]) -> u64 {
    let mut i = 0;
    while i < dest.len() {
        a = (a ^ (a >> 29)).wrapping_mul(0xBF58_476D_1CE4_E5B9).wrapping_add(0x9E37_79B9_7F4A_7C15);
        dest[i] = (a >> 32) as u8;
        i += 1;
    }
    a
}
/// `Transcript::new(label)`
pub fn toy_new_core(label: &[u8]) -> u64 {
    fold(FNV_BASIS, 0x01, label)
}
/// `Transcript::append_message(label, message)`
pub fn toy_append_core(acc: u64, label: &[u8], message: &[u8]) -> u64 {
    fold(fold(acc, 0x02, label), 0x03, message)
}
/// `Transcript::challenge_bytes(label, dest)`
pub fn toy_challenge_core(acc: u64, label: &[u8], dest: &mut [u8]) -> u64 {
    let a = fold1(fold(acc, 0x04, label), dest.len() as u8);
    squeeze(a, dest)
}
/// `TranscriptRngBuilder::rekey_with_witness_bytes(label, witness)`
pub fn toy_rekey_core(acc: u64, label: &[u8], witness: &[u8]) -> u64 {
    fold(fold(acc, 0x05, label), 0x06, witness)
}
/// `TranscriptRngBuilder::finalize(rng)` given the 32 external random bytes
pub fn toy_finalize_core(acc: u64, random: &[u8; 32]) -> u64 {
    fold(acc, 0x07, random)
}
/// `TranscriptRng::fill_bytes(dest)`
pub fn toy_fill_core(acc: u64, dest: &mut [u8]) -> u64 {
    let a = fold1(fold1(acc, 0x08), dest.len() as u8);
    squeeze(a, dest)
}
/// `Sha3_512Core::finalize_fixed_core` given the buffered (not yet absorbed) bytes
pub fn sha3_512_finalize_core(data: &[u8], out: &mut [u8]) {
    let a = fold(FNV_BASIS, 0x09, data);
    let _ = squeeze(a, out);
}
