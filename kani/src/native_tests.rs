use crate::k271::*;
use crate::unit::*;
use ark_ff::{Field, FftField, One, Zero};

#[test]
fn k271_field_axioms() {
    for a in 0..P {
        let x = K271(a);
        assert_eq!(x + (-x), K271::zero());
        if a != 0 {
            assert_eq!(x * x.inverse().unwrap(), K271::one());
        } else {
            assert!(x.inverse().is_none());
        }
        for b in 0..P {
            let y = K271(b);
            assert_eq!(x + y - y, x);
            assert_eq!((x * y).0, ((a as u32 * b as u32) % 271) as u16);
        }
    }
    // generator has order 270
    let g = K271::GENERATOR;
    let mut acc = K271::one();
    let mut ord = 0;
    loop { acc *= g; ord += 1; if acc == K271::one() { break; } }
    assert_eq!(ord, 270);
    assert_eq!(K271::TWO_ADIC_ROOT_OF_UNITY * K271::TWO_ADIC_ROOT_OF_UNITY, K271::one());
    let _ = UnitA(K271(1));
}

use crate::scenario::*;
use ark_bulletproofs::r1cs::{R1CSError, R1CSProof};
use ark_bulletproofs::verif_hooks::InnerProductProof;
use ark_bulletproofs::BulletproofGens;

/// Honest prove/verify round trip on the unit group for 0..=4 gates, plus
/// encode/decode and rejection of a tampered proof.
#[test]
fn honest_round_trip_unit_group() {
    for g in 0..=4usize {
        let cap = g.next_power_of_two().max(1);
        let bp = BulletproofGens::<UnitA>::new(cap, 1);
        let (proof, com) = honest_proof(g, &bp).expect("prove");
        verify_proof(g, &proof, com, &bp).expect("honest proof verifies");
        let bytes = proof.to_bytes().unwrap();
        let k = if g <= 1 { 0 } else { cap.trailing_zeros() as usize };
        assert_eq!(bytes.len(), 11 * POINT_BYTES + 5 * SCALAR_BYTES + 16 + 2 * k * POINT_BYTES);
        let back = R1CSProof::<UnitA>::from_bytes(&bytes).unwrap();
        verify_proof(g, &back, com, &bp).expect("decoded proof verifies");
        // tamper t_x
        let (pts, mut sc, ipp) = proof.verif_parts();
        sc[0] += K271(1);
        let (l, r, a, b) = ipp.verif_parts();
        let bad = R1CSProof::verif_from_parts(pts, sc, InnerProductProof::verif_from_parts(l.to_vec(), r.to_vec(), a, b));
        assert!(matches!(verify_proof(g, &bad, com, &bp), Err(R1CSError::VerificationError)));
    }
}

// -----------------------------------------------------------------------------------------
// The stubs are really in force (per feature) and agree with the #[kani::stub] wrappers.
// -----------------------------------------------------------------------------------------

/// keccak::f1600 is the stub body iff `native-stubs-l1` is on.
#[test]
fn keccak_stub_in_force_iff_feature() {
    let mut a = [0u64; 25];
    a[3] = 7;
    let mut b = a;
    keccak::f1600(&mut a);
    crate::stubs::f1600_stub(&mut b);
    assert_eq!(a == b, cfg!(feature = "native-stubs-l1"));
    // the stub is not the identity and not constant
    let mut c = [0u64; 25];
    crate::stubs::f1600_stub(&mut c);
    assert_ne!(b, c);
    assert_ne!(c, [0u64; 25]);
}

/// ChaCha20Rng built by the library equals the stub wrappers iff `native-stubs-l1` is on; the
/// stubbed stream is non-zero, seed-dependent and advances.
#[test]
fn chacha_stub_in_force_iff_feature() {
    use rand_chacha::ChaCha20Core;
    use rand_core::block::BlockRngCore;
    use rand_core::SeedableRng;
    let seed = [9u8; 32];
    let mut lib = ChaCha20Core::from_seed(seed);
    let mut r1 = <ChaCha20Core as BlockRngCore>::Results::default();
    lib.generate(&mut r1);
    let mut st = crate::stubs::chacha_from_seed_stub(seed);
    let mut r2 = <ChaCha20Core as BlockRngCore>::Results::default();
    crate::stubs::chacha_generate_stub(&mut st, &mut r2);
    assert_eq!(r1.as_ref() == r2.as_ref(), cfg!(feature = "native-stubs-l1"));
    let mut r3 = <ChaCha20Core as BlockRngCore>::Results::default();
    crate::stubs::chacha_generate_stub(&mut st, &mut r3);
    assert_ne!(r2.as_ref(), r3.as_ref());
    assert!(r2.as_ref().iter().all(|w| *w != 0));
    let mut st2 = crate::stubs::chacha_from_seed_stub([8u8; 32]);
    let mut r4 = <ChaCha20Core as BlockRngCore>::Results::default();
    crate::stubs::chacha_generate_stub(&mut st2, &mut r4);
    assert_ne!(r2.as_ref(), r4.as_ref());
}

/// Toy transcript: library == wrappers iff `native-stubs-l2`; challenges depend on content.
#[test]
fn toy_transcript_in_force_iff_feature() {
    use crate::stubs::*;
    use merlin::Transcript;
    let mut lib = Transcript::new(b"x");
    lib.append_message(b"l", b"hello");
    let mut c1 = [0u8; 32];
    lib.challenge_bytes(b"c", &mut c1);
    let mut toy = toy_transcript_new(b"x");
    toy_append_message(&mut toy, b"l", b"hello");
    let mut c2 = [0u8; 32];
    toy_challenge_bytes(&mut toy, b"c", &mut c2);
    assert_eq!(c1 == c2, cfg!(feature = "native-stubs-l2"));
    let mut toy2 = toy_transcript_new(b"x");
    toy_append_message(&mut toy2, b"l", b"hellp");
    let mut c3 = [0u8; 32];
    toy_challenge_bytes(&mut toy2, b"c", &mut c3);
    assert_ne!(c2, c3);
    let mut c4 = [0u8; 32];
    toy_challenge_bytes(&mut toy2, b"c", &mut c4);
    assert_ne!(c3, c4);
    // the prover-side RNG path
    let b = toy_rekey(toy.build_rng(), b"w", b"witness");
    let mut rng = toy_finalize(b, &mut CounterRng(1));
    let (mut d1, mut d2) = ([0u8; 2], [0u8; 2]);
    toy_rng_fill_bytes(&mut rng, &mut d1);
    toy_rng_fill_bytes(&mut rng, &mut d2);
    assert_ne!(d1, d2);
}

/// Under whatever stub level is compiled in, honest challenges on the unit group are
/// non-zero and not all equal (no degenerate transcript), and generator chains differ.
#[test]
fn challenges_and_generators_not_degenerate() {
    use ark_bulletproofs::verif_hooks::TranscriptProtocol;
    use merlin::Transcript;
    let mut t = Transcript::new(b"nd");
    let mut seen = std::collections::BTreeSet::new();
    for i in 0..40u16 {
        <Transcript as TranscriptProtocol<UnitA>>::append_point(&mut t, b"P", &UnitA(K271(i)));
        let c: K271 = <Transcript as TranscriptProtocol<UnitA>>::challenge_scalar(&mut t, b"c");
        assert!(c.0 != 0 && c.0 < 271);
        seen.insert(c.0);
    }
    assert!(seen.len() > 20, "challenges look constant: {:?}", seen);
    let bp = BulletproofGens::<UnitA>::new(4, 2);
    let g0 = bp.share(0).verif_G(4);
    let h0 = bp.share(0).verif_H(4);
    let g1 = bp.share(1).verif_G(4);
    assert_ne!(g0, h0);
    assert_ne!(g0, g1);
    assert!(g0.iter().all(|p| p.0 .0 != 0));
}

// -----------------------------------------------------------------------------------------
// C08 replays on the unit group (ordinary tests)
// -----------------------------------------------------------------------------------------

/// Encoding of a structurally arbitrary proof: the two list lengths are independent prefixes.
fn craft(len_l: usize, len_r: usize) -> Vec<u8> {
    let mut b = Vec::new();
    let el = |b: &mut Vec<u8>, v: u16| b.extend_from_slice(&v.to_le_bytes());
    for i in 0..14 {
        el(&mut b, 21 + i);
    }
    b.extend_from_slice(&(len_l as u64).to_le_bytes());
    for i in 0..len_l {
        el(&mut b, 3 + i as u16);
    }
    b.extend_from_slice(&(len_r as u64).to_le_bytes());
    for i in 0..len_r {
        el(&mut b, 5 + i as u16);
    }
    el(&mut b, 7);
    el(&mut b, 9);
    b
}

/// C08: every (|L|, |R|) in a 4x4 grid, against circuits of 0..=4 gates, through the public
/// byte interface: `from_bytes` accepts (independent prefixes), `verify` returns without
/// panicking.  (On the pre-fix tree 5ee7c7d this test aborts for |L| != |R|; the crate is
/// built with panic = "abort" in its own profiles, here a panic fails the test.)
#[test]
fn c08_replay_unequal_lengths_verify_returns() {
    for g in 0..=4usize {
        let cap = g.next_power_of_two().max(1);
        let bp = BulletproofGens::<UnitA>::new(cap, 1);
        for l in 0..4 {
            for r in 0..4 {
                let bytes = craft(l, r);
                let proof = R1CSProof::<UnitA>::from_bytes(&bytes).expect("decodes");
                let res = verify_proof(g, &proof, UnitA(K271(50)), &bp);
                assert!(res.is_err(), "garbage proof accepted g={} l={} r={}", g, l, r);
            }
        }
    }
}

/// C08 at the inner-product level: `verification_scalars` returns Err for unequal lengths and
/// for n != 2^|L|, Ok with the right vector lengths otherwise.
#[test]
fn c08_replay_ipp_scalars_grid() {
    use merlin::Transcript;
    for l in 0..4usize {
        for r in 0..4usize {
            for n in 0..10usize {
                let lv: Vec<UnitA> = (0..l).map(|i| UnitA(K271(3 + i as u16))).collect();
                let rv: Vec<UnitA> = (0..r).map(|i| UnitA(K271(5 + i as u16))).collect();
                let p = InnerProductProof::<UnitA>::verif_from_parts(lv, rv, K271(7), K271(9));
                let mut t = Transcript::new(b"ipp");
                match p.verif_verification_scalars(n, &mut t) {
                    Ok((a, b, s)) => {
                        assert!(l == r && n == 1 << l);
                        assert_eq!((a.len(), b.len(), s.len()), (l, l, n));
                    }
                    Err(_) => assert!(l != r || n != 1 << l),
                }
            }
        }
    }
}

/// C11 (concrete, exhaustive on the unit group): every strict prefix of the encoding of a
/// k-round proof, k in 0..=3, is rejected with FormatError.  The Kani formulation of this
/// statement ran out of memory (NOTES.md), so this is the only check of it in Engine K.
#[test]
fn c11_every_strict_prefix_rejected() {
    for k in 0..=3usize {
        let bytes = craft(k, k);
        assert!(R1CSProof::<UnitA>::from_bytes(&bytes).is_ok());
        for cut in 0..bytes.len() {
            assert!(matches!(R1CSProof::<UnitA>::from_bytes(&bytes[..cut]), Err(R1CSError::FormatError)), "k={} cut={}", k, cut);
        }
    }
}

/// Observation found by the Kani harness `c12_aggregated_iter_party_major` (C12): with n = 0 and
/// m >= 2 the aggregated iterator is NOT empty -- it yields generator 0 of parties 1..m-1
/// (`AggregatedGensIter::next` advances the party before checking `gen_idx < n`).  This test
/// documents the current behaviour; it does not assert that it is intended.
#[test]
fn c12_observation_zero_width_view_is_not_empty() {
    let bp = BulletproofGens::<UnitA>::new(4, 3);
    assert_eq!(bp.G(0, 1).count(), 0);
    let mut it = bp.G(0, 3);
    let mut got: Vec<UnitA> = Vec::new();
    while let Some(g) = it.next() {
        got.push(*g);
    }
    // current behaviour: two items (party 1 and party 2, generator 0) instead of none
    assert_eq!(got, vec![bp.share(1).verif_G(1)[0], bp.share(2).verif_G(1)[0]]);
    // all n >= 1 views are exact
    for n in 1..=4 {
        for m in 0..=3 {
            let flat: Vec<UnitA> = (0..m).flat_map(|j| bp.share(j).verif_G(n)).collect();
            assert_eq!(bp.G(n, m).cloned().collect::<Vec<_>>(), flat);
        }
    }
}

/// ... and once it has yielded an item, its `size_hint` computes `0 * (m - party) - 1`: with
/// overflow checks on (the crate's dev and test profiles set `debug-assertions = true`) any
/// adaptor that asks for the hint (`collect`, `cloned().collect()`) panics.
#[cfg(debug_assertions)]
#[test]
#[should_panic(expected = "subtract with overflow")]
fn c12_observation_zero_width_view_size_hint_overflows() {
    let bp = BulletproofGens::<UnitA>::new(4, 3);
    let mut it = bp.G(0, 3);
    let _ = it.next();
    let _ = it.size_hint();
}
