use crate::k271::*;
use crate::unit::*;
use ark_ff::{Field, FftField, One, Zero};

#[test]
fn k271_field_axioms() {
    for a in 0..P {
        let x = K271(a);
        assert_eq!(x + (-x), K271::zero());
        if a != 0 {
            assert_eq!(x * x.inverse().unwrap(), K271::one());
        } else {
            assert!(x.inverse().is_none());
        }
        for b in 0..P {
            let y = K271(b);
            assert_eq!(x + y - y, x);
            assert_eq!((x * y).0, ((a as u32 * b as u32) % 271) as u16);
        }
    }
    // generator has order 270
    let g = K271::GENERATOR;
    let mut acc = K271::one();
    let mut ord = 0;
    loop { acc *= g; ord += 1; if acc == K271::one() { break; } }
    assert_eq!(ord, 270);
    assert_eq!(K271::TWO_ADIC_ROOT_OF_UNITY * K271::TWO_ADIC_ROOT_OF_UNITY, K271::one());
    let _ = UnitA(K271(1));
}
