use crate::k271::*;
use crate::unit::*;
use ark_ff::{Field, FftField, One, Zero};

#[test]
fn k271_field_axioms() {
    for a in 0..P {
        let x = K271(a);
        assert_eq!(x + (-x), K271::zero());
        if a != 0 {
            assert_eq!(x * x.inverse().unwrap(), K271::one());
        } else {
            assert!(x.inverse().is_none());
        }
        for b in 0..P {
            let y = K271(b);
            assert_eq!(x + y - y, x);
            assert_eq!((x * y).0, ((a as u32 * b as u32) % 271) as u16);
        }
    }
    // generator has order 270
    let g = K271::GENERATOR;
    let mut acc = K271::one();
    let mut ord = 0;
    loop { acc *= g; ord += 1; if acc == K271::one() { break; } }
    assert_eq!(ord, 270);
    assert_eq!(K271::TWO_ADIC_ROOT_OF_UNITY * K271::TWO_ADIC_ROOT_OF_UNITY, K271::one());
    let _ = UnitA(K271(1));
}

use crate::scenario::*;
use ark_bulletproofs::r1cs::{R1CSError, R1CSProof};
use ark_bulletproofs::verif_hooks::InnerProductProof;
use ark_bulletproofs::BulletproofGens;

/// Honest prove/verify round trip on the unit group for 0..=4 gates, plus
/// encode/decode and rejection of a tampered proof.
#[test]
fn honest_round_trip_unit_group() {
    for g in 0..=4usize {
        let cap = g.next_power_of_two().max(1);
        let bp = BulletproofGens::<UnitA>::new(cap, 1);
        let (proof, com) = honest_proof(g, &bp).expect("prove");
        verify_proof(g, &proof, com, &bp).expect("honest proof verifies");
        let bytes = proof.to_bytes().unwrap();
        let k = if g <= 1 { 0 } else { cap.trailing_zeros() as usize };
        assert_eq!(bytes.len(), 11 * POINT_BYTES + 5 * SCALAR_BYTES + 16 + 2 * k * POINT_BYTES);
        let back = R1CSProof::<UnitA>::from_bytes(&bytes).unwrap();
        verify_proof(g, &back, com, &bp).expect("decoded proof verifies");
        // tamper t_x
        let (pts, mut sc, ipp) = proof.verif_parts();
        sc[0] += K271(1);
        let (l, r, a, b) = ipp.verif_parts();
        let bad = R1CSProof::verif_from_parts(pts, sc, InnerProductProof::verif_from_parts(l.to_vec(), r.to_vec(), a, b));
        assert!(matches!(verify_proof(g, &bad, com, &bp), Err(R1CSError::VerificationError)));
    }
}
