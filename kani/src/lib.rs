//! Engine K: Kani/CBMC harnesses for `/repo` (ark-bulletproofs) instantiated at the
//! unit group over the hand-written field `K271`.  See NOTES.md.
#![allow(non_snake_case)]
pub mod k271;
pub mod scenario;
pub mod stubs;
pub mod unit;

#[cfg(kani)]
mod harnesses;

#[cfg(test)]
mod native_tests;
