//! The "unit group": the additive group of `K271`, dressed up as an ark-ec curve group.
//!
//! point = one field element, scalar multiplication = field multiplication,
//! `msm_unchecked` = inner product, identity = 0, generator = 1, `rand` = one
//! (non-zero) field draw, serialisation = the 2-byte field encoding (compressed and
//! uncompressed alike), every encodable element is a valid group element.
//!
//! The discrete logarithm is trivial here, so nothing about soundness/hiding can be
//! concluded on this group; it exists to exercise the *shape / integer / panic* side
//! of `/repo`'s generic code under Kani with concrete group values.
use crate::k271::K271;
use ark_ec::{AffineRepr, CurveConfig, CurveGroup, Group, ScalarMul, VariableBaseMSM};
use ark_ff::{Field, UniformRand};
use ark_serialize::*;
use ark_std::rand::{
    distributions::{Distribution, Standard},
    Rng,
};
use core::fmt;
use core::iter::Sum;
use core::ops::*;
use num_traits::Zero;
use zeroize::Zeroize;

/// Encoded size of a point in bytes.
pub const POINT_BYTES: usize = 2;
/// Encoded size of a scalar in bytes.
pub const SCALAR_BYTES: usize = 2;

pub struct UnitCfg;
impl CurveConfig for UnitCfg {
    type BaseField = K271;
    type ScalarField = K271;
    const COFACTOR: &'static [u64] = &[1];
    const COFACTOR_INV: K271 = K271(1);
}

/// "Affine" representation.
#[derive(Copy, Clone, Debug, PartialEq, Eq, Hash, Default)]
pub struct UnitA(pub K271);
/// "Projective" representation.
#[derive(Copy, Clone, Debug, PartialEq, Eq, Hash, Default)]
pub struct UnitP(pub K271);

macro_rules! common {
    ($T:ident) => {
        impl fmt::Display for $T {
            fn fmt(&self, f: &mut fmt::Formatter<'_>) -> fmt::Result {
                write!(f, "{}", self.0)
            }
        }
        impl Zeroize for $T {
            fn zeroize(&mut self) {
                self.0.zeroize();
            }
        }
        impl CanonicalSerialize for $T {
            #[inline]
            fn serialize_with_mode<W: Write>(&self, w: W, c: Compress) -> Result<(), SerializationError> {
                self.0.serialize_with_mode(w, c)
            }
            #[inline]
            fn serialized_size(&self, c: Compress) -> usize {
                self.0.serialized_size(c)
            }
        }
        impl Valid for $T {
            #[inline]
            fn check(&self) -> Result<(), SerializationError> {
                Ok(())
            }
        }
        impl CanonicalDeserialize for $T {
            #[inline]
            fn deserialize_with_mode<R: Read>(r: R, c: Compress, v: Validate) -> Result<Self, SerializationError> {
                let p = K271::deserialize_with_mode(r, c, v).map($T)?;
                if let Validate::Yes = v {
                    p.check()?;
                }
                Ok(p)
            }
        }
        impl Distribution<$T> for Standard {
            #[inline]
            fn sample<R: Rng + ?Sized>(&self, rng: &mut R) -> $T {
                $T(K271::rand(rng))
            }
        }
    };
}
common!(UnitA);
common!(UnitP);

impl From<UnitP> for UnitA {
    #[inline]
    fn from(g: UnitP) -> Self {
        UnitA(g.0)
    }
}
impl From<UnitA> for UnitP {
    #[inline]
    fn from(g: UnitA) -> Self {
        UnitP(g.0)
    }
}
impl Zero for UnitP {
    #[inline]
    fn zero() -> Self {
        UnitP(K271(0))
    }
    #[inline]
    fn is_zero(&self) -> bool {
        self.0.is_zero()
    }
}
impl Neg for UnitP {
    type Output = Self;
    fn neg(self) -> Self {
        UnitP(-self.0)
    }
}
impl Neg for UnitA {
    type Output = Self;
    fn neg(self) -> Self {
        UnitA(-self.0)
    }
}
macro_rules! padd {
    ($tr:ident, $m:ident, $tra:ident, $ma:ident) => {
        impl<'a> $tr<&'a UnitP> for UnitP {
            type Output = Self;
            #[inline]
            fn $m(self, o: &Self) -> Self {
                UnitP(self.0.$m(o.0))
            }
        }
        impl $tr<UnitP> for UnitP {
            type Output = Self;
            #[inline]
            fn $m(self, o: Self) -> Self {
                UnitP(self.0.$m(o.0))
            }
        }
        impl<'a> $tra<&'a UnitP> for UnitP {
            #[inline]
            fn $ma(&mut self, o: &Self) {
                self.0.$ma(o.0);
            }
        }
        impl $tra<UnitP> for UnitP {
            #[inline]
            fn $ma(&mut self, o: Self) {
                self.0.$ma(o.0);
            }
        }
        impl<'a> $tr<&'a UnitA> for UnitP {
            type Output = Self;
            #[inline]
            fn $m(self, o: &UnitA) -> Self {
                UnitP(self.0.$m(o.0))
            }
        }
        impl $tr<UnitA> for UnitP {
            type Output = Self;
            #[inline]
            fn $m(self, o: UnitA) -> Self {
                UnitP(self.0.$m(o.0))
            }
        }
        impl<'a> $tra<&'a UnitA> for UnitP {
            #[inline]
            fn $ma(&mut self, o: &UnitA) {
                self.0.$ma(o.0);
            }
        }
        impl $tra<UnitA> for UnitP {
            #[inline]
            fn $ma(&mut self, o: UnitA) {
                self.0.$ma(o.0);
            }
        }
    };
}
padd!(Add, add, AddAssign, add_assign);
padd!(Sub, sub, SubAssign, sub_assign);
impl Mul<K271> for UnitP {
    type Output = Self;
    #[inline]
    fn mul(self, s: K271) -> Self {
        UnitP(self.0 * s)
    }
}
impl<'a> Mul<&'a K271> for UnitP {
    type Output = Self;
    #[inline]
    fn mul(self, s: &K271) -> Self {
        UnitP(self.0 * s)
    }
}
impl MulAssign<K271> for UnitP {
    #[inline]
    fn mul_assign(&mut self, s: K271) {
        self.0 *= s;
    }
}
impl<'a> MulAssign<&'a K271> for UnitP {
    #[inline]
    fn mul_assign(&mut self, s: &K271) {
        self.0 *= s;
    }
}
impl Sum<UnitP> for UnitP {
    fn sum<I: Iterator<Item = Self>>(it: I) -> Self {
        it.fold(Self::zero(), |a, b| a + b)
    }
}
impl<'a> Sum<&'a UnitP> for UnitP {
    fn sum<I: Iterator<Item = &'a Self>>(it: I) -> Self {
        it.fold(Self::zero(), |a, b| a + b)
    }
}
impl Sum<UnitA> for UnitP {
    fn sum<I: Iterator<Item = UnitA>>(it: I) -> Self {
        it.fold(Self::zero(), |a, b| a + b)
    }
}
impl<'a> Sum<&'a UnitA> for UnitP {
    fn sum<I: Iterator<Item = &'a UnitA>>(it: I) -> Self {
        it.fold(Self::zero(), |a, b| a + b)
    }
}

/// Scalar from bigint limbs (reduced mod 271; limbs beyond the first only arise for
/// foreign bigints, which `/repo` never passes).
#[inline]
fn from_limbs(l: &[u64]) -> K271 {
    let mut acc = K271(0);
    // 2^64 mod 271
    let radix = K271::from(1u128 << 64);
    let mut i = l.len();
    while i > 0 {
        i -= 1;
        acc = acc * radix + K271::from(l[i]);
    }
    acc
}

impl Group for UnitP {
    type ScalarField = K271;
    #[inline]
    fn generator() -> Self {
        UnitP(K271(1))
    }
    fn double_in_place(&mut self) -> &mut Self {
        self.0 = self.0.double();
        self
    }
    #[inline]
    fn mul_bigint(&self, other: impl AsRef<[u64]>) -> Self {
        UnitP(self.0 * from_limbs(other.as_ref()))
    }
}
impl ScalarMul for UnitP {
    type MulBase = UnitA;
    const NEGATION_IS_CHEAP: bool = true;
    fn batch_convert_to_mul_base(bases: &[Self]) -> Vec<UnitA> {
        bases.iter().map(|b| UnitA(b.0)).collect()
    }
}
impl VariableBaseMSM for UnitP {
    /// Inner product (the provided `msm` wrapper keeps ark-ec's length check).
    fn msm_unchecked(bases: &[UnitA], scalars: &[K271]) -> Self {
        let n = if bases.len() < scalars.len() { bases.len() } else { scalars.len() };
        let mut acc = K271(0);
        let mut i = 0;
        while i < n {
            acc += bases[i].0 * scalars[i];
            i += 1;
        }
        UnitP(acc)
    }
}
impl CurveGroup for UnitP {
    type Config = UnitCfg;
    type BaseField = K271;
    type Affine = UnitA;
    type FullGroup = UnitA;
    fn normalize_batch(v: &[Self]) -> Vec<UnitA> {
        v.iter().map(|b| UnitA(b.0)).collect()
    }
}

impl Add<UnitA> for UnitA {
    type Output = UnitP;
    #[inline]
    fn add(self, o: Self) -> UnitP {
        UnitP(self.0 + o.0)
    }
}
impl<'a> Add<&'a UnitA> for UnitA {
    type Output = UnitP;
    #[inline]
    fn add(self, o: &Self) -> UnitP {
        UnitP(self.0 + o.0)
    }
}
impl Add<UnitP> for UnitA {
    type Output = UnitP;
    #[inline]
    fn add(self, o: UnitP) -> UnitP {
        UnitP(self.0 + o.0)
    }
}
impl<'a> Add<&'a UnitP> for UnitA {
    type Output = UnitP;
    #[inline]
    fn add(self, o: &UnitP) -> UnitP {
        UnitP(self.0 + o.0)
    }
}
impl Mul<K271> for UnitA {
    type Output = UnitP;
    #[inline]
    fn mul(self, s: K271) -> UnitP {
        UnitP(self.0 * s)
    }
}
impl<'a> Mul<&'a K271> for UnitA {
    type Output = UnitP;
    #[inline]
    fn mul(self, s: &K271) -> UnitP {
        UnitP(self.0 * s)
    }
}

static ONE_COORD: K271 = K271(1);

impl AffineRepr for UnitA {
    type Config = UnitCfg;
    type ScalarField = K271;
    type BaseField = K271;
    type Group = UnitP;
    fn xy(&self) -> Option<(&K271, &K271)> {
        if self.0.is_zero() {
            None
        } else {
            Some((&self.0, &ONE_COORD))
        }
    }
    #[inline]
    fn zero() -> Self {
        UnitA(K271(0))
    }
    #[inline]
    fn is_zero(&self) -> bool {
        self.0.is_zero()
    }
    #[inline]
    fn generator() -> Self {
        UnitA(K271(1))
    }
    fn from_random_bytes(b: &[u8]) -> Option<Self> {
        <K271 as Field>::from_random_bytes(b).map(UnitA)
    }
    #[inline]
    fn mul_bigint(&self, by: impl AsRef<[u64]>) -> UnitP {
        UnitP(self.0 * from_limbs(by.as_ref()))
    }
    fn clear_cofactor(&self) -> Self {
        *self
    }
    fn mul_by_cofactor_to_group(&self) -> UnitP {
        UnitP(self.0)
    }
}
