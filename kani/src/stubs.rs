//! Stub wrappers used by the Kani harnesses (`#[kani::stub(..)]`, `-Z stubbing`).
//!
//! Every stub is part of the claim of each harness that lists it.  The *bodies* live in the
//! dependency-free crate `verif-stub-core` (`/verif/kani/stub-core`); the functions below only
//! adapt types.  The same bodies are compiled into the patched copies of keccak / rand_chacha /
//! merlin / sha3 under `/verif/kani/vendor` when their `verif-stub` feature is on, which is how
//! the native tests run honest prove/verify round trips *under the stubs* (NOTES.md, "native").
//!
//! Level 1 (STROBE / SHA-3 framing stays real):
//!
//! | replaced function | stub | what is lost |
//! |---|---|---|
//! | `keccak::f1600`, `keccak::p1600` | `f1600_stub`, `p1600_stub` | the Keccak permutation becomes two passes of invertible lane mixing |
//! | `zeroize::optimization_barrier` | `barrier_stub` | empty inline-asm compiler fence -> no-op (no functional effect) |
//! | `<ChaCha20Core as SeedableRng>::from_seed` | `chacha_from_seed_stub` | ppv-lite86 SIMD dispatch (CPUID + SSE/AVX intrinsics) is not modelled by Kani |
//! | `<ChaCha20Core as BlockRngCore>::generate` (= `guts::ChaCha::refill4`) | `chacha_generate_stub` | ChaCha20 block function -> keyed counter filler, no word zero |
//! | `alloc::fmt::format` | `format_stub` | error-path string formatting -> empty string |
//!
//! Level 2 (toy transcript; for harnesses that run a whole prover / verifier):
//!
//! | replaced function | stub |
//! |---|---|
//! | `merlin::Transcript::{new, append_message, challenge_bytes}` | `toy_transcript_new`, `toy_append_message`, `toy_challenge_bytes` |
//! | `merlin::TranscriptRngBuilder::{rekey_with_witness_bytes, finalize}` | `toy_rekey`, `toy_finalize` |
//! | `<merlin::TranscriptRng as RngCore>::fill_bytes` | `toy_rng_fill_bytes` |
//! | `<sha3::Sha3_512Core as FixedOutputCore>::finalize_fixed_core` | `sha3_512_finalize_stub` |
//!
//! The toy transcript keeps a 64-bit FNV-1a style accumulator in the first 8 bytes of the
//! (otherwise unused) STROBE state; every label, length and message byte is folded into it and
//! challenges are squeezed from it.  Kept: challenges are a deterministic function of everything
//! appended so far, in order; prover and verifier derive equal challenges from equal
//! transcripts.  Lost: STROBE framing and every cryptographic property.  Harnesses using level 2
//! claim shape / panic / threshold / bookkeeping facts only.
use digest::core_api::Buffer;
use digest::Output;
use merlin::{Transcript, TranscriptRng, TranscriptRngBuilder};
use rand_chacha::ChaCha20Core;
use rand_core::block::BlockRngCore;
use sha3::Sha3_512Core;
use verif_stub_core as core_;

// ------------------------------------------------------------------------------------------
// Level 1
// ------------------------------------------------------------------------------------------

/// `keccak::f1600`
pub fn f1600_stub(s: &mut [u64; 25]) {
    core_::f1600_core(s)
}
/// `keccak::p1600` (used by the `sha3` crate): same mixing, round count ignored.
pub fn p1600_stub(s: &mut [u64; 25], _round_count: usize) {
    core_::f1600_core(s)
}
/// `zeroize::optimization_barrier` is an empty inline-asm statement.
pub fn barrier_stub<T: ?Sized>(_val: &T) {}

/// Layout twin of `rand_chacha::ChaCha20Core { state: guts::ChaCha { b, c, d: vec128_storage } }`:
/// three 16-byte, 16-aligned words: key[0..4], key[4..8], (counter lo, counter hi, nonce, nonce).
#[repr(C, align(16))]
#[derive(Copy, Clone)]
pub struct ChaChaTwin(pub [u32; 12]);

const _: () = assert!(core::mem::size_of::<ChaCha20Core>() == core::mem::size_of::<ChaChaTwin>());
const _: () = assert!(core::mem::align_of::<ChaCha20Core>() <= core::mem::align_of::<ChaChaTwin>());

/// `<ChaCha20Core as SeedableRng>::from_seed`: key words = seed, counter = 0, nonce = 0.
pub fn chacha_from_seed_stub(seed: [u8; 32]) -> ChaCha20Core {
    let w = core_::chacha_seed_core(seed);
    // SAFETY: same size (checked above), all bit patterns valid for the SIMD storage union.
    unsafe { core::mem::transmute::<ChaChaTwin, ChaCha20Core>(ChaChaTwin(w)) }
}
/// `<ChaCha20Core as BlockRngCore>::generate`
pub fn chacha_generate_stub(this: &mut ChaCha20Core, r: &mut <ChaCha20Core as BlockRngCore>::Results) {
    // SAFETY: layout twin, see above.
    let st: &mut ChaChaTwin = unsafe { &mut *(this as *mut ChaCha20Core as *mut ChaChaTwin) };
    core_::chacha_generate_core(&mut st.0, r.as_mut());
}
/// `alloc::fmt::format` -> empty string (only reachable through `to_string()` on io errors).
pub fn format_stub(_args: core::fmt::Arguments<'_>) -> String {
    String::new()
}

// ------------------------------------------------------------------------------------------
// Level 2
// ------------------------------------------------------------------------------------------

/// Layout twin of `merlin::strobe::Strobe128` (and of the three single-field wrappers).
#[repr(C, align(8))]
pub struct StrobeTwin {
    pub state: [u8; 200],
    pub pos: u8,
    pub pos_begin: u8,
    pub cur_flags: u8,
}
const _: () = assert!(core::mem::size_of::<StrobeTwin>() == core::mem::size_of::<Transcript>());
const _: () = assert!(core::mem::size_of::<StrobeTwin>() == core::mem::size_of::<TranscriptRngBuilder>());
const _: () = assert!(core::mem::size_of::<StrobeTwin>() == core::mem::size_of::<TranscriptRng>());
const _: () = assert!(core::mem::align_of::<StrobeTwin>() >= core::mem::align_of::<Transcript>());

#[inline(always)]
fn acc_get(p: *mut u8) -> u64 {
    // SAFETY: `p` points at a live 208-byte object (twin layout).
    unsafe { u64::from_le_bytes([*p, *p.add(1), *p.add(2), *p.add(3), *p.add(4), *p.add(5), *p.add(6), *p.add(7)]) }
}
#[inline(always)]
fn acc_set(p: *mut u8, a: u64) {
    let b = a.to_le_bytes();
    unsafe {
        *p = b[0];
        *p.add(1) = b[1];
        *p.add(2) = b[2];
        *p.add(3) = b[3];
        *p.add(4) = b[4];
        *p.add(5) = b[5];
        *p.add(6) = b[6];
        *p.add(7) = b[7];
    }
}

/// `merlin::Transcript::new`
pub fn toy_transcript_new(label: &'static [u8]) -> Transcript {
    let mut tw = StrobeTwin { state: [0u8; 200], pos: 0, pos_begin: 0, cur_flags: 0 };
    acc_set(tw.state.as_mut_ptr(), core_::toy_new_core(label));
    // SAFETY: same size; every bit pattern is a valid Strobe128.
    unsafe { core::mem::transmute::<StrobeTwin, Transcript>(tw) }
}
/// `merlin::Transcript::append_message`
pub fn toy_append_message(t: &mut Transcript, label: &'static [u8], message: &[u8]) {
    let p = t as *mut Transcript as *mut u8;
    acc_set(p, core_::toy_append_core(acc_get(p), label, message));
}
/// `merlin::Transcript::challenge_bytes`
pub fn toy_challenge_bytes(t: &mut Transcript, label: &'static [u8], dest: &mut [u8]) {
    let p = t as *mut Transcript as *mut u8;
    acc_set(p, core_::toy_challenge_core(acc_get(p), label, dest));
}
/// `merlin::TranscriptRngBuilder::rekey_with_witness_bytes`
pub fn toy_rekey(mut b: TranscriptRngBuilder, label: &'static [u8], witness: &[u8]) -> TranscriptRngBuilder {
    let p = &mut b as *mut TranscriptRngBuilder as *mut u8;
    acc_set(p, core_::toy_rekey_core(acc_get(p), label, witness));
    b
}
/// `merlin::TranscriptRngBuilder::finalize`
pub fn toy_finalize<R>(mut b: TranscriptRngBuilder, rng: &mut R) -> TranscriptRng
where
    R: rand_core::RngCore + rand_core::CryptoRng,
{
    let mut bytes = [0u8; 32];
    rng.fill_bytes(&mut bytes);
    let p = &mut b as *mut TranscriptRngBuilder as *mut u8;
    acc_set(p, core_::toy_finalize_core(acc_get(p), &bytes));
    // SAFETY: both are single-field wrappers of Strobe128.
    unsafe { core::mem::transmute::<TranscriptRngBuilder, TranscriptRng>(b) }
}
/// `<merlin::TranscriptRng as RngCore>::fill_bytes`
pub fn toy_rng_fill_bytes(r: &mut TranscriptRng, dest: &mut [u8]) {
    let p = r as *mut TranscriptRng as *mut u8;
    acc_set(p, core_::toy_fill_core(acc_get(p), dest));
}
/// `<Sha3_512Core as FixedOutputCore>::finalize_fixed_core`: the real one pads the 72-byte block
/// byte by byte, absorbs it and runs the permutation (135k symex steps per generator chain even
/// with the permutation stubbed).  The stub folds the buffered bytes (label material of
/// `GeneratorsChain::new`: always < 72 bytes, so nothing has been absorbed before) into a 64-bit
/// accumulator and expands it to the 64 output bytes.
pub fn sha3_512_finalize_stub(_this: &mut Sha3_512Core, buffer: &mut Buffer<Sha3_512Core>, out: &mut Output<Sha3_512Core>) {
    core_::sha3_512_finalize_core(buffer.get_data(), out.as_mut_slice());
}

// ------------------------------------------------------------------------------------------
// A trivial external RNG for `Prover::prove` / `batch_verify` (caller-supplied randomness).
// ------------------------------------------------------------------------------------------

/// Counter RNG; deterministic, never yields an all-zero word.
pub struct CounterRng(pub u32);
impl rand_core::RngCore for CounterRng {
    fn next_u32(&mut self) -> u32 {
        self.0 = self.0.wrapping_add(1);
        core_::mix32(0xA5A5_5A5A, self.0, 7)
    }
    fn next_u64(&mut self) -> u64 {
        let lo = self.next_u32() as u64;
        let hi = self.next_u32() as u64;
        (hi << 32) | lo
    }
    fn fill_bytes(&mut self, dest: &mut [u8]) {
        let mut i = 0;
        while i < dest.len() {
            if i % 4 == 0 {
                self.0 = self.0.wrapping_add(1);
            }
            dest[i] = (core_::mix32(0xA5A5_5A5A, self.0, 7) >> (8 * (i % 4) as u32)) as u8;
            i += 1;
        }
    }
    fn try_fill_bytes(&mut self, dest: &mut [u8]) -> Result<(), rand_core::Error> {
        self.fill_bytes(dest);
        Ok(())
    }
}
impl rand_core::CryptoRng for CounterRng {}
