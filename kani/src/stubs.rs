//! Stub bodies used by the Kani harnesses (`#[kani::stub(..)]`, `-Z stubbing`).
//!
//! Every stub is part of the claim of each harness that lists it.  The bodies are
//! compiled natively as well: the native tests in `crate::native_tests` run the honest
//! prove/verify round trip with `verif_native_stubs` in force (see `vendor/README`),
//! which routes the *same* functions below into the patched `keccak` / `rand_chacha`
//! crates, so that an honest run under the stubs is known not to be degenerate.
//!
//! | replaced function | stub | what is lost |
//! |---|---|---|
//! | `keccak::f1600`, `keccak::p1600` | `f1600_stub`, `p1600_stub` | the Keccak permutation is replaced by one pass of invertible lane mixing; Merlin/STROBE and SHA-3 framing code stays real |
//! | `zeroize::optimization_barrier` | `barrier_stub` | inline asm compiler fence -> no-op (no functional effect) |
//! | `<ChaCha20Core as SeedableRng>::from_seed` | `chacha_from_seed_stub` | ppv-lite86 SIMD dispatch (CPUID + SSE/AVX intrinsics) is not modelled by Kani |
//! | `<ChaCha20Core as BlockRngCore>::generate` (= `guts::ChaCha::refill4`) | `chacha_generate_stub` | ChaCha20 block function -> keyed counter filler, never all-zero |
//! | `alloc::fmt::format` | `format_stub` | error-path string formatting -> empty string |
use rand_chacha::ChaCha20Core;
use rand_core::block::BlockRngCore;

// ------------------------------------------------------------------------------------------
// Keccak
// ------------------------------------------------------------------------------------------

macro_rules! lane {
    ($s:ident, $i:expr) => {
        $s[$i] = $s[$i].rotate_left(7 + ($i as u32 % 13))
            ^ $s[($i + 1) % 25].wrapping_add(0x9E37_79B9_7F4A_7C15u64 ^ (($i as u64) << 17) ^ ($i as u64));
    };
}

/// One pass of sequential lane mixing over the 25 lanes (straight-line: no loop, so it does
/// not contribute to any unwinding bound).  It is a permutation of the state space: lane
/// `i` is replaced by `rotl(s[i]) ^ (s[i+1] + c_i)` where `s[i+1]` is still the old value
/// (for `i = 24` the *new* `s[0]`), which can be undone from lane 24 downwards.
#[inline(never)]
pub fn f1600_stub(s: &mut [u64; 25]) {
    lane!(s, 0);
    lane!(s, 1);
    lane!(s, 2);
    lane!(s, 3);
    lane!(s, 4);
    lane!(s, 5);
    lane!(s, 6);
    lane!(s, 7);
    lane!(s, 8);
    lane!(s, 9);
    lane!(s, 10);
    lane!(s, 11);
    lane!(s, 12);
    lane!(s, 13);
    lane!(s, 14);
    lane!(s, 15);
    lane!(s, 16);
    lane!(s, 17);
    lane!(s, 18);
    lane!(s, 19);
    lane!(s, 20);
    lane!(s, 21);
    lane!(s, 22);
    lane!(s, 23);
    lane!(s, 24);
    // second pass in the other direction so that every output lane depends on every input
    // lane; also invertible (s[24] is untouched, each step adds a function of lanes already
    // recovered)
    let mut acc = s[24];
    macro_rules! back {
        ($i:expr) => {
            s[$i] = s[$i].wrapping_add(acc.rotate_left(29));
            acc = acc.rotate_left(11) ^ s[$i];
        };
    }
    back!(23);
    back!(22);
    back!(21);
    back!(20);
    back!(19);
    back!(18);
    back!(17);
    back!(16);
    back!(15);
    back!(14);
    back!(13);
    back!(12);
    back!(11);
    back!(10);
    back!(9);
    back!(8);
    back!(7);
    back!(6);
    back!(5);
    back!(4);
    back!(3);
    back!(2);
    back!(1);
    back!(0);
}

/// `keccak::p1600` (used by the `sha3` crate) -> same mixing, round count ignored.
#[inline(never)]
pub fn p1600_stub(s: &mut [u64; 25], _round_count: usize) {
    f1600_stub(s)
}

// ------------------------------------------------------------------------------------------
// zeroize
// ------------------------------------------------------------------------------------------

/// `zeroize::optimization_barrier` is an empty inline-asm statement.
pub fn barrier_stub<T: ?Sized>(_val: &T) {}

// ------------------------------------------------------------------------------------------
// rand_chacha
// ------------------------------------------------------------------------------------------

/// Layout twin of `rand_chacha::ChaCha20Core { state: guts::ChaCha { b, c, d: vec128_storage } }`:
/// three 16-byte, 16-aligned words: key[0..4], key[4..8], (counter lo, counter hi, nonce, nonce).
#[repr(C, align(16))]
#[derive(Copy, Clone)]
pub struct ChaChaTwin(pub [u32; 12]);

const _: () = assert!(core::mem::size_of::<ChaCha20Core>() == core::mem::size_of::<ChaChaTwin>());
const _: () = assert!(core::mem::align_of::<ChaCha20Core>() <= core::mem::align_of::<ChaChaTwin>());

/// `<ChaCha20Core as SeedableRng>::from_seed`: key words = seed, counter = 0, nonce = 0.
pub fn chacha_from_seed_stub(seed: [u8; 32]) -> ChaCha20Core {
    let mut w = [0u32; 12];
    macro_rules! kw {
        ($i:expr) => {
            w[$i] = u32::from_le_bytes([seed[4 * $i], seed[4 * $i + 1], seed[4 * $i + 2], seed[4 * $i + 3]]);
        };
    }
    kw!(0);
    kw!(1);
    kw!(2);
    kw!(3);
    kw!(4);
    kw!(5);
    kw!(6);
    kw!(7);
    // SAFETY: same size (checked above), all bit patterns valid for the SIMD storage union.
    unsafe { core::mem::transmute::<ChaChaTwin, ChaCha20Core>(ChaChaTwin(w)) }
}

#[inline(always)]
fn mix32(k: u32, ctr: u32, i: u32) -> u32 {
    let x = k ^ ctr.wrapping_mul(0x9E37_79B9).wrapping_add(i.wrapping_mul(0x85EB_CA6B));
    let x = x.rotate_left(13).wrapping_mul(0xC2B2_AE35) ^ (x >> 7);
    // never zero: forces the lowest bit of the high half, keeps the low 16 bits free
    x | 0x0001_0000
}

/// `<ChaCha20Core as BlockRngCore>::generate`: fills the 64 output words with a keyed,
/// counter-dependent pattern (no word is zero) and advances the block counter by 4, as the
/// real `refill4` does.  Straight-line code (no loop).
pub fn chacha_generate_stub(this: &mut ChaCha20Core, r: &mut <ChaCha20Core as BlockRngCore>::Results) {
    // SAFETY: layout twin, see above.
    let st: &mut ChaChaTwin = unsafe { &mut *(this as *mut ChaCha20Core as *mut ChaChaTwin) };
    let ctr = st.0[8];
    let out: &mut [u32] = r.as_mut();
    let k = st.0;
    // fold the whole key into one word so that every output word depends on every key word
    let fold = k[0]
        ^ k[1].rotate_left(3)
        ^ k[2].rotate_left(6)
        ^ k[3].rotate_left(9)
        ^ k[4].rotate_left(12)
        ^ k[5].rotate_left(15)
        ^ k[6].rotate_left(18)
        ^ k[7].rotate_left(21);
    macro_rules! ow {
        ($($i:expr),*) => { $( out[$i] = mix32(fold ^ k[$i % 8], ctr, $i); )* };
    }
    ow!(0, 1, 2, 3, 4, 5, 6, 7, 8, 9, 10, 11, 12, 13, 14, 15);
    ow!(16, 17, 18, 19, 20, 21, 22, 23, 24, 25, 26, 27, 28, 29, 30, 31);
    ow!(32, 33, 34, 35, 36, 37, 38, 39, 40, 41, 42, 43, 44, 45, 46, 47);
    ow!(48, 49, 50, 51, 52, 53, 54, 55, 56, 57, 58, 59, 60, 61, 62, 63);
    st.0[8] = ctr.wrapping_add(4);
}

// ------------------------------------------------------------------------------------------
// formatting on error paths
// ------------------------------------------------------------------------------------------

/// `alloc::fmt::format` -> empty string (only reachable through `to_string()` on io errors).
pub fn format_stub(_args: core::fmt::Arguments<'_>) -> String {
    String::new()
}

// ------------------------------------------------------------------------------------------
// A trivial external RNG for `Prover::prove` / `batch_verify` (caller-supplied randomness).
// ------------------------------------------------------------------------------------------

/// Counter RNG; deterministic, never yields an all-zero word.
pub struct CounterRng(pub u32);
impl rand_core::RngCore for CounterRng {
    fn next_u32(&mut self) -> u32 {
        self.0 = self.0.wrapping_add(1);
        mix32(0xA5A5_5A5A, self.0, 7)
    }
    fn next_u64(&mut self) -> u64 {
        let lo = self.next_u32() as u64;
        let hi = self.next_u32() as u64;
        (hi << 32) | lo
    }
    fn fill_bytes(&mut self, dest: &mut [u8]) {
        let mut i = 0;
        while i < dest.len() {
            if i % 4 == 0 {
                self.0 = self.0.wrapping_add(1);
            }
            dest[i] = (mix32(0xA5A5_5A5A, self.0, 7) >> (8 * (i % 4) as u32)) as u8;
            i += 1;
        }
    }
    fn try_fill_bytes(&mut self, dest: &mut [u8]) -> Result<(), rand_core::Error> {
        self.fill_bytes(dest);
        Ok(())
    }
}
impl rand_core::CryptoRng for CounterRng {}

// ------------------------------------------------------------------------------------------
// Level 2: toy transcript (Merlin API level).
//
// With only the Keccak permutation stubbed, one `Verifier::verify` path costs CBMC's symbolic
// execution more than 25 minutes (NOTES.md), so harnesses that run a whole prover or verifier
// replace Merlin's *operations* as well.  The toy transcript keeps a 64-bit FNV-1a style
// accumulator in the first 8 bytes of the (otherwise unused) STROBE state; every label,
// length and message byte is folded into it, challenges are squeezed from it.  What is kept:
// challenges are a deterministic function of everything appended so far, in order, and prover
// and verifier derive equal challenges from equal transcripts.  What is lost: STROBE framing
// and every cryptographic property.  Harnesses using these stubs claim shape / panic /
// threshold facts only.
// ------------------------------------------------------------------------------------------

use merlin::{Transcript, TranscriptRng, TranscriptRngBuilder};

/// Layout twin of `merlin::strobe::Strobe128` (and of the three single-field wrappers).
#[repr(C, align(8))]
pub struct StrobeTwin {
    pub state: [u8; 200],
    pub pos: u8,
    pub pos_begin: u8,
    pub cur_flags: u8,
}
const _: () = assert!(core::mem::size_of::<StrobeTwin>() == core::mem::size_of::<Transcript>());
const _: () = assert!(core::mem::size_of::<StrobeTwin>() == core::mem::size_of::<TranscriptRngBuilder>());
const _: () = assert!(core::mem::size_of::<StrobeTwin>() == core::mem::size_of::<TranscriptRng>());
const _: () = assert!(core::mem::align_of::<StrobeTwin>() >= core::mem::align_of::<Transcript>());

const FNV_PRIME: u64 = 0x0000_0100_0000_01B3;
const FNV_BASIS: u64 = 0xCBF2_9CE4_8422_2325;

#[inline(always)]
fn acc_get(p: *mut u8) -> u64 {
    // SAFETY: `p` points at a live 208-byte object (twin layout).
    unsafe { u64::from_le_bytes([*p, *p.add(1), *p.add(2), *p.add(3), *p.add(4), *p.add(5), *p.add(6), *p.add(7)]) }
}
#[inline(always)]
fn acc_set(p: *mut u8, a: u64) {
    let b = a.to_le_bytes();
    unsafe {
        *p = b[0];
        *p.add(1) = b[1];
        *p.add(2) = b[2];
        *p.add(3) = b[3];
        *p.add(4) = b[4];
        *p.add(5) = b[5];
        *p.add(6) = b[6];
        *p.add(7) = b[7];
    }
}
#[inline(always)]
fn fold1(a: u64, b: u8) -> u64 {
    (a ^ b as u64).wrapping_mul(FNV_PRIME)
}
#[inline(always)]
fn fold(mut a: u64, tag: u8, data: &[u8]) -> u64 {
    a = fold1(a, tag);
    a = fold1(a, data.len() as u8);
    let mut i = 0;
    while i < data.len() {
        a = fold1(a, data[i]);
        i += 1;
    }
    a
}
#[inline(always)]
fn squeeze(mut a: u64, dest: &mut [u8]) -> u64 {
    let mut i = 0;
    while i < dest.len() {
        a = (a ^ (a >> 29)).wrapping_mul(0xBF58_476D_1CE4_E5B9).wrapping_add(0x9E37_79B9_7F4A_7C15);
        dest[i] = (a >> 32) as u8;
        i += 1;
    }
    a
}

/// `merlin::Transcript::new`
pub fn toy_transcript_new(label: &'static [u8]) -> Transcript {
    let mut tw = StrobeTwin { state: [0u8; 200], pos: 0, pos_begin: 0, cur_flags: 0 };
    let a = fold(FNV_BASIS, 0x01, label);
    acc_set(tw.state.as_mut_ptr(), a);
    // SAFETY: same size; every bit pattern is a valid Strobe128.
    unsafe { core::mem::transmute::<StrobeTwin, Transcript>(tw) }
}
/// `merlin::Transcript::append_message`
pub fn toy_append_message(t: &mut Transcript, label: &'static [u8], message: &[u8]) {
    let p = t as *mut Transcript as *mut u8;
    let a = fold(fold(acc_get(p), 0x02, label), 0x03, message);
    acc_set(p, a);
}
/// `merlin::Transcript::challenge_bytes`
pub fn toy_challenge_bytes(t: &mut Transcript, label: &'static [u8], dest: &mut [u8]) {
    let p = t as *mut Transcript as *mut u8;
    let a = fold1(fold(acc_get(p), 0x04, label), dest.len() as u8);
    let a = squeeze(a, dest);
    acc_set(p, a);
}
/// `merlin::TranscriptRngBuilder::rekey_with_witness_bytes`
pub fn toy_rekey(mut b: TranscriptRngBuilder, label: &'static [u8], witness: &[u8]) -> TranscriptRngBuilder {
    let p = &mut b as *mut TranscriptRngBuilder as *mut u8;
    let a = fold(fold(acc_get(p), 0x05, label), 0x06, witness);
    acc_set(p, a);
    b
}
/// `merlin::TranscriptRngBuilder::finalize`
pub fn toy_finalize<R>(mut b: TranscriptRngBuilder, rng: &mut R) -> TranscriptRng
where
    R: rand_core::RngCore + rand_core::CryptoRng,
{
    let mut bytes = [0u8; 32];
    rng.fill_bytes(&mut bytes);
    let p = &mut b as *mut TranscriptRngBuilder as *mut u8;
    let a = fold(acc_get(p), 0x07, &bytes);
    acc_set(p, a);
    // SAFETY: both are single-field wrappers of Strobe128.
    unsafe { core::mem::transmute::<TranscriptRngBuilder, TranscriptRng>(b) }
}
/// `<merlin::TranscriptRng as RngCore>::fill_bytes`
pub fn toy_rng_fill_bytes(r: &mut TranscriptRng, dest: &mut [u8]) {
    let p = r as *mut TranscriptRng as *mut u8;
    let a = fold1(fold1(acc_get(p), 0x08), dest.len() as u8);
    let a = squeeze(a, dest);
    acc_set(p, a);
}
/// `<core::slice::IterMut<'_, u8> as zeroize::Zeroize>::zeroize` (reached from the `Drop` of
/// every STROBE state: a 200-iteration volatile-write loop) -> one `memset`.
pub fn iter_zeroize_stub(it: &mut core::slice::IterMut<'_, u8>) {
    let s = core::mem::take(it).into_slice();
    // SAFETY: `s` is a valid exclusive slice.
    unsafe { core::ptr::write_bytes(s.as_mut_ptr(), 0, s.len()) }
}
