use crate::k271::K271;
use crate::stubs::*;
use crate::unit::*;
use ark_bulletproofs::verif_hooks::InnerProductProof;
use merlin::Transcript;
use rand_chacha::ChaCha20Core;
use rand_core::block::BlockRngCore;
use rand_core::SeedableRng;

/// smoke: field inverse
#[kani::proof]
#[kani::unwind(4)]
fn smoke_inverse() {
    use ark_ff::Field;
    let x = K271(3).inverse().unwrap();
    assert!(x * K271(3) == K271(1));
    kani::cover!(true);
}

/// smoke: transcript + challenge
#[kani::proof]
#[kani::unwind(34)]
#[kani::stub(keccak::f1600, f1600_stub)]
#[kani::stub(keccak::p1600, p1600_stub)]
#[kani::stub(zeroize::optimization_barrier, barrier_stub)]
#[kani::stub(<ChaCha20Core as SeedableRng>::from_seed, chacha_from_seed_stub)]
#[kani::stub(<ChaCha20Core as BlockRngCore>::generate, chacha_generate_stub)]
fn smoke_challenge() {
    use ark_bulletproofs::verif_hooks::TranscriptProtocol;
    let mut t = Transcript::new(b"t");
    <Transcript as TranscriptProtocol<UnitA>>::append_point(&mut t, b"L", &UnitA(K271(5)));
    let c: K271 = <Transcript as TranscriptProtocol<UnitA>>::challenge_scalar(&mut t, b"u");
    assert!(c.0 != 0 && c.0 < 271);
    core::mem::forget(t);
    kani::cover!(true);
}
