use crate::k271::K271;
use crate::stubs::*;
use crate::unit::*;
use ark_bulletproofs::verif_hooks::InnerProductProof;
use merlin::Transcript;
use rand_chacha::ChaCha20Core;
use rand_core::block::BlockRngCore;
use rand_core::SeedableRng;

/// smoke: field inverse
#[kani::proof]
#[kani::unwind(4)]
fn smoke_inverse() {
    use ark_ff::Field;
    let x = K271(3).inverse().unwrap();
    assert!(x * K271(3) == K271(1));
    kani::cover!(true);
}

/// smoke: transcript + challenge
#[kani::proof]
#[kani::unwind(34)]
#[kani::stub(keccak::f1600, f1600_stub)]
#[kani::stub(keccak::p1600, p1600_stub)]
#[kani::stub(zeroize::optimization_barrier, barrier_stub)]
#[kani::stub(<ChaCha20Core as SeedableRng>::from_seed, chacha_from_seed_stub)]
#[kani::stub(<ChaCha20Core as BlockRngCore>::generate, chacha_generate_stub)]
fn smoke_challenge() {
    use ark_bulletproofs::verif_hooks::TranscriptProtocol;
    let mut t = Transcript::new(b"t");
    <Transcript as TranscriptProtocol<UnitA>>::append_point(&mut t, b"L", &UnitA(K271(5)));
    let c: K271 = <Transcript as TranscriptProtocol<UnitA>>::challenge_scalar(&mut t, b"u");
    assert!(c.0 != 0 && c.0 < 271);
    core::mem::forget(t);
    kani::cover!(true);
}


/// Case split on a symbolic `usize` in `0..=3`: the continuation `$f` is symbolically
/// executed once per value with a *literal* first argument, so that every loop bound and
/// every transcript position that depends on it is a constant in CBMC's symbolic execution
/// (a symbolic-length `Vec` makes the STROBE position symbolic and symex does not finish:
/// 20 min / 8.6 GB without reaching the solver).  The quantifier is unchanged: the value
/// itself is `kani::any()`, all arms are in one proof, nothing is enumerated outside CBMC.
macro_rules! split4 {
    ($x:expr, $f:ident $(, $a:expr)*) => {
        match $x {
            0 => $f(0 $(, $a)*),
            1 => $f(1 $(, $a)*),
            2 => $f(2 $(, $a)*),
            _ => $f(3 $(, $a)*),
        }
    };
}

const LA: [UnitA; 3] = [UnitA(K271(3)), UnitA(K271(4)), UnitA(K271(11))];
const RA: [UnitA; 3] = [UnitA(K271(5)), UnitA(K271(6)), UnitA(K271(13))];

/// Body of the C08 ipp harness for literal `l`, `r`; `n` is symbolic.
fn ipp_body(r: usize, l: usize, n: usize, t0: &Transcript) {
    let proof = InnerProductProof::<UnitA>::verif_from_parts(LA[..l].to_vec(), RA[..r].to_vec(), K271(7), K271(9));
    let mut t = t0.clone();
    // `n` stays symbolic on the rejecting side; on the accepting side it is replaced by the
    // literal it is equal to (so the domain separator bytes and the `1..n` loop are constant).
    let res = if n == (1usize << l) {
        proof.verif_verification_scalars(1usize << l, &mut t)
    } else {
        proof.verif_verification_scalars(n, &mut t)
    };
    match &res {
        Ok((u_sq, u_inv_sq, s)) => {
            assert!(l == r);
            assert!(n == 1usize << l);
            assert!(u_sq.len() == l);
            assert!(u_inv_sq.len() == l);
            assert!(s.len() == n);
        }
        Err(_) => {}
    }
    kani::cover!(res.is_ok() && l == 3, "Ok reachable with three rounds");
    kani::cover!(res.is_ok() && l == 0, "Ok reachable with zero rounds");
    kani::cover!(res.is_err() && l == r, "Err reachable with equal lengths (wrong n)");
    kani::cover!(res.is_err() && l < r, "Err reachable with |L| < |R|");
    kani::cover!(res.is_err() && l > r, "Err reachable with |L| > |R|");
    core::mem::forget(t);
    core::mem::forget(res);
    core::mem::forget(proof);
}
fn ipp_split_r(l: usize, r: usize, n: usize, t0: &Transcript) {
    split4!(r, ipp_body, l, n, t0)
}

/// C08 `c08_ipp_scalars_any_lengths`
///
/// Property: C08 (hostile proofs never panic), inner-product level.
/// Symbolic: |L| in 0..=3, |R| in 0..=3 (independent), claimed length n in 0..=9.
/// Concrete: the points (non-identity), the scalars a, b, the transcript label.
/// Claim: `InnerProductProof::verification_scalars` returns `Ok`/`Err` and never panics
/// (Kani's default checks: index bounds, unwrap, overflow, explicit panics; unwinding
/// assertions on); if it returns `Ok((u_sq, u_inv_sq, s))` then |L| == |R|, n == 1 << |L|
/// and the three vectors have lengths |L|, |L|, n.
/// Bound: |L|,|R| <= 3, n <= 9; unwind 34 (longest loop: STROBE squeeze of 32 bytes).
/// Stubs: keccak::f1600, keccak::p1600, zeroize::optimization_barrier,
/// ChaCha20Core::{from_seed, generate}.
#[kani::proof]
#[kani::unwind(34)]
#[kani::stub(keccak::f1600, f1600_stub)]
#[kani::stub(keccak::p1600, p1600_stub)]
#[kani::stub(zeroize::optimization_barrier, barrier_stub)]
#[kani::stub(<ChaCha20Core as SeedableRng>::from_seed, chacha_from_seed_stub)]
#[kani::stub(<ChaCha20Core as BlockRngCore>::generate, chacha_generate_stub)]
fn c08_ipp_scalars_any_lengths() {
    let l: usize = kani::any();
    let r: usize = kani::any();
    let n: usize = kani::any();
    kani::assume(l <= 3 && r <= 3 && n <= 9);
    let t0 = Transcript::new(b"ipp");
    split4!(l, ipp_split_r, r, n, &t0);
    core::mem::forget(t0);
}
