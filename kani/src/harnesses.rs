//! Kani proof harnesses (Engine K).  Every harness states: property id, what is symbolic,
//! the bound, the unwind value and the stubs in force.  All harnesses are run through
//! `run_harness.py` (flags: `-Z stubbing --no-assertion-reach-checks
//! --cbmc-args --max-field-sensitivity-array-size 256`); unwinding assertions stay on.
use crate::k271::K271;
use crate::scenario::*;
use crate::stubs::*;
use crate::unit::*;
use ark_bulletproofs::r1cs::{R1CSError, R1CSProof};
use ark_bulletproofs::verif_hooks::InnerProductProof;
use ark_bulletproofs::BulletproofGens;
use merlin::Transcript;
use rand_chacha::ChaCha20Core;
use rand_core::block::BlockRngCore;
use rand_core::SeedableRng;

/// smoke: field inverse
#[kani::proof]
#[kani::unwind(4)]
fn smoke_inverse() {
    use ark_ff::Field;
    let x = K271(3).inverse().unwrap();
    assert!(x * K271(3) == K271(1));
    kani::cover!(true);
}

/// smoke: transcript + challenge
#[kani::proof]
#[kani::unwind(34)]
#[kani::stub(keccak::f1600, f1600_stub)]
#[kani::stub(keccak::p1600, p1600_stub)]
#[kani::stub(zeroize::optimization_barrier, barrier_stub)]
#[kani::stub(<ChaCha20Core as SeedableRng>::from_seed, chacha_from_seed_stub)]
#[kani::stub(<ChaCha20Core as BlockRngCore>::generate, chacha_generate_stub)]
fn smoke_challenge() {
    use ark_bulletproofs::verif_hooks::TranscriptProtocol;
    let mut t = Transcript::new(b"t");
    <Transcript as TranscriptProtocol<UnitA>>::append_point(&mut t, b"L", &UnitA(K271(5)));
    let c: K271 = <Transcript as TranscriptProtocol<UnitA>>::challenge_scalar(&mut t, b"u");
    assert!(c.0 != 0 && c.0 < 271);
    core::mem::forget(t);
    kani::cover!(true);
}


/// Case split on a symbolic `usize` in `0..=3`: the continuation `$f` is symbolically
/// executed once per value with a *literal* first argument, so that every loop bound and
/// every transcript position that depends on it is a constant in CBMC's symbolic execution
/// (a symbolic-length `Vec` makes the STROBE position symbolic and symex does not finish:
/// 20 min / 8.6 GB without reaching the solver).  The quantifier is unchanged: the value
/// itself is `kani::any()`, all arms are in one proof, nothing is enumerated outside CBMC.
macro_rules! split4 {
    ($x:expr, $f:ident $(, $a:expr)*) => {
        match $x {
            0 => $f(0 $(, $a)*),
            1 => $f(1 $(, $a)*),
            2 => $f(2 $(, $a)*),
            _ => $f(3 $(, $a)*),
        }
    };
}

const LA: [UnitA; 3] = [UnitA(K271(3)), UnitA(K271(4)), UnitA(K271(11))];
const RA: [UnitA; 3] = [UnitA(K271(5)), UnitA(K271(6)), UnitA(K271(13))];

macro_rules! split10 {
    ($x:expr, $f:ident $(, $a:expr)*) => {
        match $x {
            0 => $f(0 $(, $a)*),
            1 => $f(1 $(, $a)*),
            2 => $f(2 $(, $a)*),
            3 => $f(3 $(, $a)*),
            4 => $f(4 $(, $a)*),
            5 => $f(5 $(, $a)*),
            6 => $f(6 $(, $a)*),
            7 => $f(7 $(, $a)*),
            8 => $f(8 $(, $a)*),
            _ => $f(9 $(, $a)*),
        }
    };
}

/// Body of the C08 ipp harness; all three arguments are literals when symex gets here.
fn ipp_body(n: usize, r: usize, l: usize, t0: &Transcript) {
    let proof = InnerProductProof::<UnitA>::verif_from_parts(LA[..l].to_vec(), RA[..r].to_vec(), K271(7), K271(9));
    let mut t = t0.clone();
    let res = proof.verif_verification_scalars(n, &mut t);
    match &res {
        Ok((u_sq, u_inv_sq, s)) => {
            assert!(l == r);
            assert!(n == 1usize << l);
            assert!(u_sq.len() == l);
            assert!(u_inv_sq.len() == l);
            assert!(s.len() == n);
        }
        Err(_) => {}
    }
    kani::cover!(res.is_ok() && l == 3, "Ok reachable with three rounds");
    kani::cover!(res.is_ok() && l == 0, "Ok reachable with zero rounds");
    kani::cover!(res.is_err() && l == r, "Err reachable with equal lengths (wrong n)");
    kani::cover!(res.is_err() && l < r && n == (1usize << l), "Err reachable with |L| < |R|, n = 2^|L|");
    kani::cover!(res.is_err() && l > r && n == (1usize << l), "Err reachable with |L| > |R|, n = 2^|L|");
    core::mem::forget(t);
    core::mem::forget(res);
    core::mem::forget(proof);
}
fn ipp_split_n(r: usize, l: usize, n: usize, t0: &Transcript) {
    split10!(n, ipp_body, r, l, t0)
}
fn ipp_split_r(l: usize, r: usize, n: usize, t0: &Transcript) {
    split4!(r, ipp_split_n, l, n, t0)
}

/// C08 `c08_ipp_scalars_any_lengths`
///
/// Property: C08 (hostile proofs never panic), inner-product level.
/// Symbolic: |L| in 0..=3, |R| in 0..=3 (independent), claimed length n in 0..=9.
/// Concrete: the points (non-identity), the scalars a, b, the transcript label.
/// Claim: `InnerProductProof::verification_scalars` returns `Ok`/`Err` and never panics
/// (Kani's default checks: index bounds, unwrap, overflow, explicit panics; unwinding
/// assertions on); if it returns `Ok((u_sq, u_inv_sq, s))` then |L| == |R|, n == 1 << |L|
/// and the three vectors have lengths |L|, |L|, n.
/// Bound: |L|,|R| <= 3, n <= 9; unwind 34 (longest loop: STROBE squeeze of 32 bytes).
/// Stubs: keccak::f1600, keccak::p1600, zeroize::optimization_barrier,
/// ChaCha20Core::{from_seed, generate}.
#[kani::proof]
#[kani::unwind(34)]
#[kani::stub(keccak::f1600, f1600_stub)]
#[kani::stub(keccak::p1600, p1600_stub)]
#[kani::stub(zeroize::optimization_barrier, barrier_stub)]
#[kani::stub(<ChaCha20Core as SeedableRng>::from_seed, chacha_from_seed_stub)]
#[kani::stub(<ChaCha20Core as BlockRngCore>::generate, chacha_generate_stub)]
fn c08_ipp_scalars_any_lengths() {
    let l: usize = kani::any();
    let r: usize = kani::any();
    let n: usize = kani::any();
    kani::assume(l <= 3 && r <= 3 && n <= 9);
    let t0 = Transcript::new(b"ipp");
    split4!(l, ipp_split_r, r, n, &t0);
    core::mem::forget(t0);
}

const PTS: [UnitA; 11] = [
    UnitA(K271(21)), UnitA(K271(22)), UnitA(K271(23)), UnitA(K271(24)), UnitA(K271(25)), UnitA(K271(26)),
    UnitA(K271(27)), UnitA(K271(28)), UnitA(K271(29)), UnitA(K271(30)), UnitA(K271(31)),
];
const SCS: [K271; 3] = [K271(41), K271(42), K271(43)];

/// Fixed part of an encoded proof on the unit group: 11 points + 5 scalars + two u64 counts.
pub const FIXED_BYTES: usize = 11 * POINT_BYTES + 5 * SCALAR_BYTES + 16;

/// C08 ipp, quick variant: same harness body with |L|,|R| <= 2 and n <= 5.
#[kani::proof]
#[kani::unwind(34)]
#[kani::stub(keccak::f1600, f1600_stub)]
#[kani::stub(keccak::p1600, p1600_stub)]
#[kani::stub(zeroize::optimization_barrier, barrier_stub)]
#[kani::stub(<ChaCha20Core as SeedableRng>::from_seed, chacha_from_seed_stub)]
#[kani::stub(<ChaCha20Core as BlockRngCore>::generate, chacha_generate_stub)]
fn c08_ipp_scalars_any_lengths_quick() {
    let l: usize = kani::any();
    let r: usize = kani::any();
    let n: usize = kani::any();
    kani::assume(l <= 2 && r <= 2 && n <= 5);
    let t0 = Transcript::new(b"ipp");
    split4!(l, ipp_split_r, r, n, &t0);
    core::mem::forget(t0);
}

/// Size of the symbolic input of `c08_decode_any_bytes`.
pub const DECODE_MAX: usize = 56;

/// C08/C11 `c08_decode_any_bytes`
///
/// Property: C08 (decoding arbitrary bytes terminates with a proof or a format error, memory
/// proportional to the input) and C11 (invalid encodings are rejected with FormatError).
/// Symbolic: all 56 input bytes and the length `len` in 0..=56 of the slice handed to
/// `R1CSProof::<UnitA>::from_bytes`.
/// Claim: no panic / overflow / out-of-bounds; the result is `Ok` or `Err(FormatError)`;
/// on `Ok`, `FIXED + (|L| + |R|) * POINT_BYTES <= len` (nothing is allocated that the input did
/// not pay for) and every decoded element is canonical (< 271).
/// Bound: 56 bytes = fixed part (48) + up to 4 list elements, so every (|L|,|R|) with
/// |L|+|R| <= 4 is reachable; unwind 16 (at most 13 list elements fit before the reader runs
/// dry).  No transcript, no stubs.
#[kani::proof]
#[kani::unwind(16)]
fn c08_decode_any_bytes() {
    let bytes: [u8; DECODE_MAX] = kani::any();
    let len: usize = kani::any();
    kani::assume(len <= DECODE_MAX);
    let res = R1CSProof::<UnitA>::from_bytes(&bytes[..len]);
    match &res {
        Ok(p) => {
            let (pts, scs, ipp) = p.verif_parts();
            let (lv, rv, a, b) = ipp.verif_parts();
            assert!(FIXED_BYTES + (lv.len() + rv.len()) * POINT_BYTES <= len);
            assert!(a.0 < 271 && b.0 < 271);
            assert!(pts[0].0 .0 < 271 && pts[10].0 .0 < 271 && scs[2].0 < 271);
            kani::cover!(lv.len() == 1 && rv.len() == 2, "Ok with |L| = 1, |R| = 2");
            kani::cover!(lv.len() == 0 && rv.len() == 0 && len == FIXED_BYTES, "Ok with the minimal encoding");
            kani::cover!(len > FIXED_BYTES + (lv.len() + rv.len()) * POINT_BYTES, "Ok with trailing bytes");
        }
        Err(e) => {
            assert!(matches!(e, R1CSError::FormatError));
            kani::cover!(len == DECODE_MAX, "Err on a full-length input");
        }
    }
    core::mem::forget(res);
}

/// Body of `c11_size_law_roundtrip_prefix` for a literal round count `k`.
fn c11_body(k: usize, cut: usize) {
    let ipp = InnerProductProof::<UnitA>::verif_from_parts(LA[..k].to_vec(), RA[..k].to_vec(), K271(7), K271(9));
    let proof = R1CSProof::<UnitA>::verif_from_parts(PTS, SCS, ipp);
    let bytes = proof.to_bytes().unwrap();
    // size law
    assert!(bytes.len() == 11 * POINT_BYTES + 5 * SCALAR_BYTES + 16 + 2 * k * POINT_BYTES);
    // decode(encode) re-encodes to identical bytes
    let back = R1CSProof::<UnitA>::from_bytes(&bytes);
    assert!(back.is_ok());
    let back = back.unwrap();
    let again = back.to_bytes().unwrap();
    assert!(again == bytes);
    // every strict prefix is rejected with FormatError
    kani::assume(cut < bytes.len());
    let pre = R1CSProof::<UnitA>::from_bytes(&bytes[..cut]);
    assert!(matches!(pre, Err(R1CSError::FormatError)));
    kani::cover!(k == 3 && cut == bytes.len() - 1, "three rounds, longest strict prefix");
    kani::cover!(k == 0 && cut == 0, "zero rounds, empty prefix");
    kani::cover!(k == 2 && cut == FIXED_BYTES - 4 + 2, "cut inside the L list");
    core::mem::forget(pre);
    core::mem::forget(again);
    core::mem::forget(back);
    core::mem::forget(bytes);
    core::mem::forget(proof);
}

/// C11 `c11_size_law_roundtrip_prefix`
///
/// Property: C11 (size law, encode/decode/encode identity, every strict prefix rejected).
/// Symbolic: number of inner-product rounds k in 0..=3 (|L| = |R| = k), cut point in 0..len.
/// Concrete: the element values.
/// Claim: `to_bytes().len() == 11*P + 5*S + 16 + 2k*P` with P = S = 2 (unit group);
/// `from_bytes(to_bytes(p))` is Ok and re-encodes to identical bytes; for every cut < len,
/// `from_bytes(&bytes[..cut])` is `Err(FormatError)`.
/// Bound: k <= 3 (60 bytes); unwind 62 (byte-wise slice equality over 60 bytes).
/// No transcript, no stubs.
#[kani::proof]
#[kani::unwind(62)]
fn c11_size_law_roundtrip_prefix() {
    let k: usize = kani::any();
    let cut: usize = kani::any();
    kani::assume(k <= 3 && cut <= 64);
    split4!(k, c11_body, cut);
}

use merlin::TranscriptRng;
use merlin::TranscriptRngBuilder;
use rand_core::RngCore;

#[kani::proof]
#[kani::unwind(202)]
#[kani::stub(keccak::f1600, f1600_stub)]
#[kani::stub(keccak::p1600, p1600_stub)]
#[kani::stub(zeroize::optimization_barrier, barrier_stub)]
#[kani::stub(<ChaCha20Core as SeedableRng>::from_seed, chacha_from_seed_stub)]
#[kani::stub(<ChaCha20Core as BlockRngCore>::generate, chacha_generate_stub)]
#[kani::stub(merlin::Transcript::new, toy_transcript_new)]
#[kani::stub(merlin::Transcript::append_message, toy_append_message)]
#[kani::stub(merlin::Transcript::challenge_bytes, toy_challenge_bytes)]
#[kani::stub(TranscriptRngBuilder::rekey_with_witness_bytes, toy_rekey)]
#[kani::stub(TranscriptRngBuilder::finalize, toy_finalize)]
#[kani::stub(<TranscriptRng as RngCore>::fill_bytes, toy_rng_fill_bytes)]
fn dbg2_verify_concrete() {
    let bp = BulletproofGens::<UnitA>::new(2, 1);
    let ipp = InnerProductProof::<UnitA>::verif_from_parts(LA[..1].to_vec(), RA[..1].to_vec(), K271(7), K271(9));
    let proof = R1CSProof::<UnitA>::verif_from_parts(PTS, SCS, ipp);
    let res = verify_proof(2, &proof, UnitA(K271(50)), &bp);
    kani::cover!(res.is_err());
    core::mem::forget(bp);
    core::mem::forget(proof);
}
