//! Kani proof harnesses (Engine K).  Every harness states: property id, what is symbolic,
//! the bound, the unwind value and the stubs in force.  All harnesses are run through
//! `run_harness.py` (flags: `-Z stubbing --no-assertion-reach-checks
//! --cbmc-args --max-field-sensitivity-array-size 256`); unwinding assertions stay on.
use crate::k271::K271;
use crate::scenario::*;
use crate::stubs::*;
use crate::unit::*;
use ark_bulletproofs::r1cs::{R1CSError, R1CSProof};
use ark_bulletproofs::verif_hooks::InnerProductProof;
use ark_bulletproofs::BulletproofGens;
use merlin::Transcript;
use rand_chacha::ChaCha20Core;
use rand_core::block::BlockRngCore;
use rand_core::SeedableRng;

/// smoke: field inverse
#[kani::proof]
#[kani::unwind(4)]
fn smoke_inverse() {
    use ark_ff::Field;
    let x = K271(3).inverse().unwrap();
    assert!(x * K271(3) == K271(1));
    kani::cover!(true);
}

/// smoke: transcript + challenge
#[kani::proof]
#[kani::unwind(34)]
#[kani::stub(keccak::f1600, f1600_stub)]
#[kani::stub(keccak::p1600, p1600_stub)]
#[kani::stub(zeroize::optimization_barrier, barrier_stub)]
#[kani::stub(<ChaCha20Core as SeedableRng>::from_seed, chacha_from_seed_stub)]
#[kani::stub(<ChaCha20Core as BlockRngCore>::generate, chacha_generate_stub)]
fn smoke_challenge() {
    use ark_bulletproofs::verif_hooks::TranscriptProtocol;
    let mut t = Transcript::new(b"t");
    <Transcript as TranscriptProtocol<UnitA>>::append_point(&mut t, b"L", &UnitA(K271(5)));
    let c: K271 = <Transcript as TranscriptProtocol<UnitA>>::challenge_scalar(&mut t, b"u");
    assert!(c.0 != 0 && c.0 < 271);
    core::mem::forget(t);
    kani::cover!(true);
}


/// Case split on a symbolic `usize` in `0..=3`: the continuation `$f` is symbolically
/// executed once per value with a *literal* first argument, so that every loop bound and
/// every transcript position that depends on it is a constant in CBMC's symbolic execution
/// (a symbolic-length `Vec` makes the STROBE position symbolic and symex does not finish:
/// 20 min / 8.6 GB without reaching the solver).  The quantifier is unchanged: the value
/// itself is `kani::any()`, all arms are in one proof, nothing is enumerated outside CBMC.
macro_rules! split4 {
    ($x:expr, $f:ident $(, $a:expr)*) => {
        match $x {
            0 => $f(0 $(, $a)*),
            1 => $f(1 $(, $a)*),
            2 => $f(2 $(, $a)*),
            _ => $f(3 $(, $a)*),
        }
    };
}

const LA: [UnitA; 3] = [UnitA(K271(3)), UnitA(K271(4)), UnitA(K271(11))];
const RA: [UnitA; 3] = [UnitA(K271(5)), UnitA(K271(6)), UnitA(K271(13))];

macro_rules! split10 {
    ($x:expr, $f:ident $(, $a:expr)*) => {
        match $x {
            0 => $f(0 $(, $a)*),
            1 => $f(1 $(, $a)*),
            2 => $f(2 $(, $a)*),
            3 => $f(3 $(, $a)*),
            4 => $f(4 $(, $a)*),
            5 => $f(5 $(, $a)*),
            6 => $f(6 $(, $a)*),
            7 => $f(7 $(, $a)*),
            8 => $f(8 $(, $a)*),
            _ => $f(9 $(, $a)*),
        }
    };
}

/// Body of the C08 ipp harness; all three arguments are literals when symex gets here.
fn ipp_body(n: usize, r: usize, l: usize, t0: &Transcript) {
    let proof = InnerProductProof::<UnitA>::verif_from_parts(LA[..l].to_vec(), RA[..r].to_vec(), K271(7), K271(9));
    let mut t = t0.clone();
    let res = proof.verif_verification_scalars(n, &mut t);
    match &res {
        Ok((u_sq, u_inv_sq, s)) => {
            assert!(l == r);
            assert!(n == 1usize << l);
            assert!(u_sq.len() == l);
            assert!(u_inv_sq.len() == l);
            assert!(s.len() == n);
        }
        Err(_) => {}
    }
    kani::cover!(res.is_ok() && l == 2, "Ok reachable with two rounds");
    kani::cover!(res.is_ok() && l == 0, "Ok reachable with zero rounds");
    kani::cover!(res.is_err() && l == r, "Err reachable with equal lengths (wrong n)");
    kani::cover!(res.is_err() && l < r && n == (1usize << l), "Err reachable with |L| < |R|, n = 2^|L|");
    kani::cover!(res.is_err() && l > r && n == (1usize << l), "Err reachable with |L| > |R|, n = 2^|L|");
    core::mem::forget(t);
    core::mem::forget(res);
    core::mem::forget(proof);
}
fn ipp_split_n(r: usize, l: usize, n: usize, t0: &Transcript) {
    split10!(n, ipp_body, r, l, t0)
}
fn ipp_split_r(l: usize, r: usize, n: usize, t0: &Transcript) {
    split4!(r, ipp_split_n, l, n, t0)
}

/// C08 `c08_ipp_scalars_any_lengths`
///
/// Property: C08 (hostile proofs never panic), inner-product level.
/// Symbolic: |L| in 0..=3, |R| in 0..=3 (independent), claimed length n in 0..=9.
/// Concrete: the points (non-identity), the scalars a, b, the transcript label.
/// Claim: `InnerProductProof::verification_scalars` returns `Ok`/`Err` and never panics
/// (Kani's default checks: index bounds, unwrap, overflow, explicit panics; unwinding
/// assertions on); if it returns `Ok((u_sq, u_inv_sq, s))` then |L| == |R|, n == 1 << |L|
/// and the three vectors have lengths |L|, |L|, n.
/// Bound: |L|,|R| <= 3, n <= 9; unwind 34 (longest loop: STROBE squeeze of 32 bytes).
/// Stubs: keccak::f1600, keccak::p1600, zeroize::optimization_barrier,
/// ChaCha20Core::{from_seed, generate}.
#[kani::proof]
#[kani::unwind(34)]
#[kani::stub(keccak::f1600, f1600_stub)]
#[kani::stub(keccak::p1600, p1600_stub)]
#[kani::stub(zeroize::optimization_barrier, barrier_stub)]
#[kani::stub(<ChaCha20Core as SeedableRng>::from_seed, chacha_from_seed_stub)]
#[kani::stub(<ChaCha20Core as BlockRngCore>::generate, chacha_generate_stub)]
fn c08_ipp_scalars_any_lengths() {
    let l: usize = kani::any();
    let r: usize = kani::any();
    let n: usize = kani::any();
    kani::assume(l <= 3 && r <= 3 && n <= 9);
    let t0 = Transcript::new(b"ipp");
    split4!(l, ipp_split_r, r, n, &t0);
    core::mem::forget(t0);
}

const PTS: [UnitA; 11] = [
    UnitA(K271(21)), UnitA(K271(22)), UnitA(K271(23)), UnitA(K271(24)), UnitA(K271(25)), UnitA(K271(26)),
    UnitA(K271(27)), UnitA(K271(28)), UnitA(K271(29)), UnitA(K271(30)), UnitA(K271(31)),
];
const SCS: [K271; 3] = [K271(41), K271(42), K271(43)];

/// Fixed part of an encoded proof on the unit group: 11 points + 5 scalars + two u64 counts.
pub const FIXED_BYTES: usize = 11 * POINT_BYTES + 5 * SCALAR_BYTES + 16;

macro_rules! split3 {
    ($x:expr, $f:ident $(, $a:expr)*) => {
        match $x {
            0 => $f(0 $(, $a)*),
            1 => $f(1 $(, $a)*),
            _ => $f(2 $(, $a)*),
        }
    };
}
macro_rules! split6 {
    ($x:expr, $f:ident $(, $a:expr)*) => {
        match $x {
            0 => $f(0 $(, $a)*),
            1 => $f(1 $(, $a)*),
            2 => $f(2 $(, $a)*),
            3 => $f(3 $(, $a)*),
            4 => $f(4 $(, $a)*),
            _ => $f(5 $(, $a)*),
        }
    };
}
fn ippq_split_n(r: usize, l: usize, n: usize, t0: &Transcript) {
    split6!(n, ipp_body, r, l, t0)
}
fn ippq_split_r(l: usize, r: usize, n: usize, t0: &Transcript) {
    split3!(r, ippq_split_n, l, n, t0)
}

/// C08 `c08_ipp_scalars_any_lengths_quick`: the same body as `c08_ipp_scalars_any_lengths`
/// with the smaller bound |L|,|R| in 0..=2, n in 0..=5 (54 arms instead of 160); unwind 34;
/// same stubs.  (Two of the five cover properties mention |L| = 3 and are expected
/// unsatisfiable here, hence the separate witnesses below.)
#[kani::proof]
#[kani::unwind(34)]
#[kani::stub(keccak::f1600, f1600_stub)]
#[kani::stub(keccak::p1600, p1600_stub)]
#[kani::stub(zeroize::optimization_barrier, barrier_stub)]
#[kani::stub(<ChaCha20Core as SeedableRng>::from_seed, chacha_from_seed_stub)]
#[kani::stub(<ChaCha20Core as BlockRngCore>::generate, chacha_generate_stub)]
fn c08_ipp_scalars_any_lengths_quick() {
    let l: usize = kani::any();
    let r: usize = kani::any();
    let n: usize = kani::any();
    kani::assume(l <= 2 && r <= 2 && n <= 5);
    let t0 = Transcript::new(b"ipp");
    split3!(l, ippq_split_r, r, n, &t0);
    core::mem::forget(t0);
}

/// Size of the symbolic input of `c08_decode_any_bytes`.
pub const DECODE_MAX: usize = 56;

/// C08/C11 `c08_decode_any_bytes`
///
/// Property: C08 (decoding arbitrary bytes terminates with a proof or a format error, memory
/// proportional to the input) and C11 (invalid encodings are rejected with FormatError).
/// Symbolic: all 56 input bytes and the length `len` in 0..=56 of the slice handed to
/// `R1CSProof::<UnitA>::from_bytes`.
/// Claim: no panic / overflow / out-of-bounds; the result is `Ok` or `Err(FormatError)`;
/// on `Ok`, `FIXED + (|L| + |R|) * POINT_BYTES <= len` (nothing is allocated that the input did
/// not pay for) and every decoded element is canonical (< 271).
/// Bound: 56 bytes = fixed part (48) + up to 4 list elements, so every (|L|,|R|) with
/// |L|+|R| <= 4 is reachable; unwind 16 (at most 13 list elements fit before the reader runs
/// dry).  No transcript, no stubs.
#[kani::proof]
#[kani::unwind(16)]
fn c08_decode_any_bytes() {
    let bytes: [u8; DECODE_MAX] = kani::any();
    let len: usize = kani::any();
    kani::assume(len <= DECODE_MAX);
    let res = R1CSProof::<UnitA>::from_bytes(&bytes[..len]);
    match &res {
        Ok(p) => {
            let (pts, scs, ipp) = p.verif_parts();
            let (lv, rv, a, b) = ipp.verif_parts();
            assert!(FIXED_BYTES + (lv.len() + rv.len()) * POINT_BYTES <= len);
            assert!(a.0 < 271 && b.0 < 271);
            assert!(pts[0].0 .0 < 271 && pts[10].0 .0 < 271 && scs[2].0 < 271);
            kani::cover!(lv.len() == 1 && rv.len() == 2, "Ok with |L| = 1, |R| = 2");
            kani::cover!(lv.len() == 0 && rv.len() == 0 && len == FIXED_BYTES, "Ok with the minimal encoding");
            kani::cover!(len > FIXED_BYTES + (lv.len() + rv.len()) * POINT_BYTES, "Ok with trailing bytes");
        }
        Err(e) => {
            assert!(matches!(e, R1CSError::FormatError));
            kani::cover!(len == DECODE_MAX, "Err on a full-length input");
        }
    }
    core::mem::forget(res);
}

/// Body of `c11_size_law_roundtrip` for a literal round count `k`.
fn c11_roundtrip_body(k: usize) {
    let ipp = InnerProductProof::<UnitA>::verif_from_parts(LA[..k].to_vec(), RA[..k].to_vec(), K271(7), K271(9));
    let proof = R1CSProof::<UnitA>::verif_from_parts(PTS, SCS, ipp);
    let bytes = proof.to_bytes().unwrap();
    // size law
    assert!(bytes.len() == 11 * POINT_BYTES + 5 * SCALAR_BYTES + 16 + 2 * k * POINT_BYTES);
    // decode(encode) re-encodes to identical bytes
    let back = R1CSProof::<UnitA>::from_bytes(&bytes);
    assert!(back.is_ok());
    let back = back.unwrap();
    let again = back.to_bytes().unwrap();
    assert!(again == bytes);
    kani::cover!(k == 3, "three rounds");
    kani::cover!(k == 0, "zero rounds");
    core::mem::forget(again);
    core::mem::forget(back);
    core::mem::forget(bytes);
    core::mem::forget(proof);
}

/// C11 `c11_size_law_roundtrip`
///
/// Property: C11 (size law, encode/decode/encode identity).
/// Symbolic: number of inner-product rounds k in 0..=3 (|L| = |R| = k).  Concrete: element values.
/// Claim: `to_bytes().len() == 11*P + 5*S + 16 + 2k*P` with P = S = 2 (unit group);
/// `from_bytes(to_bytes(p))` is Ok and re-encodes to identical bytes.
/// Bound: k <= 3 (60 bytes); unwind 62 (byte-wise `memcmp` over 60 bytes).  No transcript, no stubs.
#[kani::proof]
#[kani::unwind(62)]
fn c11_size_law_roundtrip() {
    let k: usize = kani::any();
    kani::assume(k <= 3);
    split4!(k, c11_roundtrip_body);
}

/// Body of `c11_prefix_rejected` for a literal round count `k`.
fn c11_prefix_body(k: usize, cut: usize) {
    let ipp = InnerProductProof::<UnitA>::verif_from_parts(LA[..k].to_vec(), RA[..k].to_vec(), K271(7), K271(9));
    let proof = R1CSProof::<UnitA>::verif_from_parts(PTS, SCS, ipp);
    let bytes = proof.to_bytes().unwrap();
    let len = bytes.len();
    kani::assume(cut < len);
    // `cut` is symbolic; the slice is taken with the loop counter (a constant in each unrolled
    // iteration) in the single iteration where it equals `cut`.  Slicing with `cut` directly
    // gives a slice of symbolic length, the reader offsets become symbolic and CBMC exhausted
    // 16 GB after 15 min.
    let mut c = 0;
    let mut done = false;
    while c < 60 {
        if c == cut && c < len {
            let pre = R1CSProof::<UnitA>::from_bytes(&bytes[..c]);
            assert!(matches!(pre, Err(R1CSError::FormatError)));
            core::mem::forget(pre);
            done = true;
        }
        c += 1;
    }
    assert!(done);
    kani::cover!(k == 1 && cut == len - 1, "one round, longest strict prefix");
    kani::cover!(k == 0 && cut == 0, "zero rounds, empty prefix");
    kani::cover!(k == 1 && cut == FIXED_BYTES - 4 - 8 + 1, "cut inside the L list");
    core::mem::forget(bytes);
    core::mem::forget(proof);
}

/// C11 `c11_prefix_rejected`
///
/// Property: C11 (every strict prefix of a valid encoding is rejected with FormatError).
/// Symbolic: k in 0..=1 rounds (case split; 0..=3 ran out of memory, NOTES.md), cut point in
/// 0..len (matched against a loop counter).
/// Concrete: element values.
/// Claim: for every cut < len, `from_bytes(&bytes[..cut])` is `Err(FormatError)`, no panic.
/// Bound: k <= 1 (len <= 52); unwind 62.  No transcript, no stubs.
#[kani::proof]
#[kani::unwind(62)]
fn c11_prefix_rejected() {
    let k: usize = kani::any();
    let cut: usize = kani::any();
    kani::assume(k <= 1 && cut <= 64);
    match k {
        0 => c11_prefix_body(0, cut),
        _ => c11_prefix_body(1, cut),
    }
}

use ark_bulletproofs::r1cs::{ConstraintSystem, Prover, Verifier};
use merlin::TranscriptRng;
use merlin::TranscriptRngBuilder;
use rand_core::RngCore;

/// One twin step: apply `op` to prover and verifier, compare handles and counters, and check
/// the pairing rule for single allocations against `pending` (the harness's own model of the
/// open gate).  Returns the updated model.
fn twin_step<P: ConstraintSystem<K271>, V: ConstraintSystem<K271>>(
    p: &mut P,
    v: &mut V,
    op: u8,
    i: usize,
    pending: Option<usize>,
) -> Option<usize> {
    let before = p.multipliers_len();
    assert!(before == v.multipliers_len());
    let val = K271((3 + 2 * i) as u16);
    let mut pending = pending;
    match op {
        1 => {
            // single allocation
            let rp = p.allocate(Some(val));
            let rv = v.allocate(None);
            assert!(rp.is_ok() && rv.is_ok());
            let (rp, rv) = (rp.unwrap(), rv.unwrap());
            assert!(rp == rv);
            match pending {
                None => {
                    assert!(rp == Var::MultiplierLeft(before));
                    assert!(p.multipliers_len() == before + 1);
                    pending = Some(before);
                }
                Some(j) => {
                    assert!(rp == Var::MultiplierRight(j));
                    assert!(p.multipliers_len() == before);
                    pending = None;
                }
            }
        }
        2 => {
            let rp = p.allocate_multiplier(Some((val, K271(5))));
            let rv = v.allocate_multiplier(None);
            assert!(rp.is_ok() && rv.is_ok());
            let (rp, rv) = (rp.unwrap(), rv.unwrap());
            assert!(rp == rv);
            assert!(rp == (Var::MultiplierLeft(before), Var::MultiplierRight(before), Var::MultiplierOutput(before)));
            assert!(p.multipliers_len() == before + 1);
        }
        3 => {
            let rp = p.multiply(Lc::from(val), Lc::from(Var::One()) + Lc::from(K271(2)));
            let rv = v.multiply(Lc::from(val), Lc::from(Var::One()) + Lc::from(K271(2)));
            assert!(rp == rv);
            assert!(rp == (Var::MultiplierLeft(before), Var::MultiplierRight(before), Var::MultiplierOutput(before)));
            assert!(p.multipliers_len() == before + 1);
        }
        4 => {
            p.constrain(Lc::from(Var::One()) - Lc::from(K271(1)));
            v.constrain(Lc::from(Var::One()) - Lc::from(K271(1)));
            assert!(p.multipliers_len() == before);
        }
        5 => {
            // prover without an assignment: error, nothing changes
            let rp = p.allocate(None);
            assert!(matches!(rp, Err(R1CSError::MissingAssignment)));
            assert!(p.multipliers_len() == before);
        }
        _ => {
            let rp = p.allocate_multiplier(None);
            assert!(matches!(rp, Err(R1CSError::MissingAssignment)));
            assert!(p.multipliers_len() == before);
        }
    }
    assert!(p.multipliers_len() == v.multipliers_len());
    pending
}

/// Number of twin steps in `c16_twin_bookkeeping`.
pub const C16_STEPS: usize = 3;

/// C16 `c16_twin_bookkeeping` (first phase)
///
/// Property: C16 (prover and verifier assign identical variables for identical call sequences).
/// Symbolic: the number of calls (0..=3; 0..=5 ran out of memory, see NOTES.md) and each call, chosen from {commit, allocate,
/// allocate_multiplier, multiply, constrain, prover-allocate(None), prover-allocate_multiplier(None)}.
/// Concrete: assigned values, linear-combination shapes.
/// Claim, after every call: returned `Variable` handles are equal on both roles and equal to
/// the expected handle (`allocate_multiplier`/`multiply`: (Left(n), Right(n), Output(n)) with
/// n = gate count before the call; `allocate`: Left(n) if no gate is open, else Right(j) of
/// the open gate j; `commit`: Committed(number of commitments so far)); `multipliers_len()`
/// is equal on both roles; the prover's `allocate(None)` / `allocate_multiplier(None)` return
/// `Err(MissingAssignment)` and leave the gate count AND the pairing state unchanged (the next
/// `allocate` still pairs as the model predicts).  No panic.
/// Bound: <= 3 calls; unwind 16 (toy-transcript folds over labels <= 13 bytes).
/// Stubs (level 2, toy transcript): Transcript::{new, append_message, challenge_bytes},
/// zeroize::optimization_barrier.
#[kani::proof]
#[kani::unwind(16)]
#[kani::stub(zeroize::optimization_barrier, barrier_stub)]
#[kani::stub(merlin::Transcript::new, toy_transcript_new)]
#[kani::stub(merlin::Transcript::append_message, toy_append_message)]
#[kani::stub(merlin::Transcript::challenge_bytes, toy_challenge_bytes)]
fn c16_twin_bookkeeping() {
    let pc = pc_gens();
    let mut tp = Transcript::new(b"c16");
    let mut tv = Transcript::new(b"c16");
    let mut prover = Prover::<UnitA, _>::new(&pc, &mut tp);
    let mut verifier = Verifier::<UnitA, _>::new(&mut tv);
    let steps: usize = kani::any();
    kani::assume(steps <= C16_STEPS);
    let mut pending: Option<usize> = None;
    let mut commits = 0usize;
    let mut allocs_in_a_row = 0usize;
    let mut i = 0;
    while i < C16_STEPS {
        if i < steps {
            let op: u8 = kani::any();
            kani::assume(op <= 6);
            if op == 0 {
                let (com, vp) = prover.commit(K271((2 + i) as u16), K271(9));
                let vv = verifier.commit(com);
                assert!(vp == vv);
                assert!(vp == Var::Committed(commits));
                commits += 1;
                assert!(prover.multipliers_len() == verifier.multipliers_len());
            } else {
                pending = twin_step(&mut prover, &mut verifier, op, i, pending);
            }
            allocs_in_a_row = if op == 1 { allocs_in_a_row + 1 } else { 0 };
        }
        i += 1;
    }
    kani::cover!(steps == C16_STEPS && prover.multipliers_len() == C16_STEPS, "one gate per call");
    kani::cover!(steps == C16_STEPS && allocs_in_a_row == 3 && prover.multipliers_len() == 2, "three single allocations make two gates");
    kani::cover!(steps == C16_STEPS && commits == 2 && pending.is_some(), "two commits and an open gate");
    core::mem::forget(prover);
    core::mem::forget(verifier);
    core::mem::forget(tp);
    core::mem::forget(tv);
}

use digest::core_api::FixedOutputCore;
use sha3::Sha3_512Core;

macro_rules! split5 {
    ($x:expr, $f:ident $(, $a:expr)*) => {
        match $x {
            0 => $f(0 $(, $a)*),
            1 => $f(1 $(, $a)*),
            2 => $f(2 $(, $a)*),
            3 => $f(3 $(, $a)*),
            _ => $f(4 $(, $a)*),
        }
    };
}

/// Body of `c12_generators_history_independent` for literal capacities and party count.
fn c12_body(c3: usize, c2: usize, c1: usize, parties: usize) {
    let mut bp = BulletproofGens::<UnitA>::new(c1, parties);
    bp.increase_capacity(c2);
    bp.increase_capacity(c3);
    let m12 = if c1 > c2 { c1 } else { c2 };
    let max = if m12 > c3 { m12 } else { c3 };
    // the recorded capacity never decreases and is the maximum requested so far
    assert!(bp.gens_capacity == max);
    assert!(bp.party_capacity == parties);
    let fresh = BulletproofGens::<UnitA>::new(max, parties);
    assert!(fresh.gens_capacity == max);
    let mut j = 0;
    while j < parties {
        let (g1, g2) = (bp.share(j).verif_G(max + 1), fresh.share(j).verif_G(max + 1));
        let (h1, h2) = (bp.share(j).verif_H(max + 1), fresh.share(j).verif_H(max + 1));
        // exactly `max` generators per chain, element-wise equal to the fresh construction
        assert!(g1.len() == max && g2.len() == max && h1.len() == max && h2.len() == max);
        let mut i = 0;
        while i < max {
            assert!(g1[i] == g2[i]);
            assert!(h1[i] == h2[i]);
            i += 1;
        }
        core::mem::forget((g1, g2, h1, h2));
        j += 1;
    }
    kani::cover!(c1 == 3 && c2 == 1 && c3 == 4 && parties == 2, "non-monotone history 3,1,4 with two parties");
    kani::cover!(c1 == 0 && c2 == 0 && c3 == 0, "all-zero history");
    core::mem::forget(bp);
    core::mem::forget(fresh);
}
fn c12_split_c2(c3: usize, c2: usize, c1: usize, parties: usize) {
    split5!(c2, c12_body_swap, c3, c1, parties)
}
fn c12_body_swap(c2: usize, c3: usize, c1: usize, parties: usize) {
    c12_body(c3, c2, c1, parties)
}
fn c12_split_c1(c1: usize, c2: usize, c3: usize, parties: usize) {
    // literal c1, then c3, then c2
    split5!(c3, c12_split_c2, c2, c1, parties)
}
fn c12_split_p(parties: usize, c1: usize, c2: usize, c3: usize) {
    split5!(c1, c12_split_c1, c2, c3, parties)
}

/// C12 `c12_generators_history_independent`
///
/// Property: C12 (the i-th generator of party j does not depend on the capacity history).
/// Symbolic: three requested capacities c1, c2, c3, EACH in 0..=4 in ANY order (non-monotone
/// histories such as 3,1,4 included), party count in 1..=2.
/// Claim: after `new(c1,p); increase_capacity(c2); increase_capacity(c3)`:
/// `gens_capacity == max(c1,c2,c3)`, every party's G and H chains have exactly that many
/// elements and are element-wise equal to those of `new(max,p)`.  No panic.
/// Bound: capacities <= 4, parties <= 2 (250 arms); unwind 74 (72-byte SHA-3 block buffer initialisation; 66 gives an unwinding-assertion failure).
/// Stubs: level-2 SHA-3 (`Sha3_512Core::finalize_fixed_core`), keccak::p1600,
/// ChaCha20Core::{from_seed, generate}, zeroize::optimization_barrier.
/// Not covered here: serialisation round trip, distinctness of chains (native test only).
#[kani::proof]
#[kani::unwind(74)]
#[kani::stub(keccak::f1600, f1600_stub)]
#[kani::stub(keccak::p1600, p1600_stub)]
#[kani::stub(zeroize::optimization_barrier, barrier_stub)]
#[kani::stub(<ChaCha20Core as SeedableRng>::from_seed, chacha_from_seed_stub)]
#[kani::stub(<ChaCha20Core as BlockRngCore>::generate, chacha_generate_stub)]
#[kani::stub(<Sha3_512Core as FixedOutputCore>::finalize_fixed_core, sha3_512_finalize_stub)]
fn c12_generators_history_independent() {
    let c1: usize = kani::any();
    let c2: usize = kani::any();
    let c3: usize = kani::any();
    let parties: usize = kani::any();
    kani::assume(c1 <= 4 && c2 <= 4 && c3 <= 4 && parties >= 1 && parties <= 2);
    match parties {
        1 => c12_split_p(1, c1, c2, c3),
        _ => c12_split_p(2, c1, c2, c3),
    }
}

/// One arm of the above (history 3,1,4, two parties): used to size the full harness.
#[kani::proof]
#[kani::unwind(74)]
#[kani::stub(keccak::f1600, f1600_stub)]
#[kani::stub(keccak::p1600, p1600_stub)]
#[kani::stub(zeroize::optimization_barrier, barrier_stub)]
#[kani::stub(<ChaCha20Core as SeedableRng>::from_seed, chacha_from_seed_stub)]
#[kani::stub(<ChaCha20Core as BlockRngCore>::generate, chacha_generate_stub)]
#[kani::stub(<Sha3_512Core as FixedOutputCore>::finalize_fixed_core, sha3_512_finalize_stub)]
fn c12_one_history_3_1_4() {
    c12_body(4, 1, 3, 2);
}

/// C12 `c12_aggregated_iter_party_major`
///
/// Property: C12 (the aggregated iterators list exactly the first n generators of the first m
/// parties in party-major order).
/// Symbolic: n in 0..=4, m in 0..=2 (views); concrete: `BulletproofGens::new(4, 2)`.
/// Claim: `G(n,m)` / `H(n,m)` yield exactly n*m items, item k being generator k % n of party
/// k / n as returned by `share(j).verif_G(4)` / `verif_H(4)`, then `None`.  No panic.
/// Bound: capacity 4, parties 2; unwind 74.  Stubs: as `c12_generators_history_independent`.
#[kani::proof]
#[kani::unwind(74)]
#[kani::stub(keccak::f1600, f1600_stub)]
#[kani::stub(keccak::p1600, p1600_stub)]
#[kani::stub(zeroize::optimization_barrier, barrier_stub)]
#[kani::stub(<ChaCha20Core as SeedableRng>::from_seed, chacha_from_seed_stub)]
#[kani::stub(<ChaCha20Core as BlockRngCore>::generate, chacha_generate_stub)]
#[kani::stub(<Sha3_512Core as FixedOutputCore>::finalize_fixed_core, sha3_512_finalize_stub)]
fn c12_aggregated_iter_party_major() {
    c12_aggregated_body(0);
}

/// Shared body: `min_n` is the smallest view width admitted.
fn c12_aggregated_body(min_n: usize) {
    let bp = BulletproofGens::<UnitA>::new(4, 2);
    let g = [bp.share(0).verif_G(4), bp.share(1).verif_G(4)];
    let h = [bp.share(0).verif_H(4), bp.share(1).verif_H(4)];
    let n: usize = kani::any();
    let m: usize = kani::any();
    kani::assume(n >= min_n && n <= 4 && m <= 2);
    {
    let mut ig = bp.G(n, m);
    let mut ih = bp.H(n, m);
    let mut count = 0usize;
    let mut j = 0;
    while j < 2 {
        let mut i = 0;
        while i < 4 {
            if j < m && i < n {
                let (eg, eh) = (ig.next(), ih.next());
                assert!(eg == Some(&g[j][i]));
                assert!(eh == Some(&h[j][i]));
                count += 1;
            }
            i += 1;
        }
        j += 1;
    }
    assert!(count == n * m);
    assert!(ig.next().is_none());
    assert!(ih.next().is_none());
    }
    kani::cover!(n == 4 && m == 2, "full view");
    kani::cover!(n == min_n && m == 2, "narrowest view, two parties");
    kani::cover!(n == 3 && m == 1, "partial view");
    core::mem::forget((g, h));
    core::mem::forget(bp);
}

/// C12 `c12_aggregated_iter_party_major_nonzero_n`: the same statement restricted to n >= 1
/// (see NOTES.md: for n = 0 and m = 2 the unrestricted harness FAILS on the current tree --
/// the iterator yields one item).  Same bound, unwind and stubs.
#[kani::proof]
#[kani::unwind(74)]
#[kani::stub(keccak::f1600, f1600_stub)]
#[kani::stub(keccak::p1600, p1600_stub)]
#[kani::stub(zeroize::optimization_barrier, barrier_stub)]
#[kani::stub(<ChaCha20Core as SeedableRng>::from_seed, chacha_from_seed_stub)]
#[kani::stub(<ChaCha20Core as BlockRngCore>::generate, chacha_generate_stub)]
#[kani::stub(<Sha3_512Core as FixedOutputCore>::finalize_fixed_core, sha3_512_finalize_stub)]
fn c12_aggregated_iter_party_major_nonzero_n() {
    c12_aggregated_body(1);
}

use ark_bulletproofs::r1cs::{batch_verify, RandomizableConstraintSystem};
use ark_ec::AffineRepr;

/// max(1, next_power_of_two(n)): the padded circuit size (zero gates count as one).
fn threshold(n: usize) -> usize {
    let p = n.next_power_of_two();
    if p < 1 {
        1
    } else {
        p
    }
}

/// A structurally valid proof object whose T_1 is the identity: the verifier rejects it with
/// `VerificationError` right *after* its generator-capacity check, which makes the threshold
/// observable through return values without running the (minutes-per-path) rest of `verify`.
fn proof_identity_t1() -> R1CSProof<UnitA> {
    let mut pts = PTS;
    pts[6] = UnitA::zero();
    let ipp = InnerProductProof::<UnitA>::verif_from_parts(Vec::new(), Vec::new(), K271(7), K271(9));
    R1CSProof::<UnitA>::verif_from_parts(pts, SCS, ipp)
}

/// Build the verifier side of the C17 circuit: `n1` first-phase gates, `n2` gates allocated by
/// a randomized-phase closure.
fn c17_verifier<'t>(t: &'t mut Transcript, n1: usize, n2: usize) -> Verifier<UnitA, &'t mut Transcript> {
    let mut v = Verifier::<UnitA, _>::new(t);
    let mut i = 0;
    while i < n1 {
        let (_l, _r, o) = v.allocate_multiplier(None).unwrap();
        v.constrain(Lc::from(o) - Lc::from(K271(6)));
        i += 1;
    }
    if n2 > 0 {
        v.specify_randomized_constraints(move |cs| {
            let mut k = 0;
            while k < n2 {
                let _ = cs.allocate_multiplier(None)?;
                k += 1;
            }
            Ok(())
        })
        .unwrap();
    }
    v
}

fn c17v_body(n2: usize, n1: usize, cap: usize, bp: &BulletproofGens<UnitA>) {
    let pc = pc_gens();
    let proof = proof_identity_t1();
    let thr = threshold(n1 + n2);
    // verify
    let mut t = Transcript::new(b"c17");
    let v = c17_verifier(&mut t, n1, n2);
    let res = v.verify(&proof, &pc, bp);
    if cap < thr {
        assert!(res == Err(R1CSError::InvalidGeneratorsLength));
    } else {
        assert!(res == Err(R1CSError::VerificationError));
    }
    // batch_verify, one instance
    let mut t2 = Transcript::new(b"c17");
    let v2 = c17_verifier(&mut t2, n1, n2);
    let mut rng = CounterRng(3);
    let res2 = batch_verify(&mut rng, core::iter::once((v2, &proof)), &pc, bp);
    if cap < thr {
        assert!(res2 == Err(R1CSError::InvalidGeneratorsLength));
    } else {
        assert!(res2 == Err(R1CSError::VerificationError));
    }
    kani::cover!(n1 == 0 && n2 == 0 && cap == 0, "zero gates, zero capacity -> error");
    kani::cover!(n1 == 0 && n2 == 0 && cap == 1, "zero gates, capacity one -> passes the check");
    kani::cover!(n1 == 2 && n2 == 1 && cap == 3, "three gates over two phases, capacity three -> error");
    kani::cover!(n1 == 3 && n2 == 1 && cap == 4, "four gates, capacity four -> passes the check");
    core::mem::forget(t);
    core::mem::forget(t2);
    core::mem::forget(proof);
}
fn c17v_split_n1(n1: usize, n2: usize, cap: usize, bp: &BulletproofGens<UnitA>) {
    split3!(n2, c17v_body, n1, cap, bp)
}
fn c17v_cap(cap: usize, n1: usize, n2: usize) {
    let bp = BulletproofGens::<UnitA>::new(cap, 1);
    assert!(bp.gens_capacity == cap);
    split4!(n1, c17v_split_n1, n2, cap, &bp);
    core::mem::forget(bp);
}

/// C17 `c17_verify_capacity_threshold`
///
/// Property: C17, verifier side (`verify` and `batch_verify` with one instance).
/// Symbolic: first-phase gates n1 in 0..=3, second-phase gates n2 in 0..=2 (allocated by a
/// randomized-phase closure), generator capacity in 0..=5 (real `BulletproofGens::new(cap, 1)`;
/// the `gens_capacity` field is never written by the harness).
/// Concrete: a well-formed proof object whose T_1 is the identity (see `proof_identity_t1`).
/// Claim: both entry points return `Err(InvalidGeneratorsLength)` iff
/// cap < max(1, next_power_of_two(n1+n2)) (zero gates count as one; capacity 0 included) and
/// `Err(VerificationError)` otherwise; no panic.  NOT claimed here: behaviour of the part of
/// `verify` after the T_1 check with sufficient capacity (see `c08_verify_*`, and the native
/// honest round trip).
/// Bound: 72 arms; unwind 74.  Stubs: level 2 (toy transcript, SHA-3 finalisation), ChaCha,
/// keccak, zeroize barrier.
#[kani::proof]
#[kani::unwind(74)]
#[kani::stub(keccak::f1600, f1600_stub)]
#[kani::stub(keccak::p1600, p1600_stub)]
#[kani::stub(zeroize::optimization_barrier, barrier_stub)]
#[kani::stub(<ChaCha20Core as SeedableRng>::from_seed, chacha_from_seed_stub)]
#[kani::stub(<ChaCha20Core as BlockRngCore>::generate, chacha_generate_stub)]
#[kani::stub(<Sha3_512Core as FixedOutputCore>::finalize_fixed_core, sha3_512_finalize_stub)]
#[kani::stub(merlin::Transcript::new, toy_transcript_new)]
#[kani::stub(merlin::Transcript::append_message, toy_append_message)]
#[kani::stub(merlin::Transcript::challenge_bytes, toy_challenge_bytes)]
fn c17_verify_capacity_threshold() {
    let n1: usize = kani::any();
    let n2: usize = kani::any();
    let cap: usize = kani::any();
    kani::assume(n1 <= 3 && n2 <= 2 && cap <= 5);
    split6!(cap, c17v_cap, n1, n2);
}

/// Ghost flag read by `toy_append_message_pruning`: does the harness expect the capacity checks
/// to pass on the current arm?
static mut C17_EXPECT_SUFFICIENT: bool = false;

/// `merlin::Transcript::append_message` for `c17_prove_capacity_threshold`: the toy transcript,
/// except that the append labelled "A_I2" (the first transcript operation after the prover's
/// second capacity check) asserts that the capacity was expected to be sufficient and then ends
/// the path (`kani::assume(false)`): the remaining ~10 minutes per path of `prove` are cut off.
fn toy_append_message_pruning(t: &mut Transcript, label: &'static [u8], message: &[u8]) {
    if label.len() == 4 && label[0] == b'A' && label[1] == b'_' && label[2] == b'I' && label[3] == b'2' {
        assert!(unsafe { C17_EXPECT_SUFFICIENT }, "prover passed both capacity checks with insufficient capacity");
        kani::cover!(true, "prover passes both capacity checks on some arm");
        kani::assume(false);
    }
    toy_append_message(t, label, message)
}

fn c17p_body(n2: usize, n1: usize, cap: usize, bp: &BulletproofGens<UnitA>) {
    let pc = pc_gens();
    let thr = threshold(n1 + n2);
    unsafe { C17_EXPECT_SUFFICIENT = cap >= thr };
    let mut t = Transcript::new(b"c17");
    let mut p = Prover::<UnitA, _>::new(&pc, &mut t);
    let mut i = 0;
    while i < n1 {
        let (_l, _r, o) = p.allocate_multiplier(Some((K271(2), K271(3)))).unwrap();
        p.constrain(Lc::from(o) - Lc::from(K271(6)));
        i += 1;
    }
    if n2 > 0 {
        p.specify_randomized_constraints(move |cs| {
            let mut k = 0;
            while k < n2 {
                let _ = cs.allocate_multiplier(Some((K271(4), K271(5))))?;
                k += 1;
            }
            Ok(())
        })
        .unwrap();
    }
    let mut rng = CounterRng(1);
    let res = p.prove(&mut rng, bp);
    // Only arms that fail a capacity check get here; the others end inside the pruning stub.
    assert!(matches!(res, Err(R1CSError::InvalidGeneratorsLength)));
    assert!(cap < thr);
    kani::cover!(n1 == 0 && n2 == 0 && cap == 0, "zero gates, zero capacity -> error");
    kani::cover!(n1 == 3 && n2 == 0 && cap == 3, "three gates, capacity three -> error (not a panic in the inner-product argument)");
    kani::cover!(n1 == 1 && n2 == 2 && cap == 3, "second-phase growth past the capacity -> error");
    kani::cover!(n1 == 2 && n2 == 0 && cap == 1, "first check (cap < n1) -> error");
    core::mem::forget(res);
    core::mem::forget(t);
}
fn c17p_split_n1(n1: usize, n2: usize, cap: usize, bp: &BulletproofGens<UnitA>) {
    split3!(n2, c17p_body, n1, cap, bp)
}
fn c17p_cap(cap: usize, n1: usize, n2: usize) {
    let bp = BulletproofGens::<UnitA>::new(cap, 1);
    split4!(n1, c17p_split_n1, n2, cap, &bp);
    core::mem::forget(bp);
}

/// C17 `c17_prove_capacity_threshold`
///
/// Property: C17, prover side.
/// Symbolic: n1 in 0..=3, n2 in 0..=2 (randomized-phase closure), capacity in 0..=5 (real
/// `BulletproofGens::new(cap, 1)`).
/// Claim: `prove` returns `Err(InvalidGeneratorsLength)` on every arm with
/// cap < max(1, next_power_of_two(n1+n2)) -- in particular n = 3 with cap = 3, and growth past
/// the capacity in the second phase -- and on no other arm; no panic up to and including the
/// second capacity check.  Mechanism: arms with sufficient capacity are ended at the first
/// transcript operation after the second check by `toy_append_message_pruning`, which asserts
/// that the arm was expected to pass; arms that return must return the error.  NOT claimed:
/// anything `prove` does after the second capacity check (native round trip only).
/// Bound: 72 arms; unwind 202 (the prover's transcript RNG is dropped on the error paths:
/// 200-byte zeroize loop).  Stubs: level 2 with `append_message -> toy_append_message_pruning`.
#[kani::proof]
#[kani::unwind(202)]
#[kani::stub(keccak::f1600, f1600_stub)]
#[kani::stub(keccak::p1600, p1600_stub)]
#[kani::stub(zeroize::optimization_barrier, barrier_stub)]
#[kani::stub(<ChaCha20Core as SeedableRng>::from_seed, chacha_from_seed_stub)]
#[kani::stub(<ChaCha20Core as BlockRngCore>::generate, chacha_generate_stub)]
#[kani::stub(<Sha3_512Core as FixedOutputCore>::finalize_fixed_core, sha3_512_finalize_stub)]
#[kani::stub(merlin::Transcript::new, toy_transcript_new)]
#[kani::stub(merlin::Transcript::append_message, toy_append_message_pruning)]
#[kani::stub(merlin::Transcript::challenge_bytes, toy_challenge_bytes)]
#[kani::stub(TranscriptRngBuilder::rekey_with_witness_bytes, toy_rekey)]
#[kani::stub(TranscriptRngBuilder::finalize, toy_finalize)]
#[kani::stub(<TranscriptRng as RngCore>::fill_bytes, toy_rng_fill_bytes)]
fn c17_prove_capacity_threshold() {
    let n1: usize = kani::any();
    let n2: usize = kani::any();
    let cap: usize = kani::any();
    kani::assume(n1 <= 3 && n2 <= 2 && cap <= 5);
    split6!(cap, c17p_cap, n1, n2);
}

/// C08 `c08_verify_one_shape` (sizing harness, concrete shape): 2-gate circuit, |L| = |R| = 1,
/// arbitrary (dishonest) proof parts; `verify` returns Err, no panic.  Level-2 stubs, unwind 202.
#[kani::proof]
#[kani::unwind(202)]
#[kani::stub(keccak::f1600, f1600_stub)]
#[kani::stub(keccak::p1600, p1600_stub)]
#[kani::stub(zeroize::optimization_barrier, barrier_stub)]
#[kani::stub(<ChaCha20Core as SeedableRng>::from_seed, chacha_from_seed_stub)]
#[kani::stub(<ChaCha20Core as BlockRngCore>::generate, chacha_generate_stub)]
#[kani::stub(<Sha3_512Core as FixedOutputCore>::finalize_fixed_core, sha3_512_finalize_stub)]
#[kani::stub(merlin::Transcript::new, toy_transcript_new)]
#[kani::stub(merlin::Transcript::append_message, toy_append_message)]
#[kani::stub(merlin::Transcript::challenge_bytes, toy_challenge_bytes)]
fn c08_verify_one_shape() {
    let bp = BulletproofGens::<UnitA>::new(2, 1);
    let ipp = InnerProductProof::<UnitA>::verif_from_parts(LA[..1].to_vec(), RA[..1].to_vec(), K271(7), K271(9));
    let proof = R1CSProof::<UnitA>::verif_from_parts(PTS, SCS, ipp);
    let res = verify_proof(2, &proof, UnitA(K271(50)), &bp);
    assert!(res.is_ok() || res == Err(R1CSError::VerificationError));
    kani::cover!(res.is_err(), "dishonest proof rejected");
    core::mem::forget(bp);
    core::mem::forget(proof);
}

// ---------------------------------------------------------------------------------------------
// Reduced-grid variants of the C17 verifier-side harness (the 72-arm version ends without verdict).

macro_rules! split2 {
    ($x:expr, $f:ident $(, $a:expr)*) => {
        match $x {
            0 => $f(0 $(, $a)*),
            _ => $f(1 $(, $a)*),
        }
    };
}

fn c17s_body(n2: usize, n1: usize, cap: usize, bp: &BulletproofGens<UnitA>) {
    let pc = pc_gens();
    let proof = proof_identity_t1();
    let thr = threshold(n1 + n2);
    let mut t = Transcript::new(b"c17");
    let v = c17_verifier(&mut t, n1, n2);
    let res = v.verify(&proof, &pc, bp);
    if cap < thr {
        assert!(res == Err(R1CSError::InvalidGeneratorsLength));
    } else {
        assert!(res == Err(R1CSError::VerificationError));
    }
    kani::cover!(n1 == 0 && n2 == 0 && cap == 0, "zero gates, zero capacity -> error");
    kani::cover!(n1 == 0 && n2 == 0 && cap == 1, "zero gates, capacity one -> passes the check");
    kani::cover!(n1 == 2 && n2 == 1 && cap == 2, "three gates over two phases, capacity two -> error");
    kani::cover!(n1 == 1 && n2 == 1 && cap == 2, "two gates over two phases, capacity two -> passes the check");
    core::mem::forget(t);
    core::mem::forget(proof);
}
fn c17s_split_n1(n1: usize, n2: usize, cap: usize, bp: &BulletproofGens<UnitA>) {
    split2!(n2, c17s_body, n1, cap, bp)
}
fn c17s_cap(cap: usize, n1: usize, n2: usize) {
    let bp = BulletproofGens::<UnitA>::new(cap, 1);
    assert!(bp.gens_capacity == cap);
    split3!(n1, c17s_split_n1, n2, cap, &bp);
    core::mem::forget(bp);
}

/// C17 `c17_verify_capacity_threshold_small`
///
/// Property: C17, `Verifier::verify`.  Symbolic (case-split): first-phase gates n1 in 0..=2,
/// second-phase gates n2 in 0..=1 (allocated by a randomized-phase closure), generator capacity
/// in 0..=2 (real `BulletproofGens::new(cap, 1)`).  Concrete: a well-formed proof object whose
/// T_1 is the identity.  Claim: `Err(InvalidGeneratorsLength)` iff
/// cap < max(1, next_power_of_two(n1+n2)), `Err(VerificationError)` (from the T_1 check that
/// follows the capacity check) otherwise; no panic.  18 arms; unwind 74; level-2 stubs.
#[kani::proof]
#[kani::unwind(74)]
#[kani::stub(keccak::f1600, f1600_stub)]
#[kani::stub(keccak::p1600, p1600_stub)]
#[kani::stub(zeroize::optimization_barrier, barrier_stub)]
#[kani::stub(<ChaCha20Core as SeedableRng>::from_seed, chacha_from_seed_stub)]
#[kani::stub(<ChaCha20Core as BlockRngCore>::generate, chacha_generate_stub)]
#[kani::stub(<Sha3_512Core as FixedOutputCore>::finalize_fixed_core, sha3_512_finalize_stub)]
#[kani::stub(merlin::Transcript::new, toy_transcript_new)]
#[kani::stub(merlin::Transcript::append_message, toy_append_message)]
#[kani::stub(merlin::Transcript::challenge_bytes, toy_challenge_bytes)]
fn c17_verify_capacity_threshold_small() {
    let n1: usize = kani::any();
    let n2: usize = kani::any();
    let cap: usize = kani::any();
    kani::assume(n1 <= 2 && n2 <= 1 && cap <= 2);
    split3!(cap, c17s_cap, n1, n2);
}
