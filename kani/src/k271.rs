//! `K271`: hand-written one-word prime field of order 271.
//!
//! Purpose: the scalar (and base) field of the Kani "unit group" instantiation of
//! `/repo`'s generic code.  ark-ff's `Fp` cannot be used under Kani because
//! `goto-instrument` exhausts memory as soon as `Fp::serialize_with_flags` is reachable
//! (DESIGN.md 2.2); this type has the same trait surface, plain `%` arithmetic on
//! `u32` intermediates, a table inverse, and a 2-byte little-endian encoding with a
//! `< 271` validity check.
//!
//! Deliberate modelling choice (part of every claim made with this type):
//! `rand` draws two RNG bytes `x` and returns `1 + x % 270`, i.e. it NEVER returns 0.
//! Fiat-Shamir challenges on the unit group are therefore non-zero by construction;
//! zero challenges (probability ~2^-256 on the real curves, 1/271 here) are outside
//! every claim made by the Kani harnesses.
use ark_ff::{BigInt, FftField, Field, LegendreSymbol, PrimeField, SqrtPrecomputation};
use ark_serialize::*;
use ark_std::rand::{
    distributions::{Distribution, Standard},
    Rng,
};
use core::fmt;
use core::iter::{Product, Sum};
use core::ops::*;
use core::str::FromStr;
use num_bigint::BigUint;
use num_traits::{One, Zero};
use zeroize::Zeroize;

/// The modulus.
pub const P: u16 = 271;
/// Encoded size in bytes.
pub const K271_BYTES: usize = 2;

#[derive(Copy, Clone, PartialEq, Eq, PartialOrd, Ord, Hash, Default)]
pub struct K271(pub u16);

const fn mulmod(a: u16, b: u16) -> u16 {
    ((a as u32 * b as u32) % (P as u32)) as u16
}
const fn build_inv() -> [u16; 271] {
    // inv[a] = a^(P-2); inv[0] = 0 (never used: `inverse` returns None for 0)
    let mut t = [0u16; 271];
    let mut a = 1u16;
    while a < P {
        let mut r = 1u16;
        let mut e = 0;
        while e < P - 2 {
            r = mulmod(r, a);
            e += 1;
        }
        t[a as usize] = r;
        a += 1;
    }
    t
}
/// Inverse table, computed at compile time.
pub static INV: [u16; 271] = build_inv();

impl K271 {
    #[inline]
    pub const fn new(v: u16) -> Self {
        K271(v % P)
    }
    #[inline]
    fn from_u128(x: u128) -> Self {
        K271((x % (P as u128)) as u16)
    }
}

impl fmt::Debug for K271 {
    fn fmt(&self, f: &mut fmt::Formatter<'_>) -> fmt::Result {
        write!(f, "{}", self.0)
    }
}
impl fmt::Display for K271 {
    fn fmt(&self, f: &mut fmt::Formatter<'_>) -> fmt::Result {
        write!(f, "{}", self.0)
    }
}
impl Zeroize for K271 {
    fn zeroize(&mut self) {
        self.0 = 0;
    }
}
impl Zero for K271 {
    #[inline]
    fn zero() -> Self {
        K271(0)
    }
    #[inline]
    fn is_zero(&self) -> bool {
        self.0 == 0
    }
}
impl One for K271 {
    #[inline]
    fn one() -> Self {
        K271(1)
    }
}
impl Neg for K271 {
    type Output = Self;
    #[inline]
    fn neg(self) -> Self {
        K271((P - self.0) % P)
    }
}

impl Distribution<K271> for Standard {
    /// Two RNG bytes, reduced into 1..=270 (never zero, see module doc).
    fn sample<R: Rng + ?Sized>(&self, rng: &mut R) -> K271 {
        let mut b = [0u8; 2];
        rng.fill_bytes(&mut b);
        K271(1 + u16::from_le_bytes(b) % (P - 1))
    }
}

#[inline]
fn add(a: K271, b: K271) -> K271 {
    K271(((a.0 as u32 + b.0 as u32) % (P as u32)) as u16)
}
#[inline]
fn sub(a: K271, b: K271) -> K271 {
    K271(((a.0 as u32 + P as u32 - b.0 as u32) % (P as u32)) as u16)
}
#[inline]
fn mul(a: K271, b: K271) -> K271 {
    K271(mulmod(a.0, b.0))
}
#[inline]
fn div(a: K271, b: K271) -> K271 {
    // division by zero: mirror ark-ff (`inverse().unwrap()` panics)
    mul(a, b.inverse().unwrap())
}

macro_rules! ops {
    ($tr:ident, $m:ident, $tra:ident, $ma:ident, $f:ident) => {
        impl $tr<K271> for K271 {
            type Output = K271;
            #[inline]
            fn $m(self, o: K271) -> K271 {
                $f(self, o)
            }
        }
        impl<'a> $tr<&'a K271> for K271 {
            type Output = K271;
            #[inline]
            fn $m(self, o: &K271) -> K271 {
                $f(self, *o)
            }
        }
        impl<'a> $tr<&'a mut K271> for K271 {
            type Output = K271;
            #[inline]
            fn $m(self, o: &mut K271) -> K271 {
                $f(self, *o)
            }
        }
        impl<'a, 'b> $tr<&'b K271> for &'a K271 {
            type Output = K271;
            #[inline]
            fn $m(self, o: &K271) -> K271 {
                $f(*self, *o)
            }
        }
        impl<'a> $tr<K271> for &'a K271 {
            type Output = K271;
            #[inline]
            fn $m(self, o: K271) -> K271 {
                $f(*self, o)
            }
        }
        impl $tra<K271> for K271 {
            #[inline]
            fn $ma(&mut self, o: K271) {
                *self = $f(*self, o);
            }
        }
        impl<'a> $tra<&'a K271> for K271 {
            #[inline]
            fn $ma(&mut self, o: &K271) {
                *self = $f(*self, *o);
            }
        }
        impl<'a> $tra<&'a mut K271> for K271 {
            #[inline]
            fn $ma(&mut self, o: &mut K271) {
                *self = $f(*self, *o);
            }
        }
    };
}
ops!(Add, add, AddAssign, add_assign, add);
ops!(Sub, sub, SubAssign, sub_assign, sub);
ops!(Mul, mul, MulAssign, mul_assign, mul);
ops!(Div, div, DivAssign, div_assign, div);

impl Sum<K271> for K271 {
    fn sum<I: Iterator<Item = Self>>(it: I) -> Self {
        it.fold(K271(0), |a, b| a + b)
    }
}
impl<'a> Sum<&'a K271> for K271 {
    fn sum<I: Iterator<Item = &'a Self>>(it: I) -> Self {
        it.fold(K271(0), |a, b| a + *b)
    }
}
impl Product<K271> for K271 {
    fn product<I: Iterator<Item = Self>>(it: I) -> Self {
        it.fold(K271(1), |a, b| a * b)
    }
}
impl<'a> Product<&'a K271> for K271 {
    fn product<I: Iterator<Item = &'a Self>>(it: I) -> Self {
        it.fold(K271(1), |a, b| a * *b)
    }
}

macro_rules! from_int {
    ($($t:ty),*) => { $( impl From<$t> for K271 { #[inline] fn from(x: $t) -> Self { K271::from_u128(x as u128) } } )* }
}
from_int!(u128, u64, u32, u16, u8);
impl From<bool> for K271 {
    fn from(b: bool) -> Self {
        K271(b as u16)
    }
}
impl From<BigInt<1>> for K271 {
    /// Reduces (ark-ff's `Fp` panics on out-of-range input; nothing in `/repo` relies on that).
    fn from(b: BigInt<1>) -> Self {
        K271::from_u128(b.0[0] as u128)
    }
}
impl From<K271> for BigInt<1> {
    #[inline]
    fn from(s: K271) -> Self {
        BigInt::<1>([s.0 as u64])
    }
}
impl From<BigUint> for K271 {
    fn from(b: BigUint) -> Self {
        let r = b % BigUint::from(P);
        let d = r.to_u64_digits();
        K271(d.first().copied().unwrap_or(0) as u16)
    }
}
impl From<K271> for BigUint {
    fn from(s: K271) -> Self {
        BigUint::from(s.0)
    }
}
impl FromStr for K271 {
    type Err = ();
    fn from_str(s: &str) -> Result<Self, ()> {
        if s.is_empty() {
            return Err(());
        }
        let mut acc = K271(0);
        for c in s.bytes() {
            if !c.is_ascii_digit() {
                return Err(());
            }
            acc = acc * K271(10) + K271((c - b'0') as u16);
        }
        Ok(acc)
    }
}

// ---- serialisation: 2 bytes little-endian, value must be < 271
impl CanonicalSerialize for K271 {
    #[inline]
    fn serialize_with_mode<W: Write>(&self, mut w: W, _c: Compress) -> Result<(), SerializationError> {
        w.write_all(&self.0.to_le_bytes())?;
        Ok(())
    }
    #[inline]
    fn serialized_size(&self, _c: Compress) -> usize {
        K271_BYTES
    }
}
impl CanonicalSerializeWithFlags for K271 {
    fn serialize_with_flags<W: Write, Fl: Flags>(&self, mut w: W, f: Fl) -> Result<(), SerializationError> {
        // 271 < 2^9: the top 7 bits of the second byte are free
        if Fl::BIT_SIZE > 7 {
            return Err(SerializationError::NotEnoughSpace);
        }
        let mut b = self.0.to_le_bytes();
        b[1] |= f.u8_bitmask();
        w.write_all(&b)?;
        Ok(())
    }
    fn serialized_size_with_flags<Fl: Flags>(&self) -> usize {
        K271_BYTES
    }
}
impl Valid for K271 {
    #[inline]
    fn check(&self) -> Result<(), SerializationError> {
        Ok(())
    }
}
impl CanonicalDeserialize for K271 {
    #[inline]
    fn deserialize_with_mode<R: Read>(mut r: R, _c: Compress, _v: Validate) -> Result<Self, SerializationError> {
        let mut b = [0u8; 2];
        r.read_exact(&mut b)?;
        let v = u16::from_le_bytes(b);
        if v < P {
            Ok(K271(v))
        } else {
            Err(SerializationError::InvalidData)
        }
    }
}
impl CanonicalDeserializeWithFlags for K271 {
    fn deserialize_with_flags<R: Read, Fl: Flags>(mut r: R) -> Result<(Self, Fl), SerializationError> {
        if Fl::BIT_SIZE > 7 {
            return Err(SerializationError::NotEnoughSpace);
        }
        let mut b = [0u8; 2];
        r.read_exact(&mut b)?;
        let fl = Fl::from_u8_remove_flags(&mut b[1]).ok_or(SerializationError::UnexpectedFlags)?;
        let v = u16::from_le_bytes(b);
        if v < P {
            Ok((K271(v), fl))
        } else {
            Err(SerializationError::InvalidData)
        }
    }
}

static CHARACTERISTIC: [u64; 1] = [P as u64];

impl Field for K271 {
    type BasePrimeField = Self;
    type BasePrimeFieldIter = core::iter::Once<Self>;
    const SQRT_PRECOMP: Option<SqrtPrecomputation<Self>> = None;
    const ZERO: Self = K271(0);
    const ONE: Self = K271(1);
    fn characteristic() -> &'static [u64] {
        &CHARACTERISTIC
    }
    fn extension_degree() -> u64 {
        1
    }
    fn to_base_prime_field_elements(&self) -> Self::BasePrimeFieldIter {
        core::iter::once(*self)
    }
    fn from_base_prime_field_elems(e: &[Self]) -> Option<Self> {
        if e.len() == 1 {
            Some(e[0])
        } else {
            None
        }
    }
    fn from_base_prime_field(e: Self) -> Self {
        e
    }
    #[inline]
    fn double(&self) -> Self {
        *self + *self
    }
    fn double_in_place(&mut self) -> &mut Self {
        *self = self.double();
        self
    }
    fn neg_in_place(&mut self) -> &mut Self {
        *self = -*self;
        self
    }
    fn from_random_bytes_with_flags<Fl: Flags>(b: &[u8]) -> Option<(Self, Fl)> {
        if Fl::BIT_SIZE > 7 {
            return None;
        }
        let mut w = [0u8; 2];
        let mut i = 0;
        while i < 2 && i < b.len() {
            w[i] = b[i];
            i += 1;
        }
        let fl = Fl::from_u8_remove_flags(&mut w[1])?;
        let v = u16::from_le_bytes(w);
        if v < P {
            Some((K271(v), fl))
        } else {
            None
        }
    }
    fn legendre(&self) -> LegendreSymbol {
        if self.0 == 0 {
            return LegendreSymbol::Zero;
        }
        // a^((P-1)/2)
        let mut r = K271(1);
        let mut e = 0;
        while e < (P - 1) / 2 {
            r = r * *self;
            e += 1;
        }
        if r.0 == 1 {
            LegendreSymbol::QuadraticResidue
        } else {
            LegendreSymbol::QuadraticNonResidue
        }
    }
    fn sqrt(&self) -> Option<Self> {
        let mut x = 0u16;
        while x < P {
            if mulmod(x, x) == self.0 {
                return Some(K271(x));
            }
            x += 1;
        }
        None
    }
    #[inline]
    fn square(&self) -> Self {
        *self * *self
    }
    fn square_in_place(&mut self) -> &mut Self {
        *self = self.square();
        self
    }
    #[inline]
    fn inverse(&self) -> Option<Self> {
        if self.0 == 0 {
            None
        } else {
            Some(K271(INV[self.0 as usize]))
        }
    }
    fn inverse_in_place(&mut self) -> Option<&mut Self> {
        let i = self.inverse()?;
        *self = i;
        Some(self)
    }
    fn frobenius_map_in_place(&mut self, _p: usize) {}
}

impl FftField for K271 {
    /// 6 generates (Z/271)^*  (271 - 1 = 2 * 3^3 * 5)
    const GENERATOR: Self = K271(6);
    const TWO_ADICITY: u32 = 1;
    const TWO_ADIC_ROOT_OF_UNITY: Self = K271(270);
}

impl PrimeField for K271 {
    type BigInt = BigInt<1>;
    const MODULUS: BigInt<1> = BigInt::<1>([271]);
    const MODULUS_MINUS_ONE_DIV_TWO: BigInt<1> = BigInt::<1>([135]);
    const MODULUS_BIT_SIZE: u32 = 9;
    const TRACE: BigInt<1> = BigInt::<1>([135]);
    const TRACE_MINUS_ONE_DIV_TWO: BigInt<1> = BigInt::<1>([67]);
    #[inline]
    fn from_bigint(r: BigInt<1>) -> Option<Self> {
        if r.0[0] < P as u64 {
            Some(K271(r.0[0] as u16))
        } else {
            None
        }
    }
    #[inline]
    fn into_bigint(self) -> BigInt<1> {
        BigInt::<1>([self.0 as u64])
    }
}
