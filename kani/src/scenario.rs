//! Shared scenario builders (used by the Kani harnesses and by the native tests).
use crate::k271::K271;
use crate::stubs::CounterRng;
use crate::unit::UnitA;
use ark_bulletproofs::r1cs::{
    ConstraintSystem, LinearCombination, Prover, R1CSError, R1CSProof, Variable, Verifier,
};
use ark_bulletproofs::{BulletproofGens, PedersenGens};
use merlin::Transcript;

pub type Lc = LinearCombination<K271>;
pub type Var = Variable<K271>;

/// Pedersen bases on the unit group: B = 1, B_blinding = 3 (concrete, non-identity).
pub fn pc_gens() -> PedersenGens<UnitA> {
    PedersenGens { B: UnitA(K271(1)), B_blinding: UnitA(K271(3)) }
}

/// The circuit used by the C08/C17 harnesses, written once against the trait so that prover
/// and verifier build the same statement: `g` multiplication gates `a_i * b_i = c_i` with the
/// output wire constrained to the public constant `c_i`, and (if `g >= 1`) the left wire of
/// gate 0 constrained to the committed variable `v`.
pub fn gadget<CS: ConstraintSystem<K271>>(
    cs: &mut CS,
    g: usize,
    v: Option<Var>,
    assign: bool,
) -> Result<(), R1CSError> {
    let mut i = 0;
    while i < g {
        let a = K271((2 + 3 * i) as u16);
        let b = K271((5 + i) as u16);
        let (l, _r, o) = cs.allocate_multiplier(if assign { Some((a, b)) } else { None })?;
        cs.constrain(Lc::from(o) - Lc::from(a * b));
        if i == 0 {
            if let Some(v) = v {
                cs.constrain(Lc::from(l) - Lc::from(v));
            }
        }
        i += 1;
    }
    Ok(())
}

/// Honest proof for the `g`-gate circuit with generator capacity `cap`.
pub fn honest_proof(g: usize, bp: &BulletproofGens<UnitA>) -> Result<(R1CSProof<UnitA>, UnitA), R1CSError> {
    let pc = pc_gens();
    let mut t = Transcript::new(b"verif-kani");
    let mut prover = Prover::<UnitA, _>::new(&pc, &mut t);
    let (com, var) = prover.commit(K271(2), K271(17));
    gadget(&mut prover, g, Some(var), true)?;
    let mut rng = CounterRng(1);
    let proof = prover.prove(&mut rng, bp)?;
    Ok((proof, com))
}

/// Verify `proof` against the `g`-gate circuit.
pub fn verify_proof(
    g: usize,
    proof: &R1CSProof<UnitA>,
    com: UnitA,
    bp: &BulletproofGens<UnitA>,
) -> Result<(), R1CSError> {
    let pc = pc_gens();
    let mut t = Transcript::new(b"verif-kani");
    let mut verifier = Verifier::<UnitA, _>::new(&mut t);
    let var = verifier.commit(com);
    gadget(&mut verifier, g, Some(var), false)?;
    verifier.verify(proof, &pc, bp)
}
