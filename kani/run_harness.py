#!/usr/bin/env python3
"""Run one Kani harness of /verif/kani and print ONE JSON object on the last stdout line.

usage: run_harness.py --harness NAME [--repo PATH] [--timeout SEC] [--mem-gb N]
                      [--target-dir DIR] [--playback] [--keep-log FILE]

status: SUCCESS | FAILURE | UNWIND_FAILURE | ERROR | TIMEOUT | OOM
exit code 0 only for SUCCESS with every cover property satisfied; 1 for FAILURE /
UNWIND_FAILURE (a verdict); 2 for ERROR / TIMEOUT / OOM (no verdict).

stdlib only.  Everything runs offline (CARGO_NET_OFFLINE=true; `cargo kani` rejects --offline).
"""
import argparse
import json
import os
import re
import resource
import shutil
import signal
import subprocess
import sys
import tempfile
import time

HERE = os.path.dirname(os.path.abspath(__file__))
DEFAULT_REPO = "/repo"

# Flags every harness is run with (each is part of the claim, see NOTES.md):
#  -Z stubbing                       : #[kani::stub] attributes are honoured
#  --no-assertion-reach-checks       : without it CBMC (json-ui => traces on) emits one full
#                                      trace per *reachable* assertion: 7.4 GB / 9 min for a
#                                      harness that verifies in 8 s.  Reachability is witnessed
#                                      by the kani::cover! properties instead.
#  --max-field-sensitivity-array-size 256 : lets CBMC's symex constant-propagate through the
#                                      200-byte STROBE state; with the default (64) challenge
#                                      values stay symbolic and symex does not terminate.
KANI_FLAGS = ["-Z", "stubbing", "-Z", "unstable-options", "--no-assertion-reach-checks"]
CBMC_ARGS = ["--cbmc-args", "--max-field-sensitivity-array-size", "256"]


def find_unwind(harness):
    """#[kani::unwind(N)] of `fn harness` from the sources."""
    src = os.path.join(HERE, "src")
    for root, _d, files in os.walk(src):
        for f in files:
            if not f.endswith(".rs"):
                continue
            text = open(os.path.join(root, f)).read()
            m = re.search(r"fn\s+%s\s*\(" % re.escape(harness), text)
            if not m:
                continue
            head = text[: m.start()]
            # attributes directly above the fn
            tail = head[head.rfind("#[kani::proof]"):] if "#[kani::proof]" in head else ""
            u = re.search(r"#\[kani::unwind\((\d+)\)\]", tail)
            return int(u.group(1)) if u else None
    return None


def scratch_copy(repo):
    """Copy the harness crate to a scratch dir and point the path dependency at `repo`."""
    d = tempfile.mkdtemp(prefix="kani-scratch-", dir="/var/tmp")
    dst = os.path.join(d, "kani")
    shutil.copytree(HERE, dst, ignore=shutil.ignore_patterns("target", "*.log", "__pycache__"))
    ct = os.path.join(dst, "Cargo.toml")
    text = open(ct).read()
    text2 = re.sub(r'(ark-bulletproofs\s*=\s*\{\s*path\s*=\s*")[^"]*(")', lambda m: m.group(1) + os.path.abspath(repo) + m.group(2), text)
    if text2 == text and os.path.abspath(repo) != DEFAULT_REPO:
        raise RuntimeError("could not rewrite the ark-bulletproofs path dependency")
    open(ct, "w").write(text2)
    return d, dst


def limit(mem_gb):
    def f():
        os.setsid()
        b = int(mem_gb * (1 << 30))
        resource.setrlimit(resource.RLIMIT_AS, (b, b))
    return f


def run(cmd, cwd, timeout, mem_gb, log):
    env = dict(os.environ)
    env["CARGO_NET_OFFLINE"] = "true"
    env.pop("CARGO_TARGET_DIR", None)
    t0 = time.time()
    with open(log, "w") as out:
        p = subprocess.Popen(cmd, cwd=cwd, stdout=out, stderr=subprocess.STDOUT, env=env, preexec_fn=limit(mem_gb))
        try:
            rc = p.wait(timeout=timeout)
            timed_out = False
        except subprocess.TimeoutExpired:
            timed_out = True
            try:
                os.killpg(p.pid, signal.SIGKILL)
            except ProcessLookupError:
                pass
            p.wait()
            rc = -9
    return rc, timed_out, time.time() - t0


CHECK_RE = re.compile(
    r"^Check \d+: (?P<id>.+)\n\s+- Status: (?P<status>\S+)\n\s+- Description: \"(?P<desc>.*)\"\n(?:\s+- Location: (?P<loc>.*)\n)?",
    re.M,
)


def parse(text, res):
    res["stubs"] = [re.sub(r"\s+", "", a) + " -> " + b for a, b in re.findall(r"^\s+- Stub: (.*?) -> (\S+)\s*$", text, re.M)]
    m = re.search(r"\*\* (\d+) of (\d+) failed", text)
    if m:
        res["checks_failed"], res["checks_total"] = int(m.group(1)), int(m.group(2))
    m = re.search(r"\*\* (\d+) of (\d+) cover properties satisfied", text)
    covers = (int(m.group(1)), int(m.group(2))) if m else (0, 0)
    res["cover_satisfied"] = covers[1] > 0 and covers[0] == covers[1]
    res["covers"] = {"satisfied": covers[0], "total": covers[1]}
    m = re.search(r"Verification Time: ([0-9.]+)s", text)
    if m:
        res["cbmc_s"] = round(float(m.group(1)), 1)
    failed, unwind_fail, uncovered, undetermined = [], False, [], 0
    for c in CHECK_RE.finditer(text):
        st = c.group("status")
        if st == "FAILURE":
            d = "%s: %s [%s]" % (c.group("id")[:160], c.group("desc"), (c.group("loc") or "").strip()[:200])
            if "unwinding assertion" in c.group("desc"):
                unwind_fail = True
                failed.append(d)
            else:
                failed.insert(0, d)
        elif st == "UNDETERMINED":
            # only arises as a consequence of a failed unwinding assertion / unsupported construct
            undetermined += 1
        elif st in ("UNSATISFIABLE", "UNREACHABLE") and ".cover." in c.group("id"):
            uncovered.append("%s: %s" % (c.group("id"), c.group("desc")))
    res["failed_descriptions"] = failed[:10]
    res["checks_undetermined"] = undetermined
    if uncovered:
        res["uncovered"] = uncovered[:10]
    verdict = re.search(r"VERIFICATION:- (\w+)", text)
    if verdict and verdict.group(1) == "SUCCESSFUL":
        res["status"] = "SUCCESS"
    elif verdict and verdict.group(1) == "FAILED":
        low = text.lower()
        crashed = re.search(r"CBMC failed with status|CBMC timed out|CBMC crashed", text) is not None
        if "out of memory" in low or "bad_alloc" in low or "memory allocation of" in low:
            # CBMC (or the driver) died: no verdict
            res["status"] = "OOM"
        elif crashed and res["checks_total"] == 0:
            res["status"] = "ERROR"
            res["error_tail"] = [l for l in text.strip().splitlines() if l.strip()][-8:]
        else:
            real = [f for f in failed if "unwinding assertion" not in f]
            res["status"] = "UNWIND_FAILURE" if (unwind_fail and not real) else "FAILURE"
    else:
        low = text.lower()
        if "memory allocation of" in low or "bad_alloc" in low or "out of memory" in low or "cannot allocate memory" in low:
            res["status"] = "OOM"
        else:
            res["status"] = "ERROR"
            tail = [l for l in text.strip().splitlines() if l.strip()][-8:]
            res["error_tail"] = tail


def main():
    ap = argparse.ArgumentParser()
    ap.add_argument("--harness", required=True)
    ap.add_argument("--repo", default=DEFAULT_REPO)
    ap.add_argument("--timeout", type=int, default=1800)
    ap.add_argument("--mem-gb", type=float, default=16)
    ap.add_argument("--target-dir", default=None)
    ap.add_argument("--playback", action="store_true")
    ap.add_argument("--keep-log", default=None, help="copy the full cargo-kani log to this file")
    a = ap.parse_args()

    res = {
        "harness": a.harness,
        "status": "ERROR",
        "checks_total": 0,
        "checks_failed": 0,
        "failed_descriptions": [],
        "cover_satisfied": False,
        "wall_s": 0.0,
        "cbmc_s": None,
        "unwind": find_unwind(a.harness),
        "stubs": [],
        "repo": os.path.abspath(a.repo),
    }
    scratch = None
    own_target = None
    try:
        crate = HERE
        if os.path.abspath(a.repo) != DEFAULT_REPO:
            scratch, crate = scratch_copy(a.repo)
        target = a.target_dir
        if target is None:
            own_target = tempfile.mkdtemp(prefix="kani-target-", dir="/var/tmp")
            target = own_target
        os.makedirs(target, exist_ok=True)
        log = os.path.join(target, "run_%s.log" % a.harness)
        cmd = ["cargo", "kani", "--harness", a.harness, "--target-dir", target] + KANI_FLAGS + CBMC_ARGS
        rc, timed_out, wall = run(cmd, crate, a.timeout, a.mem_gb, log)
        res["wall_s"] = round(wall, 1)
        text = open(log, errors="replace").read()
        if timed_out:
            res["status"] = "TIMEOUT"
            res["stubs"] = [re.sub(r"\s+", "", x) + " -> " + y for x, y in re.findall(r"^\s+- Stub: (.*?) -> (\S+)\s*$", text, re.M)]
        else:
            parse(text, res)
            if res["status"] == "ERROR" and rc in (-9, 137):
                res["status"] = "OOM"
            if "no harnesses matched" in text.lower() or "0 total" in text:
                res["status"] = "ERROR"
                res["error_tail"] = ["no harness named %s" % a.harness]
        if a.keep_log:
            shutil.copyfile(log, a.keep_log)
        if a.playback and res["status"] == "FAILURE":
            plog = os.path.join(target, "playback_%s.log" % a.harness)
            pcmd = cmd[:]
            i = pcmd.index("--cbmc-args")
            pcmd[i:i] = ["-Z", "concrete-playback", "--concrete-playback=print"]
            rc2, to2, wall2 = run(pcmd, crate, a.timeout, a.mem_gb, plog)
            ptext = open(plog, errors="replace").read()
            m = re.search(r"(#\[test\]\s*\n\s*fn kani_concrete_playback.*?\n\}\n)", ptext, re.S)
            ce = {"wall_s": round(wall2, 1)}
            if m:
                code = m.group(1)
                ce["test"] = code
                vals = []
                for cm, vec in re.findall(r"//\s*(.+?)\n\s*vec!\[([^\]]*)\]", code):
                    vals.append({"value": cm.strip(), "bytes": [int(x) for x in re.findall(r"\d+", vec)]})
                ce["values"] = vals
            else:
                ce["error"] = "no concrete playback test in output" + (" (timeout)" if to2 else "")
            res["counterexample"] = ce
    except Exception as e:  # noqa
        res["status"] = "ERROR"
        res["error_tail"] = [repr(e)]
    finally:
        if scratch:
            shutil.rmtree(scratch, ignore_errors=True)
        if own_target:
            shutil.rmtree(own_target, ignore_errors=True)
    print(json.dumps(res))
    if res["status"] == "SUCCESS" and res["cover_satisfied"]:
        sys.exit(0)
    sys.exit(1 if res["status"] in ("FAILURE", "UNWIND_FAILURE") or res["status"] == "SUCCESS" else 2)


if __name__ == "__main__":
    main()
