//! C17 (Engine S part): the proof and the verdict do not depend on surplus generator capacity
//! (term identity / solver identity), and the insufficient-generators error appears exactly
//! below the padded size on an enumerated grid (concrete, on the shadow; the symbolic-capacity
//! version of the threshold is the Kani harness).
#![allow(non_snake_case)]
use crate::arena;
use crate::field::Inner;
use crate::group::{Base, SymA};
use crate::job::*;
use crate::r1cs::*;
use crate::scen_r1cs::*;
use ark_bulletproofs::r1cs::*;
use ark_bulletproofs::{BulletproofGens, PedersenGens};
use ark_ec::AffineRepr;
use merlin::Transcript;
use rand_core::SeedableRng;

fn catch<T>(f: impl FnOnce() -> T) -> Result<T, String> {
    std::panic::catch_unwind(std::panic::AssertUnwindSafe(f)).map_err(|e| e.downcast_ref::<String>().cloned().or(e.downcast_ref::<&str>().map(|s| s.to_string())).unwrap_or("panic".into()))
}

/// Grid of capacity outcomes on any group (carriers or plain): list of (description, ok).
pub fn capacity_grid<G: AffineRepr + 'static>(shape: &Shape, seed: u64, vals: impl Fn() -> Box<dyn Vals<FOf<G>>>) -> Vec<(String, bool)> {
    let mut out = vec![];
    let pad = shape.padded();
    let pc = pc_for::<G>(&shape.name, seed);
    // an honest proof made with exactly enough generators
    let bp_ok = BulletproofGens::<G>::new(pad, 1);
    let shr0 = new_shared::<G>(shape, &Default::default(), vals());
    let (proof0, _) = prove_shape(shape, &shr0, &pc, &bp_ok, seed);
    let proof0 = match proof0 {
        Ok(p) => p,
        Err(e) => {
            out.push((format!("prove with capacity {} (= padded size) succeeds: {:?}", pad, e), false));
            return out;
        }
    };
    // with enough generators a malformed proof (one round too many / too few) is a verification error, not the
    // insufficient-generators error
    {
        use ark_bulletproofs::verif_hooks::InnerProductProof;
        let (pts, scs, ipp) = proof0.verif_parts();
        let (l, r, a, b) = ipp.verif_parts();
        let mut variants = vec![];
        let (mut l2, mut r2) = (l.to_vec(), r.to_vec());
        l2.push(pts[0]);
        r2.push(pts[1]);
        variants.push(("one round too many", R1CSProof::verif_from_parts(pts, scs, InnerProductProof::verif_from_parts(l2, r2, a, b))));
        if !l.is_empty() {
            variants.push(("one round too few", R1CSProof::verif_from_parts(pts, scs, InnerProductProof::verif_from_parts(l[1..].to_vec(), r[1..].to_vec(), a, b))));
        }
        // ... and with too few generators the insufficient-generators error comes first, whatever the proof looks like
        if pad >= 2 {
            for (what, bad) in variants.iter() {
                let bp = BulletproofGens::<G>::new(pad - 1, 1);
                rewind_for_verifier(&shr0);
                let r1 = catch(|| {
                    let mut vt = new_verifier_transcript(shape);
                    build_verifier(shape, &shr0, &mut vt).verify(bad, &pc, &bp)
                });
                rewind_for_verifier(&shr0);
                let r2 = catch(|| {
                    let mut vt: Transcript = new_verifier_transcript(shape);
                    let v = build_verifier(shape, &shr0, &mut vt);
                    let mut rng = rand_chacha::ChaChaRng::seed_from_u64(seed);
                    batch_verify(&mut rng, vec![(v, bad)], &pc, &bp)
                });
                let fine = |r: &Result<Result<(), R1CSError>, String>| matches!(r, Ok(Err(R1CSError::InvalidGeneratorsLength)));
                out.push((format!("a proof with {} and capacity {} < padded size {}: verify {:?}, batch_verify {:?} (InvalidGeneratorsLength)", what, pad - 1, pad, r1, r2), fine(&r1) && fine(&r2)));
            }
        }
        for (what, bad) in variants {
            for cap in [pad, 2 * pad + 1] {
                let bp = BulletproofGens::<G>::new(cap, 1);
                rewind_for_verifier(&shr0);
                let r1 = catch(|| {
                    let mut vt = new_verifier_transcript(shape);
                    build_verifier(shape, &shr0, &mut vt).verify(&bad, &pc, &bp)
                });
                rewind_for_verifier(&shr0);
                let r2 = catch(|| {
                    let mut vt: Transcript = new_verifier_transcript(shape);
                    let v = build_verifier(shape, &shr0, &mut vt);
                    let mut rng = rand_chacha::ChaChaRng::seed_from_u64(seed);
                    batch_verify(&mut rng, vec![(v, &bad)], &pc, &bp)
                });
                let fine = |r: &Result<Result<(), R1CSError>, String>| matches!(r, Ok(Err(e)) if !matches!(e, R1CSError::InvalidGeneratorsLength));
                out.push((format!("a proof with {} and capacity {} >= padded size {}: verify {:?}, batch_verify {:?} (an error other than InvalidGeneratorsLength)", what, cap, pad, r1, r2), fine(&r1) && fine(&r2)));
            }
        }
    }
    for (cap, parties) in (0..=(pad + 1)).map(|c| (c, 1usize)).chain((0..=(pad + 1)).map(|c| (c, 3usize))) {
        // (the threshold refers to the per-party capacity: a second and third party's generators do not count)
        let bp = BulletproofGens::<G>::new(cap, parties);
        let expect_err = cap < pad;
        // prover
        let shr = new_shared::<G>(shape, &Default::default(), vals());
        let r = catch(|| prove_shape(shape, &shr, &pc, &bp, seed).0.map(|_| ()));
        let ok = match &r {
            Ok(Err(R1CSError::InvalidGeneratorsLength)) => expect_err,
            Ok(Ok(())) => !expect_err,
            _ => false,
        };
        out.push((format!("prove, capacity {} ({} parties) vs padded size {}: {:?} (expected {})", cap, parties, pad, r, if expect_err { "InvalidGeneratorsLength" } else { "Ok" }), ok));
        // verifier
        rewind_for_verifier(&shr0);
        let r = catch(|| {
            let mut vt = new_verifier_transcript(shape);
            build_verifier(shape, &shr0, &mut vt).verify(&proof0, &pc, &bp)
        });
        let ok = match &r {
            Ok(Err(R1CSError::InvalidGeneratorsLength)) => expect_err,
            Ok(Ok(())) => !expect_err,
            _ => false,
        };
        out.push((format!("verify, capacity {} ({} parties) vs padded size {}: {:?}", cap, parties, pad, r), ok));
        // batch verifier with one instance
        rewind_for_verifier(&shr0);
        let r = catch(|| {
            let mut vt: Transcript = new_verifier_transcript(shape);
            let v = build_verifier(shape, &shr0, &mut vt);
            let mut rng = rand_chacha::ChaChaRng::seed_from_u64(seed);
            batch_verify(&mut rng, vec![(v, &proof0)], &pc, &bp)
        });
        let ok = match &r {
            Ok(Err(R1CSError::InvalidGeneratorsLength)) => expect_err,
            Ok(Ok(())) => !expect_err,
            _ => false,
        };
        out.push((format!("batch_verify, capacity {} ({} parties) vs padded size {}: {:?}", cap, parties, pad, r), ok));
    }
    // generator sets with a history: a smaller request is a no-op, regrowth continues the same chains; the
    // outcome and the proof bytes are those of a freshly built set of the final capacity
    {
        use ark_serialize::CanonicalSerialize;
        let enc = |p: &ark_bulletproofs::r1cs::R1CSProof<G>| -> Vec<u8> {
            let mut b = vec![];
            p.serialize_compressed(&mut b).unwrap();
            b
        };
        let histories: Vec<(String, BulletproofGens<G>, usize)> = {
            let mut v = vec![];
            let mut a = BulletproofGens::<G>::new(pad + 2, 1);
            a.increase_capacity(pad.saturating_sub(1));
            v.push((format!("new({}); increase_capacity({})", pad + 2, pad.saturating_sub(1)), a, pad + 2));
            let mut b = BulletproofGens::<G>::new(pad, 1);
            b.increase_capacity(pad / 2);
            b.increase_capacity(2 * pad + 1);
            v.push((format!("new({}); increase_capacity({}); increase_capacity({})", pad, pad / 2, 2 * pad + 1), b, 2 * pad + 1));
            let mut c = BulletproofGens::<G>::new(1, 1);
            c.increase_capacity(pad + 1);
            v.push((format!("new(1); increase_capacity({})", pad + 1), c, (pad + 1).max(1)));
            v
        };
        for (name, gens, final_cap) in histories {
            let fresh = BulletproofGens::<G>::new(final_cap, 1);
            let shr_h = new_shared::<G>(shape, &Default::default(), vals());
            let ph = catch(|| prove_shape(shape, &shr_h, &pc, &gens, seed).0);
            let shr_f = new_shared::<G>(shape, &Default::default(), vals());
            let pf = catch(|| prove_shape(shape, &shr_f, &pc, &fresh, seed).0);
            let same = match (&ph, &pf) {
                (Ok(Ok(a)), Ok(Ok(b))) => enc(a) == enc(b),
                _ => false,
            };
            out.push((format!("prove with generators built by {} gives the proof of a fresh set of capacity {}", name, final_cap), same));
            if let Ok(Ok(p)) = &pf {
                rewind_for_verifier(&shr_f);
                let r = catch(|| {
                    let mut vt = new_verifier_transcript(shape);
                    build_verifier(shape, &shr_f, &mut vt).verify(p, &pc, &gens)
                });
                out.push((format!("verify with generators built by {}: {:?}", name, r), matches!(r, Ok(Ok(())))));
            }
        }
    }
    out
}

pub fn job_c17<C: Base + 'static>(shape: &Shape, seed: u64, curve: &str) -> Job
where
    C::ScalarField: Inner,
{
    arena::reset();
    arena::set_ctx("setup");
    let mut job = Job { property: "C17".into(), scenario: format!("C17:{}:{}", shape.name, curve), curve: curve.into(), seed, shape: shape_json(shape), ..Default::default() };
    let pad = shape.padded();
    let pc = pc_for::<SymA<C>>(&shape.name, seed);
    job.params = serde_json::json!({"gates": shape.gates(), "padded": pad, "capacities": [pad, pad + 1, 2 * pad, 4 * pad]});
    // ---- independence from surplus capacity: the same function of (witness, i-th nonce, challenges)
    let shr = new_shared::<SymA<C>>(shape, &Default::default(), Box::new(SymVals::<C::ScalarField>::new(seed)));
    let mut reference: Option<(Vec<u32>, Vec<Vec<(u32, u32)>>)> = None;
    let mut items: Vec<(String, u32, u32)> = vec![];
    let mut proofs = vec![];
    for cap in [pad, pad + 1, 2 * pad, 4 * pad] {
        arena::set_ctx("setup");
        let bp = BulletproofGens::<SymA<C>>::new(cap, 1);
        name_bases(&pc, &bp, pad);
        arena::with(|a| {
            a.counters.insert("rng".into(), 0);
        });
        {
            let mut sh = shr.borrow_mut();
            if !sh.tape.is_empty() {
                // replay the same inputs on the prover side
                sh.recording = false;
                sh.pos = 0;
                sh.is_prover = true;
                sh.vars.clear();
                sh.v.clear();
                sh.v_blinding.clear();
                sh.commitments.clear();
                sh.con_vals.clear();
                sh.cons.clear();
                sh.n_explicit_con = 0;
                sh.gates.clear();
                sh.pending = None;
                sh.chals.clear();
                sh.kind_count.clear();
            }
        }
        arena::set_ctx("prove");
        let (proof, _) = prove_shape(shape, &shr, &pc, &bp, seed);
        let proof = match proof {
            Ok(p) => p,
            Err(e) => {
                job.check(&format!("prove with capacity {} succeeds", cap), false, format!("{:?}", e));
                continue;
            }
        };
        let (pts, scs, ipp) = proof.verif_parts();
        let (l, r, a, b) = ipp.verif_parts();
        let scal: Vec<u32> = scs.iter().map(|s| s.tid()).chain([a.tid(), b.tid()]).collect();
        let points: Vec<Vec<(u32, u32)>> = pts.iter().chain(l.iter()).chain(r.iter()).map(|p| p.lin().into_iter().collect()).collect();
        match &reference {
            None => reference = Some((scal, points)),
            Some((s0, p0)) => {
                for (k, (x, y)) in s0.iter().zip(scal.iter()).enumerate() {
                    items.push((format!("cap {}: scalar field {}", cap, k), *y, *x));
                }
                let same_shape = p0.len() == points.len() && p0.iter().zip(points.iter()).all(|(u, v)| u.len() == v.len() && u.iter().zip(v.iter()).all(|(c, d)| c.0 == d.0));
                job.check(&format!("cap {}: every proof point has the same support over the generators as with the minimal capacity", cap), same_shape, String::new());
                if same_shape {
                    for (k, (u, v)) in p0.iter().zip(points.iter()).enumerate() {
                        for (c, d) in u.iter().zip(v.iter()) {
                            items.push((format!("cap {}: point field {} coefficient on basis {}", cap, k, c.0), d.1, c.1));
                        }
                    }
                }
            }
        }
        proofs.push((cap, proof));
    }
    job.groups.push(identity_group("proof_independent_of_surplus_capacity", "I", "with the same inputs and the same nonce stream, every proof field produced with capacity pad+1, 2*pad, 4*pad is the same term as with capacity pad (for all values)", items));
    // the verdict does not depend on the verifier's surplus either
    if let Some((_, proof)) = proofs.first() {
        for cap in [pad, pad + 1, 2 * pad, 4 * pad] {
            rewind_for_verifier(&shr);
            arena::set_ctx("verify");
            let bp = BulletproofGens::<SymA<C>>::new(cap, 1);
            let mut vt = new_verifier_transcript(shape);
            let res = build_verifier(shape, &shr, &mut vt).verify(proof, &pc, &bp);
            job.check(&format!("verdict with verifier capacity {} is Ok", cap), res.is_ok(), format!("{:?}", res));
        }
    }
    arena::set_ctx("grid");
    // ---- threshold grid (concrete)
    for (d, ok) in capacity_grid::<SymA<C>>(shape, seed, || Box::new(SymVals::<C::ScalarField>::new(seed))) {
        job.check(&d, ok, String::new());
    }
    job.stats = stats();
    job.replay = serde_json::json!({"kind": "c17", "shape": shape_json(shape), "seed": seed});
    job
}

pub fn c17_shapes(thorough: bool) -> Vec<Shape> {
    use crate::r1cs::Op::*;
    let mut v = vec![
        Shape::new("zero_gates", &[Commit, ConCommitted], &[]),
        Shape::new("one_gate", &[Commit, AllocMul, Con], &[]),
        Shape::new("three_gates", &[AllocMul, AllocMul, AllocMul, Con], &[]),
        Shape::new("two_plus_one_phase2", &[Commit, AllocMul, AllocMul, Con], &[&[Chal, AllocMul, Con]]),
        Shape::new("zero_plus_two_phase2", &[Commit], &[&[Chal, AllocMul, AllocMul, Con]]),
        Shape::new("one_plus_zero_closure", &[Alloc], &[&[Chal, Con]]),
        // single allocations paired around a full gate (the pair shares ONE gate: 2 gates, not 3), and a pair split by
        // the phase boundary (the open allocation is closed there: 1 + 1 gates)
        Shape::new("gate_between_paired_allocations", &[Commit, Alloc, AllocMul, Alloc, Con], &[]),
        Shape::new("two_gates_between_paired_allocations", &[Alloc, AllocMul, Mul, Alloc, Alloc, Con], &[]),
        Shape::new("allocation_pair_split_by_the_phase_boundary", &[Commit, Alloc], &[&[Chal, Alloc, Con]]),
    ];
    if thorough {
        v.push(Shape::new("five_gates", &[AllocMul, AllocMul, AllocMul, AllocMul, AllocMul, Con], &[]));
        v.push(Shape::new("three_plus_three", &[AllocMul, AllocMul, AllocMul, Con], &[&[Chal, AllocMul, AllocMul, AllocMul, Con]]));
        v.push(Shape::new("four_plus_one", &[AllocMul, AllocMul, AllocMul, AllocMul], &[&[AllocMul, Con]]));
    }
    v
}
