//! Hash-consed term arena (thread-local).  Field terms are nodes of a DAG over named
//! variables and integer literals; points are sparse maps `basis symbol -> field term`.
use std::cell::RefCell;
use std::collections::{BTreeMap, HashMap};

#[derive(Clone, Debug, PartialEq, Eq, Hash)]
pub enum Term {
    Var(String),
    Lit(String), // decimal integer, possibly negative
    Add(u32, u32),
    Sub(u32, u32),
    Mul(u32, u32),
    Neg(u32),
    Inv(u32),
}

pub type Lin = BTreeMap<u32, u32>; // basis id -> term id

#[derive(Clone, Debug)]
pub struct Event {
    /// "pzero" (point is_zero), "peq" (point ==), "fzero" (field is_zero), "feq" (field ==)
    pub kind: &'static str,
    pub ctx: String,
    pub lin: Lin,       // for point events: coefficient vector of the tested element (difference for eq)
    pub term: u32,      // for field events: the tested term (difference for eq)
    pub outcome: bool,  // concrete outcome on the shadow
    pub merlin_pos: usize,
}

#[derive(Clone, Debug)]
pub struct Chal {
    pub label: String,
    pub tid: u32,
    pub limbs: Vec<u64>,
    pub merlin_pos: usize,
    pub ctx: String,
    /// first time this hash output was seen (a new variable was created)
    pub fresh: bool,
}

#[derive(Clone, Debug)]
pub enum SerObj {
    Scalar(u32),
    Point(Lin),
}

#[derive(Default)]
pub struct Arena {
    pub terms: Vec<Term>, // index 0 unused
    pub intern: HashMap<Term, u32>,
    pub points: Vec<Lin>, // index 0 unused
    pub basis: HashMap<Vec<u8>, u32>,
    pub basis_names: Vec<String>,
    pub val2id: HashMap<Vec<u64>, u32>,
    pub chal_by_val: HashMap<Vec<u64>, u32>,
    pub chals: Vec<Chal>,
    pub rng_draws: Vec<(u32, String)>, // (term id, ctx)
    pub events: Vec<Event>,
    pub ser_log: Vec<(Vec<u8>, SerObj)>,
    pub var_shadow: HashMap<u32, Vec<u64>>, // var term id -> shadow limbs
    pub var_pos: HashMap<u32, usize>,       // var term id -> merlin log length at creation
    pub opaque: Vec<String>,
    pub counters: HashMap<String, usize>,
    pub ctx: String,
    pub lit0: u32,
    pub lit1: u32,
}

thread_local! { pub static A: RefCell<Arena> = RefCell::new(Arena::new()); }

pub fn reset() {
    A.with(|a| *a.borrow_mut() = Arena::new());
    merlin::vlog::reset();
}
pub fn set_ctx(c: &str) {
    A.with(|a| a.borrow_mut().ctx = c.to_string());
}
pub fn with<R>(f: impl FnOnce(&mut Arena) -> R) -> R {
    A.with(|a| f(&mut a.borrow_mut()))
}

impl Arena {
    pub fn new() -> Self {
        let mut a = Arena::default();
        a.terms.push(Term::Lit("0".into()));
        a.points.push(BTreeMap::new());
        a.lit0 = a.mk(Term::Lit("0".into()));
        a.lit1 = a.mk(Term::Lit("1".into()));
        a
    }
    pub fn mk(&mut self, t: Term) -> u32 {
        if let Some(&i) = self.intern.get(&t) {
            return i;
        }
        let i = self.terms.len() as u32;
        self.terms.push(t.clone());
        self.intern.insert(t, i);
        i
    }
    pub fn lit(&mut self, v: i64) -> u32 {
        self.mk(Term::Lit(v.to_string()))
    }
    pub fn add(&mut self, a: u32, b: u32) -> u32 {
        if a == self.lit0 {
            return b;
        }
        if b == self.lit0 {
            return a;
        }
        self.mk(Term::Add(a, b))
    }
    pub fn sub(&mut self, a: u32, b: u32) -> u32 {
        if b == self.lit0 {
            return a;
        }
        if a == self.lit0 {
            return self.neg(b);
        }
        if a == b {
            return self.lit0;
        }
        self.mk(Term::Sub(a, b))
    }
    pub fn mul(&mut self, a: u32, b: u32) -> u32 {
        if a == self.lit0 || b == self.lit0 {
            return self.lit0;
        }
        if a == self.lit1 {
            return b;
        }
        if b == self.lit1 {
            return a;
        }
        self.mk(Term::Mul(a, b))
    }
    pub fn neg(&mut self, a: u32) -> u32 {
        if a == self.lit0 {
            return a;
        }
        if let Term::Neg(x) = self.terms[a as usize] {
            return x;
        }
        self.mk(Term::Neg(a))
    }
    pub fn inv(&mut self, a: u32) -> u32 {
        if a == self.lit1 {
            return a;
        }
        if let Term::Inv(x) = self.terms[a as usize] {
            return x;
        }
        self.mk(Term::Inv(a))
    }
    pub fn next_name(&mut self, kind: &str) -> String {
        let c = self.counters.entry(kind.to_string()).or_insert(0);
        let n = format!("{}{}", kind, *c);
        *c += 1;
        n
    }
    pub fn named_var(&mut self, name: &str) -> u32 {
        self.mk(Term::Var(name.to_string()))
    }
    pub fn padd(&mut self, p: &Lin, q: &Lin, negq: bool) -> Lin {
        let mut r = p.clone();
        for (k, v) in q.iter() {
            let cur = r.get(k).copied().unwrap_or(self.lit0);
            let nv = if negq { self.sub(cur, *v) } else { self.add(cur, *v) };
            if nv == self.lit0 {
                r.remove(k);
            } else {
                r.insert(*k, nv);
            }
        }
        r
    }
    pub fn pscale(&mut self, p: &Lin, s: u32) -> Lin {
        let mut r = BTreeMap::new();
        for (k, v) in p.iter() {
            let nv = self.mul(*v, s);
            if nv != self.lit0 {
                r.insert(*k, nv);
            }
        }
        r
    }
    pub fn new_point(&mut self, m: Lin) -> u32 {
        self.points.push(m);
        (self.points.len() - 1) as u32
    }
    pub fn basis_for(&mut self, bytes: Vec<u8>) -> u32 {
        if let Some(&b) = self.basis.get(&bytes) {
            return b;
        }
        let b = self.basis_names.len() as u32;
        self.basis_names.push(format!("P{}", b));
        self.basis.insert(bytes, b);
        b
    }
    pub fn name_basis(&mut self, b: u32, name: &str) {
        self.basis_names[b as usize] = name.to_string();
    }
    pub fn var_name(&self, t: u32) -> Option<&str> {
        match &self.terms[t as usize] {
            Term::Var(n) => Some(n),
            _ => None,
        }
    }

    /// Terms reachable from `roots`, as a sorted id list (children before parents because
    /// ids are allocated bottom-up).
    pub fn reach(&self, roots: &[u32]) -> Vec<u32> {
        let mut need = vec![false; self.terms.len()];
        let mut stack: Vec<u32> = roots.to_vec();
        while let Some(t) = stack.pop() {
            if need[t as usize] {
                continue;
            }
            need[t as usize] = true;
            match &self.terms[t as usize] {
                Term::Add(a, b) | Term::Sub(a, b) | Term::Mul(a, b) => {
                    stack.push(*a);
                    stack.push(*b);
                }
                Term::Neg(a) | Term::Inv(a) => stack.push(*a),
                _ => {}
            }
        }
        (0..self.terms.len() as u32).filter(|i| need[*i as usize]).collect()
    }

    /// SMT-LIB preamble (declarations, definitions, inverse side-constraints) for the terms
    /// reachable from `roots`.  Returns (text, variable names, number of inverse constraints).
    pub fn smt_preamble(&self, roots: &[u32]) -> (String, Vec<String>, usize) {
        let mut out = String::from("(set-logic ALL)\n");
        let mut asserts = String::new();
        let mut vars = Vec::new();
        let mut ninv = 0;
        for i in self.reach(roots) {
            match &self.terms[i as usize] {
                Term::Var(n) => {
                    out += &format!("(declare-const t{} Real) ; {}\n", i, n);
                    vars.push(n.clone());
                }
                Term::Lit(s) => {
                    let lit = if let Some(x) = s.strip_prefix('-') {
                        format!("(- {}.0)", x)
                    } else {
                        format!("{}.0", s)
                    };
                    out += &format!("(define-fun t{} () Real {})\n", i, lit)
                }
                Term::Add(a, b) => out += &format!("(define-fun t{} () Real (+ t{} t{}))\n", i, a, b),
                Term::Sub(a, b) => out += &format!("(define-fun t{} () Real (- t{} t{}))\n", i, a, b),
                Term::Mul(a, b) => out += &format!("(define-fun t{} () Real (* t{} t{}))\n", i, a, b),
                Term::Neg(a) => out += &format!("(define-fun t{} () Real (- t{}))\n", i, a),
                Term::Inv(a) => {
                    out += &format!("(declare-const t{} Real) ; inv\n", i);
                    asserts += &format!("(assert (= (* t{} t{}) 1.0))\n", i, a);
                    ninv += 1;
                }
            }
        }
        out += &asserts;
        (out, vars, ninv)
    }

    pub fn show(&self, t: u32, depth: usize) -> String {
        if depth == 0 {
            return format!("t{}", t);
        }
        match &self.terms[t as usize] {
            Term::Var(n) => n.clone(),
            Term::Lit(s) => s.clone(),
            Term::Add(a, b) => format!("({} + {})", self.show(*a, depth - 1), self.show(*b, depth - 1)),
            Term::Sub(a, b) => format!("({} - {})", self.show(*a, depth - 1), self.show(*b, depth - 1)),
            Term::Mul(a, b) => format!("({} * {})", self.show(*a, depth - 1), self.show(*b, depth - 1)),
            Term::Neg(a) => format!("-{}", self.show(*a, depth - 1)),
            Term::Inv(a) => format!("inv({})", self.show(*a, depth - 1)),
        }
    }
}
