//! C09: hiding.  Open every prover message against the known witness; every blinding must be a
//! single fresh draw of the transcript-bound RNG, all distinct, used only where prescribed; the
//! RNG must be keyed with the blinding factors and the caller's randomness.
#![allow(non_snake_case)]
use crate::arena::{self, Lin};
use crate::field::{Inner, SymF};
use crate::group::{Base, SymA};
use crate::job::*;
use crate::oracle;
use crate::r1cs::*;
use crate::scen_r1cs::*;
use ark_ff::{One, Zero};
use ark_serialize::CanonicalSerialize;
use std::collections::{BTreeMap, BTreeSet};

fn symf<F0: Inner>(tid: u32) -> SymF<F0> {
    let limbs = arena::with(|a| a.var_shadow.get(&tid).cloned());
    match limbs {
        Some(l) => {
            let mut x = [0u64; 4];
            x.copy_from_slice(&l);
            SymF::from_tid(F0::from_bigint(ark_ff::BigInt::<4>(x)).unwrap(), tid)
        }
        None => SymF::from_tid(F0::zero(), tid),
    }
}

fn is_rng(tid: u32) -> bool {
    arena::with(|a| a.var_name(tid).map(|n| n.starts_with("rng")).unwrap_or(false))
}

fn vars_of(roots: &[u32]) -> BTreeSet<u32> {
    arena::with(|a| a.reach(roots).into_iter().filter(|t| a.var_name(*t).is_some()).collect())
}

pub fn job_c09<C: Base + 'static>(shape: &Shape, seed: u64, curve: &str) -> Job
where
    C::ScalarField: Inner,
{
    let pad = shape.padded();
    let run = run_sym::<C>(shape, &Default::default(), seed, pad, pad);
    let mut job = Job { property: "C09".into(), scenario: format!("C09:{}:{}", shape.name, curve), curve: curve.into(), seed, shape: shape_json(shape), ..Default::default() };
    job.check("prove and verify succeed on the shadow curve", run.proof.is_ok() && matches!(run.verdict, Some(Ok(()))), format!("{:?} {:?}", run.proof.as_ref().err(), run.verdict));
    let proof = match &run.proof {
        Ok(p) => p,
        Err(_) => {
            job.stats = stats();
            return job;
        }
    };
    let vc = match &run.vchals {
        Some(v) => v,
        None => {
            job.inconclusive.push("challenge split unavailable".into());
            job.stats = stats();
            return job;
        }
    };
    let sh = run.shr.borrow();
    let (n1, n2) = shape.gates();
    let n = n1 + n2;
    let m = shape.commits();
    job.params = serde_json::json!({"gates": [n1, n2], "padded": pad, "commitments": m});
    let (pts, scs, ipp) = proof.verif_parts();
    let (_L, _R, pa, pb) = ipp.verif_parts();
    let b = &run.bases;
    let names = ["A_I1", "A_O1", "S1", "A_I2", "A_O2", "S2", "T_1", "T_3", "T_4", "T_5", "T_6"];
    let lins: Vec<Lin> = pts.iter().map(|p| p.lin()).collect();
    let mut items: Vec<(String, u32, u32)> = vec![];
    let mut role: BTreeMap<String, u32> = BTreeMap::new(); // role name -> rng var
    let lit0 = arena::with(|a| a.lit0);
    let mut need_rng = |job: &mut Job, what: &str, t: Option<u32>| -> u32 {
        match t {
            Some(t) if is_rng(t) => {
                role.insert(what.to_string(), t);
                t
            }
            Some(t) => {
                job.check(&format!("{} is a single fresh draw of the transcript-bound RNG", what), false, arena::with(|a| a.show(t, 3)));
                t
            }
            None => {
                job.check(&format!("{} is a single fresh draw of the transcript-bound RNG", what), false, "coefficient is zero / absent".into());
                lit0
            }
        }
    };
    // ---- witness-bearing commitments and masking commitments, per phase
    let mut sL: Vec<u32> = vec![lit0; n];
    let mut sR: Vec<u32> = vec![lit0; n];
    for (ph, (lo, hi)) in [(0usize, (0usize, n1)), (1, (n1, n))].iter() {
        let (ai, ao, s) = (&lins[3 * ph], &lins[3 * ph + 1], &lins[3 * ph + 2]);
        let tag = ph + 1;
        if *ph == 1 && n2 == 0 {
            let all_identity = ai.is_empty() && ao.is_empty() && s.is_empty() && pts[3].p.is_zero() && pts[4].p.is_zero() && pts[5].p.is_zero();
            job.check("absent second phase: A_I2, A_O2, S2 are the identity placeholders", all_identity, String::new());
            continue;
        }
        let rho_i = need_rng(&mut job, &format!("blinding of A_I{}", tag), ai.get(&b.Bb).copied());
        let rho_o = need_rng(&mut job, &format!("blinding of A_O{}", tag), ao.get(&b.Bb).copied());
        let _rho_s = need_rng(&mut job, &format!("blinding of S{}", tag), s.get(&b.Bb).copied());
        let mut want_ai: Lin = BTreeMap::new();
        let mut want_ao: Lin = BTreeMap::new();
        want_ai.insert(b.Bb, rho_i);
        want_ao.insert(b.Bb, rho_o);
        let mut s_allowed: BTreeSet<u32> = [b.Bb].into_iter().collect();
        for i in *lo..*hi {
            let (l, r, o) = sh.gates[i];
            for (base, val) in [(b.G[i], l.tid()), (b.H[i], r.tid())] {
                if val != lit0 {
                    want_ai.insert(base, val);
                }
            }
            if o.tid() != lit0 {
                want_ao.insert(b.G[i], o.tid());
            }
            sL[i] = need_rng(&mut job, &format!("masking entry s_L[{}]", i), s.get(&b.G[i]).copied());
            sR[i] = need_rng(&mut job, &format!("masking entry s_R[{}]", i), s.get(&b.H[i]).copied());
            s_allowed.insert(b.G[i]);
            s_allowed.insert(b.H[i]);
        }
        items.extend(lin_eq_items(&format!("A_I{} = <aL,G> + <aR,H> + rho*Bblind", tag), ai, &want_ai));
        items.extend(lin_eq_items(&format!("A_O{} = <aO,G> + rho*Bblind", tag), ao, &want_ao));
        job.check(&format!("S{} only involves this phase's generators and the blinding base", tag), s.keys().all(|k| s_allowed.contains(k)), String::new());
    }
    // wide circuits (>= 64 gates in a phase): the openings of A_I / A_O / S and every freshness / single-use check;
    // the convolution for the T_k and the published scalars is left to the small skeletons
    let wide = shape.name.starts_with("wide_");
    // ---- polynomial commitments
    let fl = oracle::flatten(&sh.cons, n, m, vc.z);
    let aL: Vec<SymF<C::ScalarField>> = sh.gates.iter().map(|g| g.0).collect();
    let aR: Vec<SymF<C::ScalarField>> = sh.gates.iter().map(|g| g.1).collect();
    let aO: Vec<SymF<C::ScalarField>> = sh.gates.iter().map(|g| g.2).collect();
    let sLf: Vec<SymF<C::ScalarField>> = sL.iter().map(|t| symf(*t)).collect();
    let sRf: Vec<SymF<C::ScalarField>> = sR.iter().map(|t| symf(*t)).collect();
    let t = if wide { [SymF::<C::ScalarField>::zero(); 7] } else { oracle::t_coeffs(&aL, &aR, &aO, &sLf, &sRf, &fl, vc.y) };
    let mut tau: Vec<u32> = vec![];
    for (k, deg) in [1usize, 3, 4, 5, 6].iter().enumerate() {
        let lin = &lins[6 + k];
        let tk = need_rng(&mut job, &format!("blinding of T_{}", deg), lin.get(&b.Bb).copied());
        tau.push(tk);
        let mut want: Lin = BTreeMap::new();
        want.insert(b.Bb, tk);
        let tt = t[*deg].tid();
        if tt != lit0 {
            want.insert(b.B, tt);
        }
        if !wide {
            items.extend(lin_eq_items(&format!("T_{} = t_{}*B + tau*Bblind", deg, deg), lin, &want));
        }
    }
    // ---- published scalars
    let x = vc.x;
    let mut tx = SymF::<C::ScalarField>::zero();
    let mut xp = x;
    for deg in 1..=6 {
        tx += t[deg] * xp;
        xp *= x;
    }
    if !wide {
        items.push(("t_x = sum_k t_k x^k".into(), scs[0].tid(), tx.tid()));
    }
    let xs = [x, x * x * x, x * x * x * x, x * x * x * x * x, x * x * x * x * x * x];
    let mut txb = SymF::<C::ScalarField>::zero();
    for k in 0..5 {
        txb += symf::<C::ScalarField>(tau[k]) * xs[k];
    }
    let mut t2b = SymF::<C::ScalarField>::zero();
    for j in 0..m {
        t2b += fl.wV[j] * sh.v_blinding[j];
    }
    txb += x * x * t2b;
    items.push(("t_x_blinding = sum_{k!=2} tau_k x^k + x^2 <wV, v_blinding>".into(), scs[1].tid(), txb.tid()));
    let rho = |name: &str| -> SymF<C::ScalarField> { role.get(name).map(|t| symf(*t)).unwrap_or(SymF::zero()) };
    let (ri, ro, rs) = (rho("blinding of A_I1") + vc.u * rho("blinding of A_I2"), rho("blinding of A_O1") + vc.u * rho("blinding of A_O2"), rho("blinding of S1") + vc.u * rho("blinding of S2"));
    let eb = x * (ri + x * (ro + x * rs));
    items.push(("e_blinding = x(rho_I + x(rho_O + x rho_S)), rho = rho1 + u*rho2".into(), scs[2].tid(), eb.tid()));
    if pad == 1 {
        if n == 0 {
            let (t0, ta, tb) = (scs[0].tid(), pa.tid(), pb.tid());
            let m1 = arena::with(|a| a.lit(-1));
            job.check("zero gates: t_x = 0, a = 0, b = -1 (statement-fixed)", scs[0].v.is_zero() && t0 == lit0 && pa.v.is_zero() && ta == lit0 && (pb.v + C::ScalarField::one()).is_zero() && tb == m1, arena::with(|a| format!("t_x={} a={} b={}", a.show(t0, 3), a.show(ta, 3), a.show(tb, 3))));
        } else {
            // one gate: the final inner-product scalars are l(x), r(x) themselves
            let l0 = (aL[0] + fl.wR[0]) * x + aO[0] * x * x + sLf[0] * x * x * x;
            let r0 = (fl.wO[0] - SymF::one()) + (aR[0] + fl.wL[0]) * x + sRf[0] * x * x * x;
            items.push(("a = l(x) (single gate)".into(), pa.tid(), l0.tid()));
            items.push(("b = r(x) (single gate)".into(), pb.tid(), r0.tid()));
        }
    }
    job.groups.push(identity_group(
        "openings",
        "I",
        "every prover message opens, for all witness values / nonces / challenges, to the protocol's formula: witness part + one blinding draw times Bblind for A_I/A_O, pure draws for S, T_k = t_k*B + tau_k*Bblind with t_k the coefficients of <l(X),r(X)>, and the published scalars t_x, t_x_blinding, e_blinding synthesised from exactly those draws",
        items,
    ));
    // ---- freshness / distinctness / single use
    let roles: Vec<u32> = role.values().copied().collect();
    let distinct: BTreeSet<u32> = roles.iter().copied().collect();
    job.check("all blinding scalars and masking entries are pairwise distinct draws", distinct.len() == roles.len(), format!("{} roles, {} distinct draws", roles.len(), distinct.len()));
    let expected = 3 + 2 * n1 + if n2 > 0 { 3 + 2 * n2 } else { 0 } + 5;
    job.check("every protocol role has its draw", role.len() == expected, format!("{} of {}", role.len(), expected));
    let draws: BTreeSet<u32> = arena::with(|a| a.rng_draws.iter().filter(|d| d.1 == "prove").map(|d| d.0).collect());
    job.check("the prover draws exactly the nonces the protocol uses (no unused or extra draw)", draws == distinct, format!("{} draws, {} used", draws.len(), distinct.len()));
    let ext_in_prove = arena::with(|a| (0..a.terms.len() as u32).any(|t| a.var_name(t).map(|n| n.starts_with("ext")).unwrap_or(false)));
    job.check("no nonce is taken directly from the caller's RNG (it only keys the transcript RNG)", !ext_in_prove, String::new());
    // a commitment blinding may only occur in its own commitment and in the published blinding scalar
    let field_roots: Vec<(String, Vec<u32>)> = names.iter().enumerate().map(|(k, nme)| (nme.to_string(), lins[k].values().copied().collect())).chain([("t_x".to_string(), vec![scs[0].tid()]), ("t_x_blinding".to_string(), vec![scs[1].tid()]), ("e_blinding".to_string(), vec![scs[2].tid()]), ("ipp".to_string(), {
        let (l, r, a2, b2) = ipp.verif_parts();
        let mut v: Vec<u32> = vec![a2.tid(), b2.tid()];
        for p in l.iter().chain(r.iter()) {
            v.extend(p.lin().values().copied());
        }
        v
    })]).collect();
    let deps: Vec<(String, BTreeSet<u32>)> = field_roots.iter().map(|(n, r)| (n.clone(), vars_of(r))).collect();
    let mut bad_use = vec![];
    for (rname, var) in role.iter() {
        let allowed: Vec<&str> = if let Some(f) = rname.strip_prefix("blinding of ") {
            if f.starts_with("T_") {
                vec![f, "t_x_blinding"]
            } else {
                vec![f, "e_blinding"]
            }
        } else {
            // masking entries flow into S, the T_k, t_x and the inner-product argument
            vec!["S1", "S2", "T_1", "T_3", "T_4", "T_5", "T_6", "t_x", "ipp"]
        };
        for (fname, d) in deps.iter() {
            if d.contains(var) && !allowed.contains(&fname.as_str()) {
                bad_use.push(format!("{} occurs in {}", rname, fname));
            }
        }
    }
    job.check("every blinding draw is used only where the protocol prescribes", bad_use.is_empty(), bad_use.join("; "));
    // ---- RNG keying, from the instrumented Merlin
    let log = &run.log;
    let build: Vec<&merlin::vlog::Event> = log.iter().filter(|e| e.op == "build_rng" && e.obj == run.prover_obj).collect();
    job.check("exactly one transcript RNG is built from the prover's transcript", build.len() == 1, format!("{}", build.len()));
    if let Some(bev) = build.first() {
        let rid = u64::from_le_bytes(bev.data[..8].try_into().unwrap());
        let rops: Vec<&merlin::vlog::Event> = log.iter().filter(|e| e.obj == rid).collect();
        let rekeys: Vec<&&merlin::vlog::Event> = rops.iter().filter(|e| e.op == "rekey").collect();
        let mut keyed = rekeys.len() == m && rekeys.iter().all(|e| e.label == b"v_blinding");
        for (j, e) in rekeys.iter().enumerate() {
            let mut bytes = vec![];
            if let Some(vb) = sh.v_blinding.get(j) {
                vb.v.serialize_uncompressed(&mut bytes).unwrap();
            }
            keyed &= e.data == bytes;
        }
        job.check("the RNG is rekeyed once per commitment with the full encoding of its blinding factor", keyed, format!("{} rekey operations for {} commitments", rekeys.len(), m));
        let fin: Vec<usize> = rops.iter().enumerate().filter(|(_, e)| e.op == "finalize").map(|(i, _)| i).collect();
        let first_fill = rops.iter().position(|e| e.op == "rng_fill");
        let last_rekey = rops.iter().rposition(|e| e.op == "rekey");
        job.check("the RNG is finalized with 32 bytes of the caller's randomness, after all rekeying and before the first nonce", fin.len() == 1 && rops[fin[0]].data.len() == 32 && first_fill.map(|f| f > fin[0]).unwrap_or(true) && last_rekey.map(|r| r < fin[0]).unwrap_or(true), String::new());
        // the 32 finalisation bytes are the caller's RNG output itself (not a digest or a prefix of it)
        let ext = crate::r1cs::ext_log();
        job.check("the finalisation bytes are the first 32 bytes handed out by the caller's RNG", fin.len() == 1 && ext.len() >= 32 && rops[fin[0]].data == ext[..32].to_vec(), format!("{} bytes drawn from the caller's RNG", ext.len()));
        // built after the commitment count was absorbed and before A_I1
        let main: Vec<&merlin::vlog::Event> = log.iter().filter(|e| e.obj == run.prover_obj).collect();
        let bpos = main.iter().position(|e| e.op == "build_rng");
        let mpos = main.iter().position(|e| e.op == "append" && e.label == b"m");
        let apos = main.iter().position(|e| e.op == "append" && e.label == b"A_I1");
        job.check("the RNG is forked after all commitments and their count are absorbed, before the first message", matches!((bpos, mpos, apos), (Some(bp), Some(mp), Some(ap)) if mp < bp && bp < ap), String::new());
    }
    drop(sh);
    job.stats = stats();
    // ---- two-run comparison on the shadow (concrete cross-check)
    let same = run_sym::<C>(shape, &Default::default(), seed, pad, pad);
    let enc = |r: &R1csRun<C>| -> Vec<u8> {
        let mut v = vec![];
        if let Ok(p) = &r.proof {
            let (pts, scs, ipp) = p.verif_parts();
            for q in pts.iter() {
                q.p.serialize_uncompressed(&mut v).unwrap();
            }
            for s in scs.iter() {
                s.v.serialize_uncompressed(&mut v).unwrap();
            }
            let (l, rr, a, bb) = ipp.verif_parts();
            for q in l.iter().chain(rr.iter()) {
                q.p.serialize_uncompressed(&mut v).unwrap();
            }
            a.v.serialize_uncompressed(&mut v).unwrap();
            bb.v.serialize_uncompressed(&mut v).unwrap();
        }
        v
    };
    let first = {
        let r0 = run_sym::<C>(shape, &Default::default(), seed, pad, pad);
        enc(&r0)
    };
    job.check("the same external randomness reproduces the same proof (shadow run)", first == enc(&same) && !first.is_empty(), String::new());
    job.replay = serde_json::json!({"kind": "c09", "shape": shape_json(shape), "seed": seed});
    let _: Option<SymA<C>> = None;
    job
}

pub fn c09_shapes(thorough: bool, seed: u64) -> Vec<Shape> {
    use crate::r1cs::Op::*;
    let mut v = vec![
        Shape::new("zero_gates_two_commits", &[Commit, Commit, ConCommitted], &[]),
        Shape::new("one_gate_two_commits", &[Commit, Commit, AllocMul, Con], &[]),
        Shape::new("two_gates_one_phase", &[Commit, AllocMul, Mul, Con], &[]),
        Shape::new("two_phase_1_plus_2", &[Commit, Commit, AllocMul, Con], &[&[Chal, AllocMul, Mul, Con]]),
        Shape::new("phase2_only_three_gates", &[Commit], &[&[Chal, AllocMul, AllocMul, Alloc, Con]]),
        Shape::new("three_commits_alloc_pair", &[Commit, Commit, Commit, Alloc, Alloc, Con], &[]),
        Shape::new("closure_without_gates", &[Commit, AllocMul], &[&[Chal, Con]]),
        Shape::new("phase2_single_open_allocation", &[Commit, AllocMul, Con], &[&[Chal, Alloc, Con]]),
        // every commitment opens with blinding factor 0 (the witness is still secret)
        Shape::new("all_commitment_blindings_zero", &[CommitZero, AllocMul, Con], &[]),
        Shape::new("all_commitment_blindings_zero_two_phase", &[CommitZero, CommitZero, AllocMul, Con], &[&[Chal, AllocMul, Con]]),
        Shape::new("lone_allocation_at_end_of_first_phase", &[Commit, AllocMul, Alloc, Con], &[]),
        Shape::new("lone_allocation_then_randomized_gate", &[Commit, Alloc], &[&[Chal, AllocMul, Con]]),
    ];
    if thorough {
        v.extend(crate::shapes::c01_shapes(true, seed).into_iter().filter(|s| !matches!(s.coef, Coef::Mixed(_))));
        // every call sequence with <= 3 first-phase and <= 2 second-phase calls
        v.extend(crate::shapes::exhaustive_skeletons(3, 2));
    }
    // wide phases (>= 64 gates): the masking vectors of a wide phase are still entry-by-entry draws of the transcript RNG
    {
        let mut p1 = vec![Commit];
        p1.extend(vec![AllocMul; 64]);
        p1.push(Con);
        let mut w = Shape::new("wide_64_plus_1", &p1, &[&[Chal, AllocMul, Con]]);
        w.lc_width = 3;
        v.push(w);
        // ... and a phase whose size is no multiple of a likely block size (40 = 32 + 8), in the second phase
        {
            let mut p2 = vec![Chal];
            p2.extend(vec![AllocMul; 40]);
            p2.push(Con);
            let mut w = Shape::new("wide_1_plus_40", &[Commit, AllocMul, Con], &[p2.as_slice()]);
            w.lc_width = 3;
            v.push(w);
        }
        if thorough {
            let mut p2 = vec![Chal];
            p2.extend(vec![AllocMul; 65]);
            p2.push(Con);
            let mut w = Shape::new("wide_64_plus_65", &p1, &[p2.as_slice()]);
            w.lc_width = 3;
            v.push(w);
        }
    }
    v
}
