//! C06: Fiat-Shamir discipline, observed through the instrumented Merlin: the operation sequence
//! of prover and verifier against the reference schedule of the protocol, payloads as full
//! encodings of the whole element, every challenge bound to every earlier message.
#![allow(non_snake_case)]
use crate::arena;
use crate::field::Inner;
use crate::group::{Base, SymA};
use crate::job::*;
use crate::r1cs::*;
use crate::scen_r1cs::{first_new_obj, shape_json};
use ark_serialize::CanonicalSerialize;
use merlin::vlog::Event;

#[derive(Clone, Debug, PartialEq)]
pub struct RefOp {
    pub op: &'static str, // "append" | "challenge"
    pub label: Vec<u8>,
    /// expected payload (append) or expected length (challenge)
    pub data: Option<Vec<u8>>,
    pub len: usize,
    pub what: String,
}

fn ser<T: CanonicalSerialize>(x: &T) -> Vec<u8> {
    let mut b = vec![];
    x.serialize_uncompressed(&mut b).unwrap();
    b
}

fn app(label: &[u8], data: Vec<u8>, what: &str) -> RefOp {
    RefOp { op: "append", label: label.to_vec(), len: data.len(), data: Some(data), what: what.to_string() }
}
fn chal(label: &[u8], what: &str) -> RefOp {
    RefOp { op: "challenge", label: label.to_vec(), data: None, len: 32, what: what.to_string() }
}

/// The protocol's schedule (written from the protocol description, pinned strings), for the
/// statement of `shape` with commitments `V` and the proof object `proof`.
pub fn reference_schedule<G: ark_ec::AffineRepr>(shape: &Shape, V: &[G], proof: &ark_bulletproofs::r1cs::R1CSProof<G>) -> Vec<RefOp> {
    let (pts, scs, ipp) = proof.verif_parts();
    let (L, R, _a, _b) = ipp.verif_parts();
    let mut v = vec![];
    v.push(app(b"dom-sep", b"verif-shape".to_vec(), "Transcript::new label"));
    v.push(app(b"label", shape.label.as_bytes().to_vec(), "application label"));
    if let Some(m) = &shape.pre_msg {
        v.push(app(b"pre", m.as_bytes().to_vec(), "application data before construction"));
    }
    v.push(app(b"dom-sep", b"r1cs v1".to_vec(), "r1cs domain separator"));
    let mut j = 0;
    for op in shape.phase1.iter() {
        match op {
            Op::Commit | Op::CommitZero | Op::CommitDup => {
                v.push(app(b"V", ser(&V[j]), &format!("commitment V{}", j)));
                j += 1;
            }
            Op::Msg(s) => v.push(app(b"app-data", s.as_bytes().to_vec(), "application data during construction")),
            _ => {}
        }
    }
    v.push(app(b"m", (j as u64).to_le_bytes().to_vec(), "commitment count"));
    for k in 0..3 {
        v.push(app([&b"A_I1"[..], &b"A_O1"[..], &b"S1"[..]][k], ser(&pts[k]), ["A_I1", "A_O1", "S1"][k]));
    }
    v.push(app(b"dom-sep", if shape.phase2.is_empty() { b"r1cs-1phase".to_vec() } else { b"r1cs-2phase".to_vec() }, "phase domain separator"));
    for ops in shape.phase2.iter() {
        for op in ops {
            match op {
                Op::Chal => v.push(chal(b"ch", "randomized-phase challenge")),
                Op::Msg(s) => v.push(app(b"app-data", s.as_bytes().to_vec(), "application data in the randomized phase")),
                _ => {}
            }
        }
    }
    for k in 0..3 {
        v.push(app([&b"A_I2"[..], &b"A_O2"[..], &b"S2"[..]][k], ser(&pts[3 + k]), ["A_I2", "A_O2", "S2"][k]));
    }
    v.push(chal(b"y", "y"));
    v.push(chal(b"z", "z"));
    for k in 0..5 {
        v.push(app([&b"T_1"[..], &b"T_3"[..], &b"T_4"[..], &b"T_5"[..], &b"T_6"[..]][k], ser(&pts[6 + k]), ["T_1", "T_3", "T_4", "T_5", "T_6"][k]));
    }
    v.push(chal(b"u", "u"));
    v.push(chal(b"x", "x"));
    for k in 0..3 {
        v.push(app([&b"t_x"[..], &b"t_x_blinding"[..], &b"e_blinding"[..]][k], ser(&scs[k]), ["t_x", "t_x_blinding", "e_blinding"][k]));
    }
    v.push(chal(b"w", "w"));
    v.push(app(b"dom-sep", b"ipp v1".to_vec(), "inner-product domain separator"));
    v.push(app(b"n", (shape.padded() as u64).to_le_bytes().to_vec(), "inner-product length"));
    for r in 0..L.len().min(R.len()) {
        v.push(app(b"L", ser(&L[r]), &format!("L{}", r)));
        v.push(app(b"R", ser(&R[r]), &format!("R{}", r)));
        v.push(chal(b"u", &format!("inner-product round challenge {}", r)));
    }
    v
}

/// Generic (carrier or plain curve) observation run: honest prove + verify, and a verifier-only
/// run on an arbitrary proof object; returns the list of (check, ok, detail) and the UF queries.
pub fn observe<G: ark_ec::AffineRepr + 'static>(shape: &Shape, vals: Box<dyn Vals<FOf<G>>>, seed: u64, arbitrary: &ark_bulletproofs::r1cs::R1CSProof<G>, arbitrary_V: &[G]) -> (Vec<(String, bool, String)>, Vec<RawQuery>, usize) {
    observe_mode::<G>(shape, vals, seed, arbitrary, arbitrary_V, false)
}

pub fn observe_mode<G: ark_ec::AffineRepr + 'static>(shape: &Shape, vals: Box<dyn Vals<FOf<G>>>, seed: u64, arbitrary: &ark_bulletproofs::r1cs::R1CSProof<G>, arbitrary_V: &[G], strict_labels: bool) -> (Vec<(String, bool, String)>, Vec<RawQuery>, usize) {
    use ark_bulletproofs::{BulletproofGens, PedersenGens};
    let mut out = vec![];
    let mut raw = vec![];
    let pad = shape.padded();
    let pc = crate::r1cs::pc_for::<G>(&shape.name, seed);
    let bp = BulletproofGens::<G>::new(pad, 1);
    let shr = new_shared::<G>(shape, &Default::default(), vals);
    let p_from = merlin::vlog::len();
    let (proof, mut pt) = prove_shape(shape, &shr, &pc, &bp, seed);
    let proof = match proof {
        Ok(p) => p,
        Err(e) => {
            out.push(("prove succeeds".to_string(), false, format!("{:?}", e)));
            return (out, raw, 0);
        }
    };
    let mut ptail = [0u8; 32];
    pt.challenge_bytes(b"verif-tail", &mut ptail);
    rewind_for_verifier(&shr);
    let v_from = merlin::vlog::len();
    let mut vt = new_verifier_transcript(shape);
    // the verifier's generator set is larger and has more parties than the prover's: local configuration that no
    // transcript operation may depend on
    let bp_v = BulletproofGens::<G>::new(2 * pad + 1, 3);
    let res = build_verifier(shape, &shr, &mut vt).verify_and_return_transcript(&proof, &pc, &bp_v).map(|_| ());
    let mut vtail = [0u8; 32];
    vt.challenge_bytes(b"verif-tail", &mut vtail);
    out.push(("honest proof verifies".to_string(), res.is_ok(), format!("{:?}", res)));
    let log = merlin::vlog::since(0);
    let (pobj, vobj) = (first_new_obj(&log, p_from), first_new_obj(&log, v_from));
    let commitments = shr.borrow().commitments.clone();
    let reference = reference_schedule(shape, &commitments, &proof);
    let p_ops = ops_of(&log, pobj);
    let v_ops = ops_of(&log, vobj);
    let (okp, dp) = compare_mode(&p_ops, &reference, strict_labels);
    out.push(("prover's transcript operations equal the reference schedule (labels, order, full encodings)".into(), okp, dp));
    let (okv, dv) = compare_mode(&v_ops, &reference, strict_labels);
    out.push(("verifier's transcript operations equal the reference schedule (labels, order, full encodings)".into(), okv, dv));
    let same = p_ops.len() == v_ops.len() && p_ops.iter().zip(v_ops.iter()).all(|(a, b)| a.op == b.op && a.label == b.label && a.data == b.data);
    out.push(("prover and verifier perform identical operation sequences on their transcripts".into(), same, format!("{} vs {} operations", p_ops.len(), v_ops.len())));
    out.push(("the transcripts handed back drive identical follow-up challenges".into(), ptail == vtail, String::new()));
    let clones: Vec<&Event> = log.iter().filter(|e| e.op == "clone" && e.obj == vobj).collect();
    // position of the fork relative to the verifier's own operations: it must come after the last one
    let last_main_op = log.iter().rposition(|e| e.obj == vobj && (e.op == "append" || e.op == "challenge") && e.label != b"verif-tail");
    let fork_pos = log.iter().rposition(|e| e.op == "clone" && e.obj == vobj);
    out.push(("the fork for the batching challenge is taken after every proof element has been absorbed (after the verifier's last transcript operation)".into(), matches!((last_main_op, fork_pos), (Some(a), Some(b)) if b > a), format!("{:?} {:?}", last_main_op, fork_pos)));
    let r_on_fork = clones.last().map(|c| {
        let fork = u64::from_le_bytes(c.data[..8].try_into().unwrap());
        log.iter().any(|e| e.obj == fork && e.op == "challenge" && e.label == b"r")
    });
    out.push(("the verifier's batching challenge is squeezed from a fork of the transcript taken after the last inner-product round".into(), r_on_fork == Some(true) || (!strict_labels && clones.last().map(|c| { let fork = u64::from_le_bytes(c.data[..8].try_into().unwrap()); log.iter().any(|e| e.obj == fork && e.op == "challenge") }) == Some(true)), format!("{} forks", clones.len())));
    raw.extend(binding_queries_mode(&p_ops, &reference, "prover", strict_labels));
    raw.extend(binding_queries_mode(&v_ops, &reference, "verifier", strict_labels));
    // verifier alone, on an arbitrary proof object: what it absorbs must be the proof's own elements
    let shr2 = new_shared::<G>(shape, &Default::default(), Box::new(crate::job::PlainVals::<FOf<G>>::new(Default::default(), seed ^ 0x51)));
    {
        let mut s2 = shr2.borrow_mut();
        s2.is_prover = false;
        s2.verifier_commitments = arbitrary_V.to_vec();
    }
    let a_from = merlin::vlog::len();
    let mut at = new_verifier_transcript(shape);
    let _ = build_verifier(shape, &shr2, &mut at).verify(arbitrary, &pc, &bp);
    let log = merlin::vlog::since(0);
    let aobj = first_new_obj(&log, a_from);
    let a_ops = ops_of(&log, aobj);
    let reference2 = reference_schedule(shape, arbitrary_V, arbitrary);
    let (oka, da) = compare_mode(&a_ops, &reference2, strict_labels);
    out.push(("verifier given an arbitrary proof object absorbs exactly that object's elements in the reference order".into(), oka, da));
    raw.extend(binding_queries_mode(&a_ops, &reference2, "verifier(arbitrary proof)", strict_labels));
    (out, raw, reference.len())
}

pub fn compare(actual: &[&Event], reference: &[RefOp]) -> (bool, String) {
    compare_mode(actual, reference, true)
}

pub fn ops_of(log: &[Event], obj: u64) -> Vec<&Event> {
    log.iter().filter(|e| e.obj == obj && (e.op == "append" || e.op == "challenge")).collect()
}

fn lab(l: &[u8]) -> String {
    String::from_utf8_lossy(l).to_string()
}

/// compare an actual operation sequence with the reference; `upto_tail` drops the harness's own
/// trailing "verif-tail" squeeze
/// `strict_labels`: label strings and domain-separator payloads must equal the pinned ones (wire
/// stability, C18).  Otherwise (C06) only the structure counts: the same kind of operation at every
/// position, payloads that are the full encoding of the right element, 32-byte squeezes; a consistent
/// relabelling is not a violation of the Fiat-Shamir discipline.
pub fn compare_mode(actual: &[&Event], reference: &[RefOp], strict_labels: bool) -> (bool, String) {
    let act: Vec<&&Event> = actual.iter().filter(|e| e.label != b"verif-tail").collect();
    for k in 0..act.len().max(reference.len()) {
        match (act.get(k), reference.get(k)) {
            (Some(a), Some(r)) => {
                if a.op != r.op || (strict_labels && a.label != r.label) {
                    return (false, format!("position {}: {} {:?}, reference {} {:?} ({})", k, a.op, lab(&a.label), r.op, lab(&r.label), r.what));
                }
                let is_domsep = r.label == b"dom-sep";
                if !strict_labels && (a.label.is_empty() || (is_domsep && a.data.is_empty())) {
                    return (false, format!("position {}: empty label / domain separator", k));
                }
                if a.op == "append" && Some(&a.data) != r.data.as_ref() && (strict_labels || !is_domsep) {
                    return (false, format!("position {}: payload of {:?} ({}) is not the full encoding of the element ({} bytes vs {} expected)", k, lab(&a.label), r.what, a.data.len(), r.len));
                }
                if a.op == "challenge" && a.data.len() != 32 {
                    return (false, format!("position {}: challenge {:?} squeezes {} bytes", k, lab(&a.label), a.data.len()));
                }
            }
            (Some(a), None) => return (false, format!("extra operation at position {}: {} {:?}", k, a.op, lab(&a.label))),
            (None, Some(r)) => return (false, format!("missing operation at position {}: {} {:?} ({})", k, r.op, lab(&r.label), r.what)),
            _ => {}
        }
    }
    (true, String::new())
}

fn keyed(ops: &[(String, String)]) -> Vec<String> {
    let mut cnt = std::collections::HashMap::new();
    ops.iter()
        .map(|(o, l)| {
            let c = cnt.entry((o.clone(), l.clone())).or_insert(0usize);
            let k = format!("{}_{}_{}", o, l.replace(|ch: char| !ch.is_ascii_alphanumeric(), "_"), *c);
            *c += 1;
            k
        })
        .collect()
}

/// UF queries: for every squeeze c and all messages that precede it in the reference order:
/// "two runs differ in one of them yet agree on every argument the implementation hashed into c".
pub fn binding_queries(actual: &[&Event], reference: &[RefOp], who: &str) -> Vec<RawQuery> {
    binding_queries_mode(actual, reference, who, true)
}

pub fn binding_queries_mode(actual: &[&Event], reference: &[RefOp], who: &str, strict_labels: bool) -> Vec<RawQuery> {
    let act: Vec<&&Event> = actual.iter().filter(|e| e.label != b"verif-tail").collect();
    // with relaxed labels and an operation sequence of the reference's structure, the actual labels are
    // read as the reference's (a consistent relabelling); otherwise messages are matched by (label, occurrence)
    let same_structure = act.len() == reference.len() && act.iter().zip(reference.iter()).all(|(a, r)| a.op == r.op);
    let akeys = if !strict_labels && same_structure {
        keyed(&reference.iter().map(|r| (r.op.to_string(), lab(&r.label))).collect::<Vec<_>>())
    } else {
        keyed(&act.iter().map(|e| (e.op.to_string(), lab(&e.label))).collect::<Vec<_>>())
    };
    let rkeys = keyed(&reference.iter().map(|r| (r.op.to_string(), lab(&r.label))).collect::<Vec<_>>());
    let mut out = vec![];
    for (ri, rk) in rkeys.iter().enumerate() {
        if !rk.starts_with("challenge_") {
            continue;
        }
        let before_ref: Vec<&String> = rkeys[..ri].iter().filter(|k| k.starts_with("append_")).collect();
        let args_act: Vec<&String> = match akeys.iter().position(|k| k == rk) {
            Some(ai) => akeys[..ai].iter().filter(|k| k.starts_with("append_")).collect(),
            None => vec![],
        };
        let mut s = String::from("(set-logic QF_UF)\n(declare-sort M 0)\n");
        let mut all: Vec<&String> = before_ref.clone();
        for k in args_act.iter() {
            if !all.contains(k) {
                all.push(k);
            }
        }
        for k in all.iter() {
            s += &format!("(declare-const {}_run1 M)\n(declare-const {}_run2 M)\n", k, k);
        }
        if before_ref.is_empty() {
            continue;
        }
        s += "(assert (or";
        for k in before_ref.iter() {
            s += &format!(" (not (= {}_run1 {}_run2))", k, k);
        }
        s += "))\n";
        for k in args_act.iter() {
            s += &format!("(assert (= {}_run1 {}_run2))\n", k, k);
        }
        s += "(check-sat)\n";
        out.push(RawQuery { name: format!("{}: {} is bound to all {} earlier messages", who, rk, before_ref.len()), smt: s, expect: "unsat".into() });
    }
    out
}

pub fn arbitrary_proof<G: ark_ec::AffineRepr>(shape: &Shape, seed: u64) -> (ark_bulletproofs::r1cs::R1CSProof<G>, Vec<G>) {
    use ark_bulletproofs::verif_hooks::InnerProductProof;
    use ark_ec::CurveGroup;
    use ark_ff::UniformRand;
    use rand_core::SeedableRng;
    let mut rng = rand_chacha::ChaChaRng::seed_from_u64(seed ^ 0xa4b);
    let mut pt = || -> G { G::Group::rand(&mut rng).into_affine() };
    let pts: [G; 11] = [pt(), pt(), pt(), pt(), pt(), pt(), pt(), pt(), pt(), pt(), pt()];
    let k = shape.padded().trailing_zeros() as usize;
    let L: Vec<G> = (0..k).map(|_| pt()).collect();
    let R: Vec<G> = (0..k).map(|_| pt()).collect();
    let V: Vec<G> = (0..shape.commits()).map(|_| pt()).collect();
    let mut rng2 = rand_chacha::ChaChaRng::seed_from_u64(seed ^ 0xa4c);
    let mut sc = || G::ScalarField::rand(&mut rng2);
    let scs = [sc(), sc(), sc()];
    let ipp = InnerProductProof::verif_from_parts(L, R, sc(), sc());
    (ark_bulletproofs::r1cs::R1CSProof::verif_from_parts(pts, scs, ipp), V)
}

pub fn job_c06<C: Base + 'static>(shape: &Shape, seed: u64, curve: &str) -> Job
where
    C::ScalarField: Inner,
{
    job_c06_mode::<C>(shape, seed, curve, false)
}

pub fn job_c06_mode<C: Base + 'static>(shape: &Shape, seed: u64, curve: &str, strict_labels: bool) -> Job
where
    C::ScalarField: Inner,
{
    arena::reset();
    arena::set_ctx("c06");
    let mut job = Job { property: "C06".into(), scenario: format!("C06:{}:{}", shape.name, curve), curve: curve.into(), seed, shape: shape_json(shape), ..Default::default() };
    let (arb, arb_v) = arbitrary_proof::<SymA<C>>(shape, seed);
    let (checks, raw, nops) = observe_mode::<SymA<C>>(shape, Box::new(SymVals::<C::ScalarField>::new(seed)), seed, &arb, &arb_v, strict_labels);
    for (n, ok, d) in checks {
        job.check(&n, ok, d);
    }
    job.params = serde_json::json!({"reference_operations": nops, "binding_queries": raw.len()});
    job.groups.push(raw_group("challenge_binding", "hash modelled as an uninterpreted function of the absorbed list: no two runs can differ in a message that precedes a challenge in the protocol order and still agree on every argument the implementation hashed into that challenge", raw));
    job.stats = stats();
    job.replay = serde_json::json!({"kind": "c06", "shape": shape_json(shape), "seed": seed});
    job
}
