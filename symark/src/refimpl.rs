//! Pinned reference protocol: an independent prover and an unbatched verifier for the
//! Bulletproofs R1CS argument, written from the protocol description (Bünz et al. section 5,
//! dalek's r1cs protocol notes), with the wire format of the reference revision pinned as
//! string constants here.  It shares no code with /repo/src except the public data types
//! (`LinearCombination`, `Variable`, `R1CSProof` through the guarded constructors).
//! Generic over the group: runs natively on a real curve (differential replay, C18) or on the
//! carriers.
#![allow(non_snake_case)]
use crate::r1cs::*;
use ark_bulletproofs::r1cs::*;
use ark_bulletproofs::verif_hooks::InnerProductProof;
use ark_ec::{AffineRepr, CurveGroup};
use ark_ff::{Field, One, UniformRand, Zero};
use ark_serialize::CanonicalSerialize;
use merlin::Transcript;
use rand_core::SeedableRng;
use std::cell::RefCell;
use std::rc::Rc;

// ---- pinned transcript protocol
fn t_point<G: AffineRepr>(t: &mut Transcript, label: &'static [u8], p: &G) {
    let mut b = vec![];
    p.serialize_uncompressed(&mut b).unwrap();
    t.append_message(label, &b);
}
fn t_scalar<F: Field>(t: &mut Transcript, label: &'static [u8], s: &F) {
    let mut b = vec![];
    s.serialize_uncompressed(&mut b).unwrap();
    t.append_message(label, &b);
}
fn t_chal<F: Field + UniformRand>(t: &mut Transcript, label: &'static [u8]) -> F {
    let mut buf = [0u8; 32];
    t.challenge_bytes(label, &mut buf);
    F::rand(&mut rand_chacha::ChaChaRng::from_seed(buf))
}

/// Reference constraint system (both roles): documented semantics of the `ConstraintSystem` trait.
pub struct RefCS<G: AffineRepr> {
    pub t: Transcript,
    pub pc_B: G,
    pub pc_Bb: G,
    pub prover: bool,
    pub cons: Vec<LinearCombination<FOf<G>>>,
    pub aL: Vec<FOf<G>>,
    pub aR: Vec<FOf<G>>,
    pub aO: Vec<FOf<G>>,
    pub v: Vec<FOf<G>>,
    pub vb: Vec<FOf<G>>,
    pub V: Vec<G>,
    pub n: usize,
    pub pending: Option<usize>,
}

impl<G: AffineRepr> RefCS<G> {
    fn eval(&self, lc: &LinearCombination<FOf<G>>) -> FOf<G> {
        lc.verif_terms()
            .iter()
            .map(|(var, c)| {
                *c * match var {
                    Variable::MultiplierLeft(i) => self.aL[*i],
                    Variable::MultiplierRight(i) => self.aR[*i],
                    Variable::MultiplierOutput(i) => self.aO[*i],
                    Variable::Committed(i) => self.v[*i],
                    Variable::One() => FOf::<G>::one(),
                    _ => FOf::<G>::zero(),
                }
            })
            .sum()
    }
    fn new_gate(&mut self, l: FOf<G>, r: FOf<G>, o: FOf<G>) -> usize {
        let i = self.n;
        self.n += 1;
        if self.prover {
            self.aL.push(l);
            self.aR.push(r);
            self.aO.push(o);
        }
        i
    }
}

impl<G: AffineRepr> ConstraintSystem<FOf<G>> for RefCS<G> {
    fn transcript(&mut self) -> &mut Transcript {
        &mut self.t
    }
    fn multiply(&mut self, mut left: LinearCombination<FOf<G>>, mut right: LinearCombination<FOf<G>>) -> (Variable<FOf<G>>, Variable<FOf<G>>, Variable<FOf<G>>) {
        let (l, r) = if self.prover { (self.eval(&left), self.eval(&right)) } else { (FOf::<G>::zero(), FOf::<G>::zero()) };
        let i = self.new_gate(l, r, l * r);
        let (lv, rv, ov) = (Variable::MultiplierLeft(i), Variable::MultiplierRight(i), Variable::MultiplierOutput(i));
        left = left - lv;
        right = right - rv;
        self.cons.push(left);
        self.cons.push(right);
        (lv, rv, ov)
    }
    fn allocate(&mut self, a: Option<FOf<G>>) -> Result<Variable<FOf<G>>, R1CSError> {
        let x = if self.prover { a.ok_or(R1CSError::MissingAssignment)? } else { FOf::<G>::zero() };
        match self.pending {
            None => {
                let i = self.new_gate(x, FOf::<G>::zero(), FOf::<G>::zero());
                self.pending = Some(i);
                Ok(Variable::MultiplierLeft(i))
            }
            Some(i) => {
                self.pending = None;
                if self.prover {
                    self.aR[i] = x;
                    self.aO[i] = self.aL[i] * x;
                }
                Ok(Variable::MultiplierRight(i))
            }
        }
    }
    fn allocate_multiplier(&mut self, a: Option<(FOf<G>, FOf<G>)>) -> Result<(Variable<FOf<G>>, Variable<FOf<G>>, Variable<FOf<G>>), R1CSError> {
        let (l, r) = if self.prover { a.ok_or(R1CSError::MissingAssignment)? } else { (FOf::<G>::zero(), FOf::<G>::zero()) };
        let i = self.new_gate(l, r, l * r);
        Ok((Variable::MultiplierLeft(i), Variable::MultiplierRight(i), Variable::MultiplierOutput(i)))
    }
    fn multipliers_len(&self) -> usize {
        self.n
    }
    fn constrain(&mut self, lc: LinearCombination<FOf<G>>) {
        self.cons.push(lc);
    }
}

impl<G: AffineRepr> RoleCS<G> for RefCS<G> {
    fn role_commit(&mut self, sh: &mut Shared<G>, mode: u8) -> Variable<FOf<G>> {
        let (v, vb) = match mode {
            1 => (FOf::<G>::zero(), FOf::<G>::zero()),
            2 if !self.v.is_empty() => (self.v[0], self.vb[0]),
            _ => (sh.draw("v"), sh.draw("vb")),
        };
        let j = self.V.len();
        let V: G = if self.prover { (self.pc_B * v + self.pc_Bb * vb).into_affine() } else { sh.verifier_commitments[j] };
        t_point(&mut self.t, b"V", &V);
        self.V.push(V);
        self.v.push(v);
        self.vb.push(vb);
        if self.prover {
            sh.v_blinding.push(vb);
            sh.commitments.push(V);
        }
        sh.v.push(v);
        let var = Variable::Committed(j);
        sh.set_var(var, v);
        var
    }
    fn role_set_gate(&mut self, i: usize, l: FOf<G>, r: FOf<G>, o: FOf<G>) {
        if self.prover {
            self.aL[i] = l;
            self.aR[i] = r;
            self.aO[i] = o;
        }
    }
    fn role_chal(&mut self) -> FOf<G> {
        t_chal(&mut self.t, b"ch")
    }
}

fn start<G: AffineRepr>(shape: &Shape, prover: bool, B: G, Bb: G, verifier_side: bool) -> RefCS<G> {
    let mut t = Transcript::new(b"verif-shape");
    let label = if verifier_side { shape.verifier_label.as_ref().unwrap_or(&shape.label) } else { &shape.label };
    t.append_message(b"label", label.as_bytes());
    let pre = if verifier_side {
        match &shape.verifier_pre_msg {
            Some(m) if m.is_empty() => None,
            Some(m) => Some(m.clone()),
            None => shape.pre_msg.clone(),
        }
    } else {
        shape.pre_msg.clone()
    };
    if let Some(m) = &pre {
        t.append_message(b"pre", m.as_bytes());
    }
    t.append_message(b"dom-sep", b"r1cs v1");
    RefCS { t, pc_B: B, pc_Bb: Bb, prover, cons: vec![], aL: vec![], aR: vec![], aO: vec![], v: vec![], vb: vec![], V: vec![], n: 0, pending: None }
}

pub struct Flat<F> {
    pub wL: Vec<F>,
    pub wR: Vec<F>,
    pub wO: Vec<F>,
    pub wV: Vec<F>,
    pub wc: F,
}
fn flatten<G: AffineRepr>(cs: &RefCS<G>, z: FOf<G>) -> Flat<FOf<G>> {
    let (n, m) = (cs.n, cs.V.len());
    let zero = FOf::<G>::zero();
    let mut f = Flat { wL: vec![zero; n], wR: vec![zero; n], wO: vec![zero; n], wV: vec![zero; m], wc: zero };
    let mut zp = z;
    for lc in cs.cons.iter() {
        for (var, c) in lc.verif_terms() {
            match var {
                Variable::MultiplierLeft(i) => f.wL[*i] += zp * c,
                Variable::MultiplierRight(i) => f.wR[*i] += zp * c,
                Variable::MultiplierOutput(i) => f.wO[*i] += zp * c,
                Variable::Committed(i) => f.wV[*i] -= zp * c,
                Variable::One() => f.wc -= zp * c,
                _ => {}
            }
        }
        zp *= z;
    }
    f
}

fn pows<F: Field>(x: F, n: usize) -> Vec<F> {
    let mut v = vec![];
    let mut p = F::one();
    for _ in 0..n {
        v.push(p);
        p *= x;
    }
    v
}

/// Deviations of the (otherwise honest) reference prover, used for differential replays.
#[derive(Clone, Debug, PartialEq)]
pub enum Knob {
    Honest,
    /// no second-phase gates: send unaccounted random points as A_I2, A_O2, S2
    GarbagePhase2,
    /// no second-phase gates: send multiples of Bblind as A_I2, A_O2, S2 and fold them into e_blinding
    BlindedPhase2,
    /// padded size 1: append one bogus inner-product round that balances a check which forgot
    /// to compare the round count with the claimed length
    SurplusRound,
    /// no first-phase gates: blind A_I1, A_O1, S1 with zero, i.e. send identity points (relations (b), (c)
    /// hold, the mandatory-point clause (a) does not)
    ZeroBlindPhase1,
}

pub fn ref_prove<G: AffineRepr + 'static>(shape: &Shape, shr: &Rc<RefCell<Shared<G>>>, B: G, Bb: G, Gs: &[G], Hs: &[G], seed: u64, knob: Knob) -> Option<R1CSProof<G>> {
    ref_prove_shifted(shape, shr, B, Bb, Gs, Hs, seed, knob, None)
}

/// `shift_a_i1`: an (otherwise honest) prover that adds the given point -- e.g. a small-order point on a
/// cofactor curve -- to A_I1 before it is absorbed; relation (c) then fails by x * shift.
pub fn ref_prove_shifted<G: AffineRepr + 'static>(shape: &Shape, shr: &Rc<RefCell<Shared<G>>>, B: G, Bb: G, Gs: &[G], Hs: &[G], seed: u64, knob: Knob, shift_a_i1: Option<G>) -> Option<R1CSProof<G>> {
    let mut rng = rand_chacha::ChaChaRng::seed_from_u64(seed ^ 0x4ef);
    let mut cs = start::<G>(shape, true, B, Bb, false);
    run_ops(&mut cs, &shape.phase1, shr, false);
    cs.t.append_u64(b"m", cs.V.len() as u64);
    let n1 = cs.n;
    cs.pending = None;
    if Gs.len() < n1 {
        return None;
    }
    let mut rnd = |rng: &mut rand_chacha::ChaChaRng| FOf::<G>::rand(rng);
    let (mut ri1, mut ro1, mut rs1) = (rnd(&mut rng), rnd(&mut rng), rnd(&mut rng));
    if knob == Knob::ZeroBlindPhase1 && n1 == 0 {
        ri1 = FOf::<G>::zero();
        ro1 = FOf::<G>::zero();
        rs1 = FOf::<G>::zero();
    }
    let sL1: Vec<FOf<G>> = (0..n1).map(|_| rnd(&mut rng)).collect();
    let sR1: Vec<FOf<G>> = (0..n1).map(|_| rnd(&mut rng)).collect();
    let com = |lo: usize, hi: usize, l: &[FOf<G>], r: Option<&[FOf<G>]>, bl: FOf<G>| -> G {
        let mut acc: G::Group = Bb * bl;
        for i in lo..hi {
            acc = acc + Gs[i] * l[i - lo];
            if let Some(r) = r {
                acc = acc + Hs[i] * r[i - lo];
            }
        }
        acc.into_affine()
    };
    let mut A_I1 = com(0, n1, &cs.aL[..n1], Some(&cs.aR[..n1]), ri1);
    if let Some(t) = shift_a_i1 {
        A_I1 = (A_I1.into_group() + t.into_group()).into_affine();
    }
    let A_O1 = com(0, n1, &cs.aO[..n1], None, ro1);
    let S1 = com(0, n1, &sL1, Some(&sR1), rs1);
    t_point(&mut cs.t, b"A_I1", &A_I1);
    t_point(&mut cs.t, b"A_O1", &A_O1);
    t_point(&mut cs.t, b"S1", &S1);
    cs.t.append_message(b"dom-sep", if shape.phase2.is_empty() { b"r1cs-1phase" } else { b"r1cs-2phase" });
    for ops in shape.phase2.iter() {
        run_ops(&mut cs, ops, shr, true);
    }
    let n = cs.n;
    let n2 = n - n1;
    let padded = n.next_power_of_two();
    if Gs.len() < padded || Hs.len() < padded {
        return None;
    }
    let zero = FOf::<G>::zero();
    let (mut ri2, mut ro2, mut rs2) = (zero, zero, zero);
    let sL2: Vec<FOf<G>> = (0..n2).map(|_| rnd(&mut rng)).collect();
    let sR2: Vec<FOf<G>> = (0..n2).map(|_| rnd(&mut rng)).collect();
    let (A_I2, A_O2, S2): (G, G, G) = if n2 > 0 {
        ri2 = rnd(&mut rng);
        ro2 = rnd(&mut rng);
        rs2 = rnd(&mut rng);
        (com(n1, n, &cs.aL[n1..], Some(&cs.aR[n1..]), ri2), com(n1, n, &cs.aO[n1..], None, ro2), com(n1, n, &sL2, Some(&sR2), rs2))
    } else {
        match knob {
            Knob::GarbagePhase2 => (G::Group::rand(&mut rng).into_affine(), G::Group::rand(&mut rng).into_affine(), G::Group::rand(&mut rng).into_affine()),
            Knob::BlindedPhase2 => {
                ri2 = rnd(&mut rng);
                ro2 = rnd(&mut rng);
                rs2 = rnd(&mut rng);
                ((Bb * ri2).into_affine(), (Bb * ro2).into_affine(), (Bb * rs2).into_affine())
            }
            Knob::Honest | Knob::SurplusRound | Knob::ZeroBlindPhase1 => (G::zero(), G::zero(), G::zero()),
        }
    };
    t_point(&mut cs.t, b"A_I2", &A_I2);
    t_point(&mut cs.t, b"A_O2", &A_O2);
    t_point(&mut cs.t, b"S2", &S2);
    let y: FOf<G> = t_chal(&mut cs.t, b"y");
    let z: FOf<G> = t_chal(&mut cs.t, b"z");
    let fl = flatten(&cs, z);
    let yp = pows(y, padded);
    let yi = pows(y.inverse()?, padded);
    let sL: Vec<FOf<G>> = sL1.iter().chain(sL2.iter()).copied().collect();
    let sR: Vec<FOf<G>> = sR1.iter().chain(sR2.iter()).copied().collect();
    // l(X) = (aL + y^-n o wR) X + aO X^2 + sL X^3 ;  r(X) = (wO - y^n) + (y^n o aR + wL) X + (y^n o sR) X^3
    let lpoly: Vec<[FOf<G>; 4]> = (0..n).map(|i| [zero, cs.aL[i] + yi[i] * fl.wR[i], cs.aO[i], sL[i]]).collect();
    let rpoly: Vec<[FOf<G>; 4]> = (0..n).map(|i| [fl.wO[i] - yp[i], yp[i] * cs.aR[i] + fl.wL[i], zero, yp[i] * sR[i]]).collect();
    let mut t = [zero; 7];
    for i in 0..n {
        for a in 0..4 {
            for b in 0..4 {
                t[a + b] += lpoly[i][a] * rpoly[i][b];
            }
        }
    }
    let tau: Vec<FOf<G>> = (0..7).map(|_| rnd(&mut rng)).collect();
    let degs = [1usize, 3, 4, 5, 6];
    let Ts: Vec<G> = degs.iter().map(|d| (B * t[*d] + Bb * tau[*d]).into_affine()).collect();
    let labels: [&'static [u8]; 5] = [b"T_1", b"T_3", b"T_4", b"T_5", b"T_6"];
    for k in 0..5 {
        t_point(&mut cs.t, labels[k], &Ts[k]);
    }
    let u: FOf<G> = t_chal(&mut cs.t, b"u");
    let x: FOf<G> = t_chal(&mut cs.t, b"x");
    let xp = pows(x, 7);
    let t_x: FOf<G> = (1..7).map(|d| t[d] * xp[d]).sum();
    let t2b: FOf<G> = fl.wV.iter().zip(cs.vb.iter()).map(|(w, b)| *w * *b).sum();
    let t_xb: FOf<G> = degs.iter().map(|d| tau[*d] * xp[*d]).sum::<FOf<G>>() + xp[2] * t2b;
    let e_b = x * ((ri1 + u * ri2) + x * ((ro1 + u * ro2) + x * (rs1 + u * rs2)));
    t_scalar(&mut cs.t, b"t_x", &t_x);
    t_scalar(&mut cs.t, b"t_x_blinding", &t_xb);
    t_scalar(&mut cs.t, b"e_blinding", &e_b);
    let w: FOf<G> = t_chal(&mut cs.t, b"w");
    let Q: G::Group = B * w;
    let mut a: Vec<FOf<G>> = (0..padded).map(|i| if i < n { (0..4).map(|d| lpoly[i][d] * xp[d]).sum() } else { zero }).collect();
    let mut b: Vec<FOf<G>> = (0..padded).map(|i| if i < n { (0..4).map(|d| rpoly[i][d] * xp[d]).sum() } else { -yp[i] }).collect();
    let one = FOf::<G>::one();
    let g: Vec<FOf<G>> = (0..padded).map(|i| if i < n1 { one } else { u }).collect();
    let mut Gv: Vec<G::Group> = (0..padded).map(|i| Gs[i] * g[i]).collect();
    let mut Hv: Vec<G::Group> = (0..padded).map(|i| Hs[i] * (g[i] * yi[i])).collect();
    cs.t.append_message(b"dom-sep", b"ipp v1");
    cs.t.append_u64(b"n", padded as u64);
    let (mut Ls, mut Rs) = (vec![], vec![]);
    let mut len = padded;
    while len > 1 {
        len /= 2;
        let cL: FOf<G> = (0..len).map(|i| a[i] * b[len + i]).sum();
        let cR: FOf<G> = (0..len).map(|i| a[len + i] * b[i]).sum();
        let mut L: G::Group = Q * cL;
        let mut R: G::Group = Q * cR;
        for i in 0..len {
            L = L + Gv[len + i] * a[i] + Hv[i] * b[len + i];
            R = R + Gv[i] * a[len + i] + Hv[len + i] * b[i];
        }
        let (L, R) = (L.into_affine(), R.into_affine());
        t_point(&mut cs.t, b"L", &L);
        t_point(&mut cs.t, b"R", &R);
        let uj: FOf<G> = t_chal(&mut cs.t, b"u");
        let ui = uj.inverse()?;
        for i in 0..len {
            a[i] = a[i] * uj + ui * a[len + i];
            b[i] = b[i] * ui + uj * b[len + i];
            Gv[i] = Gv[i] * ui + Gv[len + i] * uj;
            Hv[i] = Hv[i] * uj + Hv[len + i] * ui;
        }
        Ls.push(L);
        Rs.push(R);
    }
    if knob == Knob::SurplusRound && padded == 1 {
        let L: G = (Q * (a[0] * b[0])).into_affine();
        let R: G = (Gv[0] * a[0]).into_affine();
        if L.is_zero() || R.is_zero() {
            return None;
        }
        t_point(&mut cs.t, b"L", &L);
        t_point(&mut cs.t, b"R", &R);
        let uj: FOf<G> = t_chal(&mut cs.t, b"u");
        let ui = uj.inverse()?;
        a[0] = (uj + ui) * a[0];
        b[0] = uj * b[0];
        Ls.push(L);
        Rs.push(R);
    }
    let ipp = InnerProductProof::verif_from_parts(Ls, Rs, a[0], b[0]);
    Some(R1CSProof::verif_from_parts([A_I1, A_O1, S1, A_I2, A_O2, S2, Ts[0], Ts[1], Ts[2], Ts[3], Ts[4]], [t_x, t_xb, e_b], ipp))
}

/// Unbatched reference verification: (a) mandatory points non-identity, (b) the committed
/// evaluation relation, (c) the inner-product relation with explicit folding.
pub fn ref_verify<G: AffineRepr + 'static>(shape: &Shape, shr: &Rc<RefCell<Shared<G>>>, B: G, Bb: G, Gs: &[G], Hs: &[G], proof: &R1CSProof<G>) -> bool {
    let (pts, scs, ipp) = proof.verif_parts();
    let (L, R, pa, pb) = ipp.verif_parts();
    let mut cs = start::<G>(shape, false, B, Bb, true);
    run_ops(&mut cs, &shape.phase1, shr, false);
    cs.t.append_u64(b"m", cs.V.len() as u64);
    let n1 = cs.n;
    cs.pending = None;
    let labels: [&'static [u8]; 11] = [b"A_I1", b"A_O1", b"S1", b"A_I2", b"A_O2", b"S2", b"T_1", b"T_3", b"T_4", b"T_5", b"T_6"];
    for k in 0..3 {
        if pts[k].is_zero() {
            return false;
        }
        t_point(&mut cs.t, labels[k], &pts[k]);
    }
    cs.t.append_message(b"dom-sep", if shape.phase2.is_empty() { b"r1cs-1phase" } else { b"r1cs-2phase" });
    for ops in shape.phase2.iter() {
        run_ops(&mut cs, ops, shr, true);
    }
    let n = cs.n;
    let padded = n.next_power_of_two();
    if Gs.len() < padded || Hs.len() < padded {
        return false;
    }
    for k in 3..6 {
        t_point(&mut cs.t, labels[k], &pts[k]);
    }
    let y: FOf<G> = t_chal(&mut cs.t, b"y");
    let z: FOf<G> = t_chal(&mut cs.t, b"z");
    for k in 6..11 {
        if pts[k].is_zero() {
            return false;
        }
        t_point(&mut cs.t, labels[k], &pts[k]);
    }
    let u: FOf<G> = t_chal(&mut cs.t, b"u");
    let x: FOf<G> = t_chal(&mut cs.t, b"x");
    t_scalar(&mut cs.t, b"t_x", &scs[0]);
    t_scalar(&mut cs.t, b"t_x_blinding", &scs[1]);
    t_scalar(&mut cs.t, b"e_blinding", &scs[2]);
    let w: FOf<G> = t_chal(&mut cs.t, b"w");
    if L.len() != R.len() || L.len() >= 32 || (1usize << L.len()) != padded {
        return false;
    }
    cs.t.append_message(b"dom-sep", b"ipp v1");
    cs.t.append_u64(b"n", padded as u64);
    let mut us = vec![];
    for j in 0..L.len() {
        if L[j].is_zero() || R[j].is_zero() {
            return false;
        }
        t_point(&mut cs.t, b"L", &L[j]);
        t_point(&mut cs.t, b"R", &R[j]);
        us.push(t_chal::<FOf<G>>(&mut cs.t, b"u"));
    }
    let fl = flatten(&cs, z);
    let yinv = match y.inverse() {
        Some(v) => v,
        None => return false,
    };
    let yi = pows(yinv, padded);
    let xp = pows(x, 7);
    // (b)
    let delta: FOf<G> = (0..n).map(|i| yi[i] * fl.wR[i] * fl.wL[i]).sum();
    let mut rel_t: G::Group = B * (scs[0] - xp[2] * (fl.wc + delta)) + Bb * scs[1];
    for (j, V) in cs.V.iter().enumerate() {
        rel_t = rel_t - *V * (xp[2] * fl.wV[j]);
    }
    for (k, d) in [1usize, 3, 4, 5, 6].iter().enumerate() {
        rel_t = rel_t - pts[6 + k] * xp[*d];
    }
    if !rel_t.is_zero() {
        return false;
    }
    // (c)
    let one = FOf::<G>::one();
    let zero = FOf::<G>::zero();
    let g: Vec<FOf<G>> = (0..padded).map(|i| if i < n1 { one } else { u }).collect();
    let mut Gv: Vec<G::Group> = (0..padded).map(|i| Gs[i] * g[i]).collect();
    let mut Hv: Vec<G::Group> = (0..padded).map(|i| Hs[i] * (g[i] * yi[i])).collect();
    let mut P: G::Group = pts[0] * xp[1] + pts[1] * xp[2] + pts[2] * xp[3] + (pts[3] * xp[1] + pts[4] * xp[2] + pts[5] * xp[3]) * u - Bb * scs[2] + B * (w * scs[0]);
    for i in 0..padded {
        let (wl, wr, wo) = if i < n { (fl.wL[i], fl.wR[i], fl.wO[i]) } else { (zero, zero, zero) };
        P = P + Gv[i] * (x * yi[i] * wr) + Hs[i] * (g[i] * (yi[i] * (x * wl + wo) - one));
    }
    let mut len = padded;
    for (j, uj) in us.iter().enumerate() {
        let ui = match uj.inverse() {
            Some(v) => v,
            None => return false,
        };
        len /= 2;
        for i in 0..len {
            Gv[i] = Gv[i] * ui + Gv[len + i] * *uj;
            Hv[i] = Hv[i] * *uj + Hv[len + i] * ui;
        }
        P = P + L[j] * (*uj * *uj) + R[j] * (ui * ui);
    }
    let Q: G::Group = B * w;
    // the state the reference verifier hands back drives this follow-up challenge
    let mut tail = [0u8; 32];
    cs.t.challenge_bytes(b"verif-tail", &mut tail);
    REF_TAIL.with(|t| *t.borrow_mut() = Some(tail));
    (P - Gv[0] * pa - Hv[0] * pb - Q * (pa * pb)).is_zero()
}

thread_local! {
    /// follow-up challenge ("verif-tail", 32 bytes) of the most recent reference verification that reached its last step
    pub static REF_TAIL: RefCell<Option<[u8; 32]>> = RefCell::new(None);
}

/// Pinned generator derivation of the reference revision:
///   chain(label) = ChaCha20 seeded with the first 32 bytes of SHA3-512("GeneratorsChain" || label), points by G::rand;
///   G_j label = 'G' || LE32(j), H_j label = 'H' || LE32(j);  B = curve generator, Bblind = G::rand(ChaCha20(SHA3-512(uncompressed B)[..32])).
pub fn ref_generators<G: AffineRepr>(party: u32, n: usize) -> (Vec<G>, Vec<G>, G, G) {
    use sha3_compat::sha3_512;
    let chain = |tag: u8| -> Vec<G> {
        let mut input = b"GeneratorsChain".to_vec();
        input.push(tag);
        input.extend_from_slice(&party.to_le_bytes());
        let h = sha3_512(&input);
        let mut seed = [0u8; 32];
        seed.copy_from_slice(&h[..32]);
        let mut rng = rand_chacha::ChaChaRng::from_seed(seed);
        (0..n).map(|_| G::rand(&mut rng)).collect()
    };
    let B = G::generator();
    let mut bytes = vec![];
    B.serialize_uncompressed(&mut bytes).unwrap();
    let h = sha3_512(&bytes);
    let mut seed = [0u8; 32];
    seed.copy_from_slice(&h[..32]);
    let Bb = G::rand(&mut rand_chacha::ChaChaRng::from_seed(seed));
    (chain(b'G'), chain(b'H'), B, Bb)
}

mod sha3_compat {
    pub fn sha3_512(data: &[u8]) -> Vec<u8> {
        use sha3::{Digest, Sha3_512};
        let mut h = Sha3_512::new();
        h.update(data);
        h.finalize().to_vec()
    }
}
