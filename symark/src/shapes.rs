//! The enumerated circuit shapes (call skeletons).  Everything else is symbolic.
use crate::r1cs::Op::*;
use crate::r1cs::*;
use rand::Rng;
use rand_core::SeedableRng;

pub fn c01_shapes(thorough: bool, seed: u64) -> Vec<Shape> {
    let mut v = vec![
        Shape::new("empty", &[], &[]),
        Shape::new("zero_gates_committed_only", &[Commit, ConCommitted], &[]),
        Shape::new("zero_gates_const_only", &[ConConst], &[]),
        Shape::new("one_gate", &[Commit, AllocMul, Con], &[]),
        Shape::new("three_gates_pad4", &[Commit, AllocMul, Mul, AllocMul, Con, Con], &[]),
        Shape::new("phase2_only_gates", &[Commit, ConCommitted], &[&[Chal, AllocMul, Con]]),
        Shape::new("alloc_pair_plus_unpaired_tail", &[Alloc, Alloc, Alloc, Con], &[]),
        Shape::new("commit_after_constrain", &[AllocMul, Con, Commit, Con], &[]),
        Shape::new("two_phase_gates_both", &[Commit, AllocMul, Con], &[&[Chal, Mul, Con]]),
        Shape::new("pending_at_phase_end_then_alloc", &[Alloc], &[&[Alloc, Con]]),
        Shape::new("phase2_closure_without_gates", &[Commit, AllocMul], &[&[Chal, Con]]),
        {
            let mut s = Shape::new("user_transcript_data", &[Msg("a".into()), Commit, AllocMul, Msg("during".into()), Con], &[]);
            s.pre_msg = Some("before".into());
            s
        },
        Shape::new("two_closures", &[Commit, AllocMul], &[&[Chal, AllocMul], &[Chal, Con]]),
        {
            let mut s = Shape::new("mixed_literal_coefficients", &[Commit, Commit, AllocMul, Mul, Con, ConConst], &[]);
            s.coef = Coef::Mixed(seed.wrapping_add(11));
            s
        },
        Shape::new("phase2_unpaired_alloc_tail", &[Commit], &[&[Chal, Alloc, Con]]),
        Shape::new("two_commits_two_gates", &[Commit, Commit, AllocMul, Mul, Con], &[]),
        Shape::new("gate_between_paired_allocations", &[Alloc, AllocMul, Alloc, Con], &[]),
        Shape::new("identity_commitment_in_statement", &[Commit, CommitZero, AllocMul, Con, ConCommitted], &[]),
        Shape::new("gates_without_any_constraint", &[Commit, AllocMul, AllocMul], &[]),
        {
            let mut s = Shape::new("closure_registered_between_paired_allocations", &[Alloc, Alloc, Con], &[&[Chal, Con]]);
            s.register_at = Some(1);
            s
        },
        {
            let mut s = Shape::new("closure_registered_first", &[Commit, AllocMul, Alloc, Con], &[&[Chal, Alloc, Con]]);
            s.register_at = Some(0);
            s
        },
        {
            let mut s = Shape::new("mixed_literal_coefficients_two_phase", &[Commit, AllocMul, Con, Con], &[&[Chal, Mul, Con]]);
            s.coef = Coef::Mixed(seed.wrapping_add(29));
            s
        },
        {
            let mut s = Shape::new("literal_witness_values", &[Commit, Commit, AllocMul, AllocMul, Mul, Con, ConCommitted], &[&[Chal, AllocMul, Con]]);
            s.literal_witness = true;
            s
        },
        {
            let mut s = Shape::new("literal_witness_and_coefficients", &[Commit, AllocMul, Alloc, Alloc, Mul, Con, Con], &[]);
            s.literal_witness = true;
            s.coef = Coef::Mixed(seed.wrapping_add(41));
            s
        },
        Shape::new("empty_combination_constrained_first", &[Commit, AllocMul, ConEmpty, Con, Con], &[&[Chal, ConEmpty, Con]]),
        Shape::new("app_data_between_and_after_commitments", &[Commit, Msg("between".into()), Commit, Msg("after".into()), AllocMul, Con], &[]),
        Shape::new("pending_allocation_across_two_closures", &[Commit, AllocMul], &[&[Chal, Alloc], &[Alloc, Con]]),
        Shape::new("two_different_closures", &[Commit, AllocMul, Con], &[&[Chal, Mul, Con], &[Chal, Msg("second".into()), AllocMul, AllocMul, Con]]),
        // a constraint that names a committed variable before its commitment is made
        Shape::new("constraint_ahead_of_its_commitment", &[Commit, AllocMul, ConAhead, Commit, Con], &[]),
        Shape::new("gate_free_constraint_ahead_of_its_commitment", &[ConAhead, Commit, ConCommitted], &[]),
    ];
    if thorough {
        v.push(Shape::new("five_gates_pad8", &[Commit, AllocMul, AllocMul, Mul, Alloc, Alloc, Con], &[&[Chal, AllocMul, Con]]));
        v.push(Shape::new("eight_gates_exact", &[AllocMul, AllocMul, AllocMul, AllocMul, AllocMul, AllocMul, AllocMul, AllocMul, Con], &[]));
        v.push(Shape::new("phase2_growth_past_pow2", &[Commit, AllocMul, AllocMul], &[&[Chal, AllocMul, Con]]));
        v.push(Shape::new("pending_phase1_pair_phase2", &[AllocMul, Alloc], &[&[Chal, Alloc, Alloc, Con]]));
        // padded 16: the linear combinations are limited to 6 variables each to keep the terms small
        let mut big = Shape::new("eleven_gates_pad16", &[Commit, AllocMul, AllocMul, AllocMul, AllocMul, Mul, AllocMul, AllocMul, Alloc, Alloc, Con, Con], &[&[Chal, AllocMul, AllocMul, Mul, Con]]);
        big.lc_width = 6;
        v.push(big);
        let mut big2 = Shape::new("sixteen_gates_exact", &vec![AllocMul; 16], &[]);
        big2.phase1.push(Con);
        big2.lc_width = 8;
        v.push(big2);
        let mut rng = rand_chacha::ChaChaRng::seed_from_u64(seed ^ 0xc01);
        for k in 0..80 {
            v.push(random_shape(&mut rng, &format!("random{}", k), if k % 4 == 0 { 16 } else { 8 }));
        }
    } else {
        let mut rng = rand_chacha::ChaChaRng::seed_from_u64(seed ^ 0xc01);
        for k in 0..32 {
            v.push(random_shape(&mut rng, &format!("random{}", k), if k % 4 == 3 { 8 } else { 4 }));
        }
    }
    v
}

/// Seeded random call skeleton with at most `max_pad` padded gates.
pub fn random_shape(rng: &mut rand_chacha::ChaChaRng, name: &str, max_pad: usize) -> Shape {
    loop {
        let mut p1 = vec![];
        let n_ops = rng.gen_range(1..(if max_pad > 8 { 14 } else { 8 }));
        for _ in 0..n_ops {
            p1.push(match rng.gen_range(0..10) {
                0 => Commit,
                1 => if rng.gen_bool(0.85) { Commit } else { CommitZero },
                2 | 3 => AllocMul,
                4 => Alloc,
                5 => Mul,
                6 | 7 => Con,
                8 => ConCommitted,
                _ => Msg("m".into()),
            });
        }
        let mut p2: Vec<Vec<Op>> = vec![];
        let closures = rng.gen_range(0..3);
        for _ in 0..closures {
            let mut c = vec![];
            if rng.gen_bool(0.8) {
                c.push(Chal);
            }
            for _ in 0..rng.gen_range(0..4) {
                c.push(match rng.gen_range(0..6) {
                    0 => AllocMul,
                    1 => Alloc,
                    2 => Mul,
                    3 => Chal,
                    _ => Con,
                });
            }
            p2.push(c);
        }
        let refs: Vec<&[Op]> = p2.iter().map(|v| v.as_slice()).collect();
        let mut s = Shape::new(name, &p1, &refs);
        if rng.gen_bool(0.3) {
            s.coef = Coef::Mixed(rng.gen());
        }
        let (a, b) = s.gates();
        if (a + b).next_power_of_two() <= max_pad && a + b + s.commits() <= (if max_pad > 8 { 14 } else { 7 }) {
            if a + b + s.commits() > 7 {
                s.lc_width = 6;
            }
            return s;
        }
    }
}

fn n_explicit_cons(s: &Shape) -> usize {
    let f = |ops: &[Op]| ops.iter().filter(|o| matches!(o, Con | ConConst | ConCommitted | ConSum | ConEmpty | ConAhead | ConTree(_, _) | ConTreeConst(_, _))).count();
    f(&s.phase1) + s.phase2.iter().map(|p| f(p)).sum::<usize>()
}

/// every constraint and every gate position gets a symbolic error
pub fn all_errors(s: &Shape) -> ErrPlan {
    let (a, b) = s.gates();
    let mut gate = vec![];
    for g in 0..a + b {
        for w in 0..3u8 {
            gate.push((g, w));
        }
    }
    ErrPlan { con: (0..n_explicit_cons(s)).collect(), gate }
}

pub fn c02_cases(thorough: bool, seed: u64) -> Vec<(Shape, ErrPlan)> {
    let mut v: Vec<(Shape, ErrPlan)> = vec![];
    let mut single = |name: &str, p1: &[Op], p2: &[&[Op]], con: &[usize], gate: &[(usize, u8)]| {
        v.push((Shape::new(name, p1, p2), ErrPlan { con: con.to_vec(), gate: gate.to_vec() }));
    };
    single("linear_constraint", &[Commit, AllocMul, Con], &[], &[0], &[]);
    single("gate_output", &[Commit, AllocMul, Con], &[], &[], &[(0, 2)]);
    single("gate0_and_constraint0", &[Commit, AllocMul, Con], &[], &[0], &[(0, 2)]);
    single("committed_only_constraint", &[Commit, ConCommitted], &[], &[0], &[]);
    single("constant_only_constraint", &[ConConst], &[], &[0], &[]);
    single("multiply_left_input", &[Commit, AllocMul, Mul, Con], &[], &[], &[(1, 0)]);
    single("multiply_right_and_out", &[Commit, AllocMul, Mul, Con], &[], &[], &[(1, 1), (1, 2)]);
    single("phase2_constraint", &[Commit, AllocMul], &[&[Chal, Con]], &[0], &[]);
    single("phase2_gate", &[Commit, AllocMul, Con], &[&[Chal, AllocMul, Con]], &[], &[(1, 2)]);
    single("last_gate_before_padding", &[AllocMul, AllocMul, AllocMul, Con], &[], &[], &[(2, 2)]);
    single("half_allocated_gate_constraint", &[Alloc, Con], &[], &[0], &[]);
    single("alloc_pair_gate", &[Alloc, Alloc, Con], &[], &[], &[(0, 2)]);
    single("second_of_two_constraints", &[Commit, AllocMul, Con, Con], &[], &[1], &[]);
    single("gate_output_without_any_constraint", &[AllocMul, AllocMul], &[], &[], &[(1, 2)]);
    single("gate_output_only_commitment_no_constraint", &[Commit, AllocMul], &[], &[], &[(0, 2)]);
    // violations inside the FIRST of two registered closures
    single("constraint_in_first_of_two_closures", &[Commit, AllocMul, Con], &[&[Chal, Con], &[Chal, AllocMul]], &[1], &[]);
    single("gate_in_first_of_two_closures", &[Commit, AllocMul], &[&[Chal, AllocMul, Con], &[Chal, Con]], &[], &[(1, 2)]);
    // universal: all errors symbolic at once
    for s in [
        Shape::new("all_errors_one_gate", &[Commit, AllocMul, Con, ConCommitted], &[]),
        Shape::new("all_errors_two_phase", &[Commit, AllocMul, Mul, Con], &[&[Chal, AllocMul, Con]]),
    ] {
        let e = all_errors(&s);
        v.push((s, e));
    }
    // literal coefficient patterns (absent, 0, 1, -1, small, symbolic; constants 1 / -1 / 0) with every error symbolic:
    // a zero coefficient in front of further terms, unit coefficients, repeated variables
    for (k, (p1, p2)) in [
        (vec![Commit, Commit, AllocMul, Mul, Con, Con, ConCommitted], vec![vec![Chal, Con]]),
        (vec![Commit, AllocMul, Alloc, Alloc, Con, Con, Con, Con], vec![]),
        (vec![Commit, Commit, Commit, ConCommitted, ConCommitted, AllocMul, Con], vec![vec![Chal, AllocMul, Con, Con]]),
    ]
    .into_iter()
    .enumerate()
    {
        for rep in 0..2u64 {
            let refs: Vec<&[Op]> = p2.iter().map(|v| v.as_slice()).collect();
            let mut s = Shape::new(&format!("all_errors_mixed_literals_{}_{}", k, rep), &p1, &refs);
            s.coef = Coef::Mixed(seed.wrapping_mul(31).wrapping_add(100 + 10 * k as u64 + rep));
            let e = all_errors(&s);
            v.push((s, e));
        }
    }
    {
        for s in c01_shapes(thorough, seed) {
            let (a, b) = s.gates();
            if a + b == 0 && n_explicit_cons(&s) == 0 {
                continue;
            }
            let e = all_errors(&s);
            let mut s2 = s.clone();
            s2.name = format!("all_errors_{}", s.name);
            v.push((s2, e));
        }
    }
    v
}

pub fn c03_shapes(thorough: bool, seed: u64) -> Vec<Shape> {
    let mut v = vec![
        Shape::new("zero_gates", &[Commit, ConCommitted], &[]),
        Shape::new("one_gate", &[Commit, AllocMul, Con], &[]),
        Shape::new("two_gates_one_phase", &[Commit, AllocMul, Mul, Con], &[]),
        Shape::new("two_phase_1_plus_1", &[Commit, AllocMul, Con], &[&[Chal, AllocMul, Con]]),
        Shape::new("three_gates_pad4", &[Commit, Commit, AllocMul, Mul, Alloc, Con, Con], &[]),
        Shape::new("two_phase_pad4", &[Commit, AllocMul, AllocMul, Con], &[&[Chal, Mul, Con]]),
        Shape::new("phase2_only", &[Commit], &[&[Chal, AllocMul, AllocMul, Con]]),
        Shape::new("gates_without_any_constraint", &[Commit, AllocMul, AllocMul], &[]),
        Shape::new("identity_commitment", &[Commit, CommitZero, AllocMul, Con], &[]),
        Shape::new("two_different_closures", &[Commit, AllocMul, Con], &[&[Chal, Mul, Con], &[Chal, AllocMul, Con]]),
        Shape::new("equal_point_committed_twice", &[Commit, CommitDup, AllocMul, Con, ConCommitted], &[]),
        Shape::new("pending_allocation_then_closure_allocation", &[Commit, Alloc], &[&[Chal, Alloc, Con]]),
        Shape::new("empty_combination_first", &[Commit, AllocMul, ConEmpty, Con], &[]),
        Shape::new("closure_with_constraints_only", &[Commit, AllocMul, Con], &[&[Chal, Con, ConCommitted]]),
        Shape::new("gate_free_closure_with_constraints_only", &[Commit, Commit, ConCommitted], &[&[Chal, ConCommitted]]),
    ];
    if !thorough {
        let mut rng = rand_chacha::ChaChaRng::seed_from_u64(seed ^ 0xc03);
        for k in 0..12 {
            v.push(random_shape(&mut rng, &format!("random{}", k), if k % 4 == 3 { 8 } else { 4 }));
        }
    }
    if thorough {
        v.push(Shape::new("five_gates_pad8", &[Commit, AllocMul, AllocMul, Mul, Alloc, Alloc, Con], &[&[Chal, AllocMul, Con]]));
        v.push(Shape::new("eight_gates", &[AllocMul, AllocMul, AllocMul, AllocMul, AllocMul, AllocMul, AllocMul, AllocMul, Con], &[]));
        let mut rng = rand_chacha::ChaChaRng::seed_from_u64(seed ^ 0xc03);
        for k in 0..10 {
            v.push(random_shape(&mut rng, &format!("random{}", k), 8));
        }
        // every call sequence with <= 3 first-phase and <= 2 second-phase calls
        v.extend(exhaustive_skeletons(3, 2));
    }
    v
}

/// C15 pipeline: one-constraint circuits `expr - c` over committed and gate variables.
pub fn c15_pipeline_cases(thorough: bool, seed: u64) -> Vec<(Shape, ErrPlan)> {
    let mut v = vec![];
    let n = if thorough { 40 } else { 10 };
    for k in 0..n {
        let depth = 1 + (k % 3) as usize;
        let tseed = seed.wrapping_mul(1000).wrapping_add(k as u64);
        let p1: Vec<Op> = match k % 4 {
            // every other case of this arm: an expression without any variable leaf, as the only or the first constraint
            0 if k % 8 == 4 => vec![ConTreeConst(tseed, depth + 1)],
            0 if k % 16 == 8 => vec![Commit, AllocMul, ConTreeConst(tseed, depth + 1), ConTree(tseed + 1, 1)],
            0 => vec![Commit, Commit, AllocMul, ConTree(tseed, depth)],
            1 => vec![Commit, AllocMul, Alloc, Alloc, ConTree(tseed, depth)],
            2 => vec![Commit, Commit, AllocMul, MulTree(tseed, depth), ConTree(tseed + 1, 1)],
            _ => vec![Commit, AllocMul, MulTree(tseed, depth), Con],
        };
        // accept case (c is the value) and reject case (c is off by a symbolic non-zero amount)
        v.push((Shape::new(&format!("tree{}_accept", k), &p1, &[]), ErrPlan::default()));
        v.push((Shape::new(&format!("tree{}_offset", k), &p1, &[]), ErrPlan { con: vec![0], gate: vec![] }));
    }
    v
}

pub fn c06_shapes(thorough: bool, seed: u64) -> Vec<Shape> {
    let mut v = c01_shapes(thorough, seed);
    // a commitment that is the identity point (commit(0,0)) must still be absorbed
    v.push(Shape::new("identity_commitment", &[Commit, CommitZero, Commit, AllocMul, Con], &[]));
    v.push(Shape::new("equal_point_committed_twice", &[Commit, CommitDup, AllocMul, Con, CommitDup], &[]));
    v.push(Shape::new("repeated_challenge_labels_and_late_data", &[Commit, AllocMul], &[&[Chal, Con, Chal, Msg("x".into()), Con, Msg("after the last challenge".into())], &[Chal, Con, Msg("y".into())]]));
    v.push(Shape::new("closure_with_constraints_only", &[Commit, AllocMul, Con], &[&[Chal, Con, ConCommitted]]));
    if thorough {
        // every call sequence with <= 3 first-phase and <= 2 second-phase calls
        v.extend(exhaustive_skeletons(3, 2));
    }
    v
}

/// Every call sequence over {Commit, AllocMul, Alloc, Mul, Con} with at most `max1` first-phase calls,
/// followed by no closure or one closure with at most `max2` calls over {Chal, Alloc, Mul, Con}.
pub fn exhaustive_skeletons(max1: usize, max2: usize) -> Vec<Shape> {
    fn seqs(alpha: &[Op], max: usize) -> Vec<Vec<Op>> {
        let mut out = vec![vec![]];
        let mut frontier: Vec<Vec<Op>> = vec![vec![]];
        for _ in 0..max {
            let mut next = vec![];
            for s in frontier.iter() {
                for o in alpha {
                    let mut t = s.clone();
                    t.push(o.clone());
                    next.push(t);
                }
            }
            out.extend(next.iter().cloned());
            frontier = next;
        }
        out
    }
    let a1 = [Commit, AllocMul, Alloc, Mul, Con];
    let a2 = [Chal, Alloc, Mul, Con];
    let mut v = vec![];
    for (i, p1) in seqs(&a1, max1).iter().enumerate() {
        for (j, p2) in seqs(&a2, max2).iter().enumerate() {
            let refs: Vec<&[Op]> = if j == 0 { vec![] } else { vec![p2.as_slice()] };
            v.push(Shape::new(&format!("exh_{}_{}", i, j), p1, &refs));
        }
    }
    v
}
