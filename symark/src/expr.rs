//! C15: expression trees over the linear-combination operators.  A tree is built twice: through
//! the repo's real operator impls (giving a `LinearCombination`) and by this file's own
//! recursive evaluator / flattener (the reference meaning).
use ark_bulletproofs::r1cs::{LinearCombination, Variable};
use ark_ff::PrimeField;
use rand::Rng;

#[derive(Clone, Debug)]
pub enum E<F> {
    Var(usize),
    Const(F),
    Add(Box<E<F>>, Box<E<F>>),
    Sub(Box<E<F>>, Box<E<F>>),
    Neg(Box<E<F>>),
    Scale(Box<E<F>>, F),
    VarScale(usize, F),
    FromIter(Vec<(usize, F)>, bool),
    VarAdd(usize, Box<E<F>>),
    VarSub(usize, Box<E<F>>),
    VarNeg(usize),
    /// lc + variable (the `Into<LinearCombination>` path for a bare variable)
    AddVar(Box<E<F>>, usize),
    /// lc - constant (the `Into<LinearCombination>` path for a field element)
    SubConst(Box<E<F>>, F),
    /// the combination without any term (`LinearCombination::default()`, an empty accumulator)
    Empty,
}

pub fn show<F: core::fmt::Debug>(e: &E<F>) -> String {
    match e {
        E::Var(i) => format!("x{}", i),
        E::Const(_) => "k".into(),
        E::Add(a, b) => format!("({} + {})", show(a), show(b)),
        E::Sub(a, b) => format!("({} - {})", show(a), show(b)),
        E::Neg(a) => format!("-{}", show(a)),
        E::Scale(a, _) => format!("{}*s", show(a)),
        E::VarScale(i, _) => format!("x{}*s", i),
        E::FromIter(t, r) => format!("from_iter{}[{}]", if *r { "_ref" } else { "" }, t.iter().map(|(i, _)| format!("x{}", i)).collect::<Vec<_>>().join(",")),
        E::VarAdd(i, a) => format!("(x{} + {})", i, show(a)),
        E::VarSub(i, a) => format!("(x{} - {})", i, show(a)),
        E::VarNeg(i) => format!("-x{}", i),
        E::AddVar(a, i) => format!("({} + x{})", show(a), i),
        E::SubConst(a, _) => format!("({} - k)", show(a)),
        E::Empty => "empty".into(),
    }
}

/// Build through the real operators.  `vars[i]` is the handle of variable i; index `usize::MAX`
/// never occurs.
pub fn build<F: PrimeField>(e: &E<F>, vars: &[Variable<F>]) -> LinearCombination<F> {
    match e {
        E::Var(i) => LinearCombination::from(vars[*i]),
        E::Const(c) => LinearCombination::from(*c),
        E::Add(a, b) => build(a, vars) + build(b, vars),
        E::Sub(a, b) => build(a, vars) - build(b, vars),
        E::Neg(a) => -build(a, vars),
        E::Scale(a, s) => build(a, vars) * *s,
        E::VarScale(i, s) => vars[*i] * *s,
        E::FromIter(t, by_ref) => {
            let terms: Vec<(Variable<F>, F)> = t.iter().map(|(i, c)| (vars[*i], *c)).collect();
            if *by_ref {
                terms.iter().collect()
            } else {
                terms.into_iter().collect()
            }
        }
        E::VarAdd(i, a) => vars[*i] + build(a, vars),
        E::VarSub(i, a) => vars[*i] - build(a, vars),
        E::VarNeg(i) => -vars[*i],
        E::AddVar(a, i) => build(a, vars) + vars[*i],
        E::SubConst(a, c) => build(a, vars) - *c,
        E::Empty => LinearCombination::default(),
    }
}

/// Reference meaning: value under the assignment `vals`.
pub fn eval<F: PrimeField>(e: &E<F>, vals: &[F]) -> F {
    match e {
        E::Var(i) => vals[*i],
        E::Const(c) => *c,
        E::Add(a, b) => eval(a, vals) + eval(b, vals),
        E::Sub(a, b) => eval(a, vals) - eval(b, vals),
        E::Neg(a) => -eval(a, vals),
        E::Scale(a, s) => eval(a, vals) * *s,
        E::VarScale(i, s) => vals[*i] * *s,
        E::FromIter(t, _) => t.iter().map(|(i, c)| vals[*i] * *c).sum(),
        E::VarAdd(i, a) => vals[*i] + eval(a, vals),
        E::VarSub(i, a) => vals[*i] - eval(a, vals),
        E::VarNeg(i) => -vals[*i],
        E::AddVar(a, i) => eval(a, vals) + vals[*i],
        E::SubConst(a, c) => eval(a, vals) - *c,
        E::Empty => F::zero(),
    }
}

/// Reference flattening: coefficient of every variable (dense) and the constant.
pub fn flatten<F: PrimeField>(e: &E<F>, nvars: usize) -> (Vec<F>, F) {
    let z = || (vec![F::zero(); nvars], F::zero());
    let addv = |a: (Vec<F>, F), b: (Vec<F>, F), s: F| -> (Vec<F>, F) { (a.0.iter().zip(b.0.iter()).map(|(x, y)| *x + s * y).collect(), a.1 + s * b.1) };
    let unit = |i: usize, c: F| -> (Vec<F>, F) {
        let mut v = z();
        v.0[i] = c;
        v
    };
    match e {
        E::Var(i) => unit(*i, F::one()),
        E::Const(c) => (vec![F::zero(); nvars], *c),
        E::Add(a, b) => addv(flatten(a, nvars), flatten(b, nvars), F::one()),
        E::Sub(a, b) => addv(flatten(a, nvars), flatten(b, nvars), -F::one()),
        E::Neg(a) => addv(z(), flatten(a, nvars), -F::one()),
        E::Scale(a, s) => addv(z(), flatten(a, nvars), *s),
        E::VarScale(i, s) => unit(*i, *s),
        E::FromIter(t, _) => {
            let mut v = z();
            for (i, c) in t {
                v.0[*i] += c;
            }
            v
        }
        E::VarAdd(i, a) => addv(unit(*i, F::one()), flatten(a, nvars), F::one()),
        E::VarSub(i, a) => addv(unit(*i, F::one()), flatten(a, nvars), -F::one()),
        E::VarNeg(i) => unit(*i, -F::one()),
        E::AddVar(a, i) => addv(flatten(a, nvars), unit(*i, F::one()), F::one()),
        E::SubConst(a, c) => {
            let mut v = flatten(a, nvars);
            v.1 -= c;
            v
        }
        E::Empty => z(),
    }
}

/// Seeded random tree.  `coef` hands out coefficients (symbolic or literal 0 / 1 / -1 / small).
pub fn random_tree<F: PrimeField>(rng: &mut rand_chacha::ChaChaRng, nvars: usize, depth: usize, coef: &mut dyn FnMut(&mut rand_chacha::ChaChaRng) -> F) -> E<F> {
    let var = |rng: &mut rand_chacha::ChaChaRng| rng.gen_range(0..nvars);
    if nvars == 0 && depth > 0 {
        // no variable leaf: constants combined with the operators that do not need a variable
        let l = Box::new(random_tree(rng, 0, depth - 1, coef));
        return match rng.gen_range(0..6) {
            0 => E::Add(l, Box::new(random_tree(rng, 0, depth - 1, coef))),
            1 => E::Sub(l, Box::new(random_tree(rng, 0, depth - 1, coef))),
            2 => E::Neg(l),
            3 => E::Scale(l, coef(rng)),
            4 => E::SubConst(l, coef(rng)),
            _ => E::Add(l, Box::new(E::Const(coef(rng)))),
        };
    }
    if depth == 0 || nvars == 0 {
        return match rng.gen_range(0..5) {
            0 if nvars > 0 => E::Var(var(rng)),
            1 if nvars > 0 => E::VarScale(var(rng), coef(rng)),
            2 if nvars > 0 => E::VarNeg(var(rng)),
            3 if nvars > 0 => {
                let k = rng.gen_range(0..4);
                // repeated variables and repeated identical terms are likely with few variables
                let v0 = var(rng);
                let c0 = coef(rng);
                let mut t: Vec<(usize, F)> = vec![];
                for j in 0..k {
                    if j % 2 == 0 {
                        t.push((v0, c0));
                    } else {
                        t.push((var(rng), coef(rng)));
                    }
                }
                if rng.gen_bool(0.5) {
                    // the same variable in adjacent positions with different coefficients
                    let c1 = coef(rng);
                    let c2 = coef(rng);
                    t.push((v0, c1));
                    t.push((v0, c2));
                }
                E::FromIter(t, rng.gen_bool(0.5))
            }
            _ => E::Const(coef(rng)),
        };
    }
    let sub = |rng: &mut rand_chacha::ChaChaRng, coef: &mut dyn FnMut(&mut rand_chacha::ChaChaRng) -> F| Box::new(random_tree(rng, nvars, depth - 1, coef));
    match rng.gen_range(0..13) {
        // an empty accumulator as the left operand of - and of +, and as the right operand of -
        11 => {
            if rng.gen_bool(0.6) {
                E::Sub(Box::new(E::Empty), sub(rng, coef))
            } else {
                E::Add(Box::new(E::Empty), sub(rng, coef))
            }
        }
        12 => E::Sub(sub(rng, coef), Box::new(E::Empty)),
        0 => E::Add(sub(rng, coef), sub(rng, coef)),
        1 => E::Sub(sub(rng, coef), sub(rng, coef)),
        2 => E::Neg(sub(rng, coef)),
        3 => {
            let s = coef(rng);
            E::Scale(sub(rng, coef), s)
        }
        4 => E::VarAdd(var(rng), sub(rng, coef)),
        5 => E::VarSub(var(rng), sub(rng, coef)),
        6 => E::AddVar(sub(rng, coef), var(rng)),
        7 => {
            let c = coef(rng);
            E::SubConst(sub(rng, coef), c)
        }
        8 => {
            // (e + e) - e : subtracting a term that is present more than once
            let e = sub(rng, coef);
            E::Sub(Box::new(E::Add(e.clone(), e.clone())), e)
        }
        9 => {
            // e + 0*x + e' : a zero coefficient that is not last
            let z = E::VarScale(var(rng), F::zero());
            E::Add(Box::new(E::Add(sub(rng, coef), Box::new(z))), sub(rng, coef))
        }
        _ => E::Add(sub(rng, coef), Box::new(E::Const(coef(rng)))),
    }
}
