//! C10: the inner-product argument, through the guarded re-export; C13: Pedersen commitments.
#![allow(non_snake_case)]
use crate::arena::{self, Lin};
use crate::field::{Inner, SymF};
use crate::group::{Base, SymA, SymP};
use crate::job::*;
use crate::r1cs::Vals;
use crate::scen_r1cs::{chals_in, describe_events, events_in};
use ark_bulletproofs::verif_hooks::InnerProductProof;
use ark_bulletproofs::{BulletproofGens, PedersenGens};
use ark_ec::{AffineRepr, CurveGroup, VariableBaseMSM};
use ark_ff::{Field, One, UniformRand, Zero};
use merlin::Transcript;
use rand_core::SeedableRng;
use serde::{Deserialize, Serialize};
use std::collections::BTreeMap;

#[derive(Clone, Debug, Serialize, Deserialize)]
pub struct IppCase {
    pub name: String,
    pub k: usize,
    /// "sym" | "unit" (literal 1) factors
    pub g_factors: String,
    pub h_factors: String,
    /// entry pattern of a and b: 's' symbolic, '0', '1' literal (cycled over the length)
    pub a_pat: String,
    pub b_pat: String,
    /// what to do with the honest proof: "honest", "adversarial", "degenerate"
    pub mode: String,
}

fn pat_vec<F0: Inner>(pat: &str, n: usize, vals: &mut dyn Vals<SymF<F0>>, kind: &str) -> Vec<SymF<F0>> {
    let p: Vec<char> = pat.chars().collect();
    (0..n)
        .map(|i| match p[i % p.len()] {
            '0' => SymF::zero(),
            '1' => SymF::one(),
            _ => vals.fresh(kind),
        })
        .collect()
}

fn fresh_point<C: Base>(rng: &mut rand_chacha::ChaChaRng, name: &str) -> SymA<C>
where
    C::ScalarField: Inner,
{
    let p = SymA::concrete(C::Group::rand(rng).into_affine());
    p.name_basis(name);
    p
}

/// Reference verdict by explicit folding (protocol description):
///   G'_i = g_i G_i, H'_i = h_i H_i; per round j with challenge u_j:
///   G' <- u_j^-1 G'_lo + u_j G'_hi,  H' <- u_j H'_lo + u_j^-1 H'_hi,  P <- u_j^2 L_j + P + u_j^-2 R_j;
///   residual := P - a G'_0 - b H'_0 - a b Q.
pub fn fold_residual<G: AffineRepr>(P: &G, Q: &G, Gs: &[G], Hs: &[G], gf: &[G::ScalarField], hf: &[G::ScalarField], L: &[G], R: &[G], a: G::ScalarField, b: G::ScalarField, us: &[G::ScalarField]) -> G::Group {
    let n = Gs.len();
    let mut Gv: Vec<G::Group> = (0..n).map(|i| Gs[i] * gf[i]).collect();
    let mut Hv: Vec<G::Group> = (0..n).map(|i| Hs[i] * hf[i]).collect();
    let mut Pacc: G::Group = (*P).into();
    let mut len = n;
    for (j, u) in us.iter().enumerate() {
        let ui = u.inverse().unwrap();
        len /= 2;
        let (mut Gn, mut Hn) = (vec![], vec![]);
        for i in 0..len {
            Gn.push(Gv[i] * ui + Gv[len + i] * *u);
            Hn.push(Hv[i] * *u + Hv[len + i] * ui);
        }
        Gv = Gn;
        Hv = Hn;
        Pacc = Pacc + L[j] * (*u * *u) + R[j] * (ui * ui);
    }
    Pacc - Gv[0] * a - Hv[0] * b - *Q * (a * b)
}

pub fn job_c10<C: Base + 'static>(case: &IppCase, seed: u64, curve: &str) -> Job
where
    C::ScalarField: Inner,
{
    arena::reset();
    arena::set_ctx("setup");
    let mut job = Job { property: "C10".into(), scenario: format!("C10:{}:{}", case.name, curve), curve: curve.into(), seed, shape: serde_json::to_value(case).unwrap(), ..Default::default() };
    let n = 1usize << case.k;
    let mut rng = rand_chacha::ChaChaRng::seed_from_u64(seed ^ 0xc10);
    let bp = BulletproofGens::<SymA<C>>::new(n, 1);
    let Gs = bp.share(0).verif_G(n);
    let Hs = bp.share(0).verif_H(n);
    for (i, g) in Gs.iter().enumerate() {
        g.name_basis(&format!("G{}", i));
    }
    for (i, h) in Hs.iter().enumerate() {
        h.name_basis(&format!("H{}", i));
    }
    let Q = fresh_point::<C>(&mut rng, "Q");
    let mut vals = SymVals::<C::ScalarField>::new(seed);
    let gf: Vec<SymF<C::ScalarField>> = factor_vec(&case.g_factors, n, &mut vals, "gf");
    let hf: Vec<SymF<C::ScalarField>> = factor_vec(&case.h_factors, n, &mut vals, "hf");
    let a = pat_vec(&case.a_pat, n, &mut vals, "a");
    let b = pat_vec(&case.b_pat, n, &mut vals, "b");
    // P = <a, G'> + <b, H'> + <a,b> Q   (computed by the harness)
    let c: SymF<C::ScalarField> = a.iter().zip(b.iter()).map(|(x, y)| *x * *y).sum();
    let mut bases: Vec<SymA<C>> = vec![];
    let mut scal: Vec<SymF<C::ScalarField>> = vec![];
    for i in 0..n {
        bases.push(Gs[i]);
        scal.push(a[i] * gf[i]);
        bases.push(Hs[i]);
        scal.push(b[i] * hf[i]);
    }
    bases.push(Q);
    scal.push(c);
    let P: SymA<C> = SymP::<C>::msm(&bases, &scal).unwrap().into_affine();
    job.params = serde_json::json!({"n": n, "k": case.k});
    arena::set_ctx("create");
    let mut pt = Transcript::new(b"ipp-verif");
    let proof = InnerProductProof::create(&mut pt, &Q, &gf, &hf, Gs.clone(), Hs.clone(), a.clone(), b.clone());
    let (L, R, pa, pb) = {
        let (l, r, x, y) = proof.verif_parts();
        (l.to_vec(), r.to_vec(), x, y)
    };
    job.check("the proof has exactly k rounds", L.len() == case.k && R.len() == case.k, format!("|L|={} |R|={} k={}", L.len(), R.len(), case.k));
    arena::set_ctx("post");
    let zero_lin: Lin = BTreeMap::new();
    match case.mode.as_str() {
        "honest" => {
            arena::set_ctx("verify");
            let log0 = merlin::vlog::len();
            let mut vt = Transcript::new(b"ipp-verif");
            let res = proof.verify(n, &mut vt, gf.iter(), hf.iter(), &P, &Q, &Gs, &Hs);
            arena::set_ctx("post");
            // every round challenge is squeezed after that round's L and R (full encodings) were absorbed
            {
                let ev = merlin::vlog::since(log0);
                let ops: Vec<&merlin::vlog::Event> = ev.iter().filter(|e| (e.op == "append" || e.op == "challenge") && !(e.op == "append" && e.label == b"dom-sep" && e.data == b"ipp-verif")).collect();
                let enc = |p: &SymA<C>| -> Vec<u8> { let mut b = vec![]; ark_serialize::CanonicalSerialize::serialize_uncompressed(&p.p, &mut b).unwrap(); b };
                let mut ok = ops.len() == 2 + 3 * case.k;
                if ok {
                    ok &= ops[0].op == "append" && ops[1].op == "append" && ops[1].data == (n as u64).to_le_bytes().to_vec();
                    for j in 0..case.k {
                        ok &= ops[2 + 3 * j].op == "append" && ops[2 + 3 * j].data == enc(&L[j]);
                        ok &= ops[3 + 3 * j].op == "append" && ops[3 + 3 * j].data == enc(&R[j]);
                        ok &= ops[4 + 3 * j].op == "challenge" && ops[4 + 3 * j].data.len() == 32;
                    }
                }
                job.check("verifier transcript: separator, length, then per round L_j, R_j (full encodings) before the round challenge", ok, format!("{} operations for {} rounds", ops.len(), case.k));
            }
            job.concrete = serde_json::json!({"verify_ok": res.is_ok(), "expected": true});
            job.check("concrete verdict: honest proof accepted", res.is_ok(), format!("{:?}", res));
            {
                // the verifier's transcript is left in the prover's state (a later draw from it binds the opening)
                let (mut fa, mut fb) = ([0u8; 32], [0u8; 32]);
                pt.challenge_bytes(b"follow-up", &mut fa);
                vt.challenge_bytes(b"follow-up", &mut fb);
                job.check("after create / verify the two transcripts give the same follow-up challenge", fa == fb, String::new());
            }
            let evs = events_in("verify");
            match evs.iter().rev().find(|e| e.kind == "peq") {
                Some(e) => {
                    let items = lin_eq_items("expect_P-P", &e.lin, &zero_lin);
                    job.groups.push(identity_group("ipp_completeness", "I", "for all vectors a, b, all factor vectors and all round challenges, expect_P - P is the identity (all coefficients over Q, G_i, H_i vanish): the proof created for (a,b) verifies against P = <a,G'> + <b,H'> + <a,b>Q", items));
                }
                None => job.inconclusive.push("no point-equality event in verify".into()),
            }
            // explicit-folding oracle on the honest proof: residual must vanish too
            let us: Vec<SymF<C::ScalarField>> = chals_in::<C::ScalarField>("verify").into_iter().map(|c| c.1).collect();
            if us.len() == case.k {
                let want = fold_residual(&P, &Q, &Gs, &Hs, &gf, &hf, &L, &R, pa, pb, &us);
                let items = lin_eq_items("fold_residual", &want.lin(), &zero_lin);
                job.groups.push(identity_group("ipp_fold_oracle_accepts_honest", "I", "explicitly folding the generators with the transcript challenges accepts the created proof (oracle-side completeness, validates the oracle)", items));
            }
            // length mismatch: claimed n that does not match the rounds -> Err (enumerated)
            for bad in [0usize, n / 2, 2 * n, n + 1, if n > 2 { n - 1 } else { 3 }] {
                if bad == n {
                    continue;
                }
                arena::set_ctx("verify_badlen");
                let mut vt = Transcript::new(b"ipp-verif");
                let gfi = vec![SymF::<C::ScalarField>::one(); bad.max(1)];
                let r2 = proof.verif_verification_scalars(bad, &mut vt);
                let _ = gfi;
                job.check(&format!("claimed length {} with {} rounds is rejected", bad, case.k), r2.is_err(), String::new());
            }
            arena::set_ctx("post");
        }
        "adversarial" => {
            // arbitrary proof object: L_j, R_j independent symbols, a, b free; P an independent symbol
            let Ls: Vec<SymA<C>> = (0..case.k).map(|j| fresh_point::<C>(&mut rng, &format!("L{}", j))).collect();
            let Rs: Vec<SymA<C>> = (0..case.k).map(|j| fresh_point::<C>(&mut rng, &format!("R{}", j))).collect();
            let (fa, fb) = (vals.fresh("p_a"), vals.fresh("p_b"));
            let Pp = fresh_point::<C>(&mut rng, "P");
            let adv = InnerProductProof::verif_from_parts(Ls.clone(), Rs.clone(), fa, fb);
            arena::set_ctx("verify");
            let mut vt = Transcript::new(b"ipp-verif");
            let res = adv.verify(n, &mut vt, gf.iter(), hf.iter(), &Pp, &Q, &Gs, &Hs);
            arena::set_ctx("post");
            job.concrete = serde_json::json!({"verify_ok": res.is_ok(), "expected": false});
            let evs = events_in("verify");
            let us: Vec<SymF<C::ScalarField>> = chals_in::<C::ScalarField>("verify").into_iter().map(|c| c.1).collect();
            match evs.iter().rev().find(|e| e.kind == "peq") {
                Some(e) if us.len() == case.k => {
                    let want = fold_residual(&Pp, &Q, &Gs, &Hs, &gf, &hf, &Ls, &Rs, fa, fb, &us);
                    // verify tests expect_P == P, i.e. expect_P - P; the oracle residual is P_folded - (...) = -(expect_P - P)
                    let neg: SymP<C> = SymP::<C>::zero() - want;
                    let items = lin_eq_items("expect_P-P", &e.lin, &neg.lin());
                    job.groups.push(identity_group("ipp_verdict_equals_explicit_folding", "I", "for every proof object (L_j, R_j, a, b arbitrary), every P and all factors, verify's tested difference equals minus the explicit-folding residual, coefficient-wise over P, Q, G_i, H_i, L_j, R_j: the verdicts coincide", items));
                    job.check("oracle shadow verdict agrees", want.p.is_zero() == res.is_ok(), String::new());
                }
                _ => job.inconclusive.push("no point-equality event / challenge count mismatch".into()),
            }
        }
        "degenerate" => {
            // a round whose cross term is the identity: create emits it, verify rejects it by design
            let identity_rounds: Vec<usize> = L.iter().zip(R.iter()).enumerate().filter(|(_, (l, r))| l.p.is_zero() || r.p.is_zero()).map(|(j, _)| j).collect();
            job.check("the degenerate instance really has an identity cross term", !identity_rounds.is_empty(), format!("{:?}", identity_rounds));
            arena::set_ctx("verify");
            let mut vt = Transcript::new(b"ipp-verif");
            let res = proof.verify(n, &mut vt, gf.iter(), hf.iter(), &P, &Q, &Gs, &Hs);
            arena::set_ctx("post");
            job.concrete = serde_json::json!({"verify_ok": res.is_ok(), "expected": false});
            job.check("identity cross term is rejected by design", res.is_err(), format!("{:?}", res));
        }
        m => job.inconclusive.push(format!("unknown mode {}", m)),
    }
    let mut evs = events_in("create");
    evs.extend(events_in("verify"));
    job.path_conditions = describe_events(&evs);
    arena::with(|a| {
        if !a.opaque.is_empty() {
            job.inconclusive.push(format!("opaque constants: {:?}", &a.opaque[..a.opaque.len().min(3)]));
        }
    });
    job.stats = stats();
    job.replay = serde_json::json!({"kind": "c10", "case": case, "seed": seed});
    job
}

/// generator scaling factors by pattern: "unit" all ones, "sym" all fresh, "lo1" / "hi1" ones in the lower /
/// upper half, "q1" ones in the first quarter, "alt1" ones at even positions, "r1cs" ones in the first quarter
/// and ONE shared fresh value everywhere else (the shape the R1CS prover passes: [1; n1] ++ [u; n2 + pad])
pub fn factor_vec<F: ark_ff::Field>(pat: &str, n: usize, vals: &mut dyn Vals<F>, kind: &str) -> Vec<F> {
    let shared = if pat == "r1cs" { Some(vals.fresh(kind)) } else { None };
    (0..n)
        .map(|i| {
            let one = match pat {
                "unit" => true,
                "lo1" => i < n / 2,
                "hi1" => i >= n / 2,
                "q1" | "r1cs" => i < (n / 4).max(1),
                "alt1" => i % 2 == 0,
                // the two ends of each half are one, the interior is not
                "ends1" => i == 0 || i + 1 == n / 2 || i == n / 2 || i + 1 == n,
                _ => false,
            };
            if one { F::one() } else if let Some(s) = shared { s } else { vals.fresh(kind) }
        })
        .collect()
}

pub fn c10_cases(thorough: bool) -> Vec<IppCase> {
    let mut v = vec![];
    let kmax_h = if thorough { 7 } else { 3 };
    for k in 0..=kmax_h {
        v.push(IppCase { name: format!("honest_k{}_symfactors", k), k, g_factors: "sym".into(), h_factors: "sym".into(), a_pat: "s".into(), b_pat: "s".into(), mode: "honest".into() });
    }
    for k in 0..=(if thorough { 7 } else { 4 }) {
        v.push(IppCase { name: format!("adversarial_k{}", k), k, g_factors: "sym".into(), h_factors: "sym".into(), a_pat: "s".into(), b_pat: "s".into(), mode: "adversarial".into() });
    }
    v.push(IppCase { name: "honest_k2_unit_g".into(), k: 2, g_factors: "unit".into(), h_factors: "sym".into(), a_pat: "s".into(), b_pat: "s".into(), mode: "honest".into() });
    v.push(IppCase { name: "honest_k2_sparse".into(), k: 2, g_factors: "sym".into(), h_factors: "sym".into(), a_pat: "s0s1".into(), b_pat: "1s0s".into(), mode: "honest".into() });
    v.push(IppCase { name: "honest_k3_ones_zeros".into(), k: 3, g_factors: "sym".into(), h_factors: "unit".into(), a_pat: "s1s0s".into(), b_pat: "0s1".into(), mode: "honest".into() });
    v.push(IppCase { name: "honest_k1_a_all_zero".into(), k: 1, g_factors: "sym".into(), h_factors: "sym".into(), a_pat: "0".into(), b_pat: "s".into(), mode: "honest".into() });
    v.push(IppCase { name: "honest_k2_b_all_zero".into(), k: 2, g_factors: "sym".into(), h_factors: "unit".into(), a_pat: "s".into(), b_pat: "0".into(), mode: "honest".into() });
    // sparse left vectors on n = 8, 16: zero at i, i+n/4, i+n/2, i+3n/4 for some i (no cross term degenerates: b is dense)
    v.push(IppCase { name: "honest_k3_unit_vector_a".into(), k: 3, g_factors: "sym".into(), h_factors: "sym".into(), a_pat: "s0000000".into(), b_pat: "s".into(), mode: "honest".into() });
    v.push(IppCase { name: "honest_k3_a_every_fourth".into(), k: 3, g_factors: "sym".into(), h_factors: "unit".into(), a_pat: "s000".into(), b_pat: "s".into(), mode: "honest".into() });
    v.push(IppCase { name: "honest_k4_a_odd_positions_b_every_fourth".into(), k: 4, g_factors: "unit".into(), h_factors: "sym".into(), a_pat: "0s".into(), b_pat: "sss0".into(), mode: "honest".into() });
    v.push(IppCase { name: "honest_k3_unit_vector_b".into(), k: 3, g_factors: "sym".into(), h_factors: "sym".into(), a_pat: "s".into(), b_pat: "0000000s".into(), mode: "honest".into() });
    // factor vectors that are one on part of the positions only
    for (k, gp, hp) in [(2usize, "lo1", "sym"), (2, "hi1", "lo1"), (3, "q1", "hi1"), (3, "r1cs", "sym"), (2, "r1cs", "r1cs"), (3, "alt1", "q1"), (1, "lo1", "hi1"), (0, "sym", "unit"), (0, "unit", "sym")] {
        v.push(IppCase { name: format!("honest_k{}_factors_{}_{}", k, gp, hp), k, g_factors: gp.into(), h_factors: hp.into(), a_pat: "s".into(), b_pat: "s".into(), mode: "honest".into() });
    }
    v.push(IppCase { name: "honest_k3_factors_ends1_sym".into(), k: 3, g_factors: "ends1".into(), h_factors: "sym".into(), a_pat: "s".into(), b_pat: "s".into(), mode: "honest".into() });
    v.push(IppCase { name: "honest_k4_factors_sym_ends1".into(), k: 4, g_factors: "sym".into(), h_factors: "ends1".into(), a_pat: "s".into(), b_pat: "s".into(), mode: "honest".into() });
    // exactly one of the two cross terms of a round vanishes (no round point is the identity)
    for (k, ap, bp) in [(1usize, "0s", "s"), (1, "s0", "s"), (1, "s", "0s"), (2, "00ss", "s"), (2, "s", "ss00"), (2, "s", "s0s0"), (3, "s", "0s")] {
        v.push(IppCase { name: format!("honest_k{}_one_cross_term_zero_a{}_b{}", k, ap, bp), k, g_factors: "sym".into(), h_factors: "sym".into(), a_pat: ap.into(), b_pat: bp.into(), mode: "honest".into() });
    }
    v.push(IppCase { name: "adversarial_k2_factors_lo1_hi1".into(), k: 2, g_factors: "lo1".into(), h_factors: "hi1".into(), a_pat: "s".into(), b_pat: "s".into(), mode: "adversarial".into() });
    v.push(IppCase { name: "degenerate_k2_L_identity".into(), k: 2, g_factors: "sym".into(), h_factors: "sym".into(), a_pat: "00ss".into(), b_pat: "ss00".into(), mode: "degenerate".into() });
    v.push(IppCase { name: "degenerate_k1_R_identity".into(), k: 1, g_factors: "sym".into(), h_factors: "sym".into(), a_pat: "s0".into(), b_pat: "0s".into(), mode: "degenerate".into() });
    if thorough {
        v.push(IppCase { name: "honest_k4_sparse".into(), k: 4, g_factors: "sym".into(), h_factors: "sym".into(), a_pat: "s0s1s".into(), b_pat: "1s0".into(), mode: "honest".into() });
        v.push(IppCase { name: "honest_k7_unit".into(), k: 7, g_factors: "unit".into(), h_factors: "unit".into(), a_pat: "s".into(), b_pat: "s".into(), mode: "honest".into() });
    }
    v
}

// ---------------------------------------------------------------- C13

/// literal value sets (v1, r1, v2, r2, k): 0, 1, -1, values above 2^64 and structured limb patterns
pub fn c13_literal_sets() -> Vec<[&'static str; 5]> {
    vec![
        ["36893488147419103237", "-1", "1", "0", "18446744073709551629"],
        ["18446744073709551619", "1", "340282366920938463463374607431768211460", "2", "18446744073709551629"],
        ["3062541302288446171336392163549299867653", "3", "37662610412320084584716148373850690813986345936164176789511", "0", "2"],
        ["0", "0", "1", "-1", "-1"],
        ["-5", "7", "-1", "3", "2"],
        ["18446744073709551616", "0", "340282366920938463463374607431768211459", "1", "18446744073709551616"],
        ["-1", "-1", "-1", "0", "1"],
        ["1", "-1", "79228162514264337593543950336", "79228162514264337593543950336", "-1"],
        ["-18446744073709551615", "9", "-4294967296", "-3", "-2"],
        ["25108406941546723055343157692830665664483208754150976258059", "-2", "37662610412320084585056430740771629277394380311374816346125", "5", "3"],
    ]
}

pub fn job_c13<C: Base + 'static>(variant: &str, seed: u64, curve: &str, torsion: Option<Vec<C>>) -> Job
where
    C::ScalarField: Inner,
{
    use ark_bulletproofs::r1cs::Prover;
    arena::reset();
    arena::set_ctx("c13");
    let mut job = Job { property: "C13".into(), scenario: format!("C13:{}:{}", variant, curve), curve: curve.into(), seed, ..Default::default() };
    let mut rng = rand_chacha::ChaChaRng::seed_from_u64(seed ^ 0xc13);
    let pc = if variant.starts_with("default_bases") {
        PedersenGens::<SymA<C>>::default()
    } else {
        // same plain bases as the native twin (random / identity / with a small-order component), as named symbols
        match crate::replay::c13_bases::<C>(variant, &mut rng, &torsion) {
            Some(pcp) => PedersenGens { B: SymA::concrete(pcp.B), B_blinding: SymA::concrete(pcp.B_blinding) },
            None => {
                job.stats = stats();
                return job;
            }
        }
    };
    let rmul = |P: &C, s: &C::ScalarField| -> C::Group { crate::replay::ref_mul::<C>(P, s) };
    let (bB, bBb) = (pc.B.name_basis("B"), pc.B_blinding.name_basis("Bblind"));
    let mut vals = SymVals::<C::ScalarField>::new(seed);
    let lit = |s: &str| -> SymF<C::ScalarField> {
        use core::str::FromStr;
        match s.strip_prefix('-') {
            Some(r) => -SymF::lit(C::ScalarField::from_str(r).ok().unwrap()),
            None => SymF::lit(C::ScalarField::from_str(s).ok().unwrap()),
        }
    };
    let sets: Vec<[SymF<C::ScalarField>; 5]> = if variant.ends_with("literals") {
        c13_literal_sets().iter().map(|s| [lit(s[0]), lit(s[1]), lit(s[2]), lit(s[3]), lit(s[4])]).collect()
    } else {
        vec![[vals.fresh("v"), vals.fresh("r"), vals.fresh("v"), vals.fresh("r"), vals.fresh("k")]]
    };
    let (b_is_identity, bb_is_identity) = (pc.B.p.is_zero(), pc.B_blinding.p.is_zero());
    let mk = |v: SymF<C::ScalarField>, r: SymF<C::ScalarField>| -> Lin {
        let (tv, tr) = (v.tid(), r.tid());
        arena::with(|a| {
            let mut m = BTreeMap::new();
            // the identity point is no basis element: a multiple of it contributes nothing
            if tv != a.lit0 && !b_is_identity {
                m.insert(bB, tv);
            }
            if tr != a.lit0 && !bb_is_identity {
                m.insert(bBb, tr);
            }
            m
        })
    };
    let mut items = vec![];
    let (mut v1, mut r1) = (SymF::<C::ScalarField>::zero(), SymF::<C::ScalarField>::zero());
    let mut c1 = pc.commit(v1, r1);
    for (si, set) in sets.iter().enumerate() {
        let (sv1, sr1, v2, r2, kk) = (set[0], set[1], set[2], set[3], set[4]);
        v1 = sv1;
        r1 = sr1;
        c1 = pc.commit(v1, r1);
        let c2 = pc.commit(v2, r2);
        items.extend(lin_eq_items(&format!("set{} commit(v1,r1)", si), &c1.lin(), &mk(v1, r1)));
        items.extend(lin_eq_items(&format!("set{} commit(v2,r2)", si), &c2.lin(), &mk(v2, r2)));
        let sum: SymP<C> = SymP::from(c1) + SymP::from(c2);
        let csum = pc.commit(v1 + v2, r1 + r2);
        items.extend(lin_eq_items(&format!("set{} commit(v1,r1)+commit(v2,r2)=commit(v1+v2,r1+r2)", si), &sum.lin(), &csum.lin()));
        // bases with a small-order component have order 8l: sums of scalars wrap modulo l, so the additive and
        // scaling laws hold only up to a small-order point there (a fact about the group, not about the code);
        // for them only "commit = v*B + r*Bblind on canonical representatives" and "Prover::commit is the same
        // function" are checked
        let prime_order_bases = !variant.starts_with("torsion");
        if prime_order_bases {
            job.check(&format!("set{}: homomorphism holds on the shadow curve", si), sum.p == SymP::<C>::from(csum).p, String::new());
        }
        let refp: C::Group = rmul(&pc.B.p, &v1.v) + rmul(&pc.B_blinding.p, &r1.v);
        job.check(&format!("set{}: commit equals v*B + r*Bblind on the shadow curve (computed with plain scalar multiplication)", si), SymP::<C>::from(c1).p == refp, String::new());
        let ref2: C::Group = rmul(&pc.B.p, &v2.v) + rmul(&pc.B_blinding.p, &r2.v);
        job.check(&format!("set{}: second commitment equals v*B + r*Bblind on the shadow curve", si), SymP::<C>::from(c2).p == ref2, String::new());
        let scaled: SymP<C> = SymP::from(c1) * kk;
        let cscaled = pc.commit(kk * v1, kk * r1);
        items.extend(lin_eq_items(&format!("set{} k*commit(v,r)=commit(kv,kr)", si), &scaled.lin(), &cscaled.lin()));
        if prime_order_bases {
            job.check(&format!("set{}: scaling holds on the shadow curve", si), scaled.p == SymP::<C>::from(cscaled).p, String::new());
        }
    }
    let czero = pc.commit(SymF::zero(), SymF::zero());
    job.check("commit(0,0) is the identity", czero.p.is_zero() && czero.lin().is_empty(), String::new());
    // Prover::commit returns the same function of its inputs and absorbs exactly that point
    let mut pt = Transcript::new(b"c13");
    let log0 = merlin::vlog::len();
    let V = {
        let mut prover = Prover::new(&pc, &mut pt);
        let (V, _var) = prover.commit(v1, r1);
        V
    };
    items.extend(lin_eq_items("Prover::commit(v,r)", &V.lin(), &mk(v1, r1)));
    let evs = merlin::vlog::since(log0);
    let mut vbytes = vec![];
    ark_serialize::CanonicalSerialize::serialize_uncompressed(&V.p, &mut vbytes).unwrap();
    let absorbed = evs.iter().any(|e| e.op == "append" && e.label == b"V" && e.data == vbytes);
    job.check("Prover::commit absorbs the full encoding of the returned commitment under label V", absorbed, String::new());
    job.check("Prover::commit equals PedersenGens::commit on the shadow curve", V.p == c1.p, String::new());
    job.check("Prover::commit equals v*B + r*Bblind on the shadow curve (plain double-and-add)", SymP::<C>::from(V).p == rmul(&pc.B.p, &v1.v) + rmul(&pc.B_blinding.p, &r1.v), String::new());
    {
        let mut pt0 = Transcript::new(b"c13");
        let mut prover = Prover::new(&pc, &mut pt0);
        let (Vz, _) = prover.commit(SymF::zero(), SymF::zero());
        job.check("Prover::commit(0,0) returns the identity, like PedersenGens::commit(0,0)", Vz.p.is_zero() && Vz.lin().is_empty(), String::new());
    }
    // a second commitment on the same prover with the SAME blinding and a different value
    {
        let mut pt2 = Transcript::new(b"c13");
        let mut prover = Prover::new(&pc, &mut pt2);
        let v_other = v1 + SymF::from(3u64);
        let (_Va, _) = prover.commit(v1, r1);
        let (Vb, _) = prover.commit(v_other, r1);
        items.extend(lin_eq_items("second Prover::commit with a repeated blinding", &Vb.lin(), &mk(v_other, r1)));
        let refb: C::Group = rmul(&pc.B.p, &v_other.v) + rmul(&pc.B_blinding.p, &r1.v);
        job.check("a second commitment with the same blinding and another value is its own commitment (shadow curve)", SymP::<C>::from(Vb).p == refb, String::new());
    }
    job.groups.push(identity_group("pedersen_laws", "I", "commit(v,r) = v*B + r*Bblind coefficient-wise for all v, r and any pair of bases; additive homomorphism; scaling; Prover::commit is the same function", items));
    arena::with(|a| {
        if !a.opaque.is_empty() {
            job.inconclusive.push(format!("opaque constants: {:?}", &a.opaque[..a.opaque.len().min(3)]));
        }
    });
    job.stats = stats();
    job.replay = serde_json::json!({"kind": "c13", "variant": variant, "seed": seed});
    job
}
