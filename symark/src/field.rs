use crate::arena::{Term, A};
use ark_ff::{BigInt, BigInteger, FftField, Field, LegendreSymbol, PrimeField, SqrtPrecomputation};
use ark_serialize::*;
use ark_std::rand::{distributions::{Distribution, Standard}, Rng};
use core::fmt;
use core::hash::{Hash, Hasher};
use core::iter::{Product, Sum};
use core::ops::*;
use core::str::FromStr;
use num_bigint::BigUint;
use num_traits::{One, Zero};
use zeroize::Zeroize;

pub trait Inner: PrimeField<BigInt = BigInt<4>> {}
impl<F: PrimeField<BigInt = BigInt<4>>> Inner for F {}

#[derive(Copy, Clone)]
pub struct SymF<F: Inner> { pub v: F, pub id: u32 }

impl<F: Inner> SymF<F> {
    pub const fn lit(v: F) -> Self { SymF { v, id: 0 } }
    /// fresh variable named `<kind><n>` with concrete shadow `v`
    pub fn var(v: F, kind: &str) -> Self {
        let name = A.with(|a| a.borrow_mut().next_name(kind));
        Self::named(v, &name)
    }
    pub fn named(v: F, name: &str) -> Self {
        let limbs = v.into_bigint().0.to_vec();
        let pos = merlin::vlog::len();
        let id = A.with(|a| { let mut a = a.borrow_mut(); let id = a.named_var(name); a.var_shadow.insert(id, limbs); a.var_pos.entry(id).or_insert(pos); id });
        let s = SymF { v, id };
        s.register();
        s
    }
    pub fn from_tid(v: F, id: u32) -> Self { SymF { v, id } }
    /// literal values are lifted to the integers c or c - q; only "small" ones (|.| < 2^128) are
    /// kept as literals so that literal arithmetic never wraps around the modulus
    fn small(v: &F) -> bool {
        let b: BigUint = (*v).into();
        let m: BigUint = F::MODULUS.into();
        let lim = BigUint::from(1u8) << 128;
        b < lim || (&m - &b) < lim
    }
    pub fn register(&self) {
        let limbs = self.v.into_bigint().0.to_vec();
        let id = self.tid();
        A.with(|a| { a.borrow_mut().val2id.insert(limbs, id); });
    }
    /// term id (materialise literals)
    pub fn tid(&self) -> u32 {
        if self.id != 0 { return self.id; }
        let v: BigUint = self.v.into();
        let m: BigUint = F::MODULUS.into();
        let lim = BigUint::from(1u8) << 128;
        // a literal leaf is lifted to the integer c in [0,q), or to c - q when that is small; all
        // arithmetic on non-small literals stays symbolic (see `small`), so nothing wraps around q
        let s = if (&m - &v) < lim { format!("-{}", &m - &v) } else { v.to_string() };
        A.with(|a| a.borrow_mut().mk(Term::Lit(s)))
    }
    fn bin(self, o: Self, v: F, f: impl Fn(&mut crate::arena::Arena, u32, u32) -> u32) -> Self {
        if self.id == 0 && o.id == 0 && Self::small(&v) { return SymF { v, id: 0 }; }
        let (x, y) = (self.tid(), o.tid());
        let id = A.with(|a| f(&mut a.borrow_mut(), x, y));
        let r = SymF { v, id };
        r.register();
        r
    }
    fn log_test(&self, kind: &'static str, other: Option<&Self>, outcome: bool) {
        if self.id == 0 && other.map(|o| o.id == 0).unwrap_or(true) { return; }
        let t = match other { None => self.tid(), Some(o) => { let (x, y) = (self.tid(), o.tid()); A.with(|a| a.borrow_mut().sub(x, y)) } };
        let pos = merlin::vlog::len();
        A.with(|a| { let mut a = a.borrow_mut(); let ctx = a.ctx.clone(); a.events.push(crate::arena::Event { kind, ctx, lin: Default::default(), term: t, outcome, merlin_pos: pos }); });
    }
}
impl<F: Inner> fmt::Debug for SymF<F> { fn fmt(&self, f: &mut fmt::Formatter<'_>) -> fmt::Result { write!(f, "{:?}#{}", self.v, self.id) } }
impl<F: Inner> fmt::Display for SymF<F> { fn fmt(&self, f: &mut fmt::Formatter<'_>) -> fmt::Result { write!(f, "{}#{}", self.v, self.id) } }
impl<F: Inner> Default for SymF<F> { fn default() -> Self { Self::lit(F::default()) } }
impl<F: Inner> PartialEq for SymF<F> { fn eq(&self, o: &Self) -> bool { let r = self.v == o.v; self.log_test("feq", Some(o), r); r } }
impl<F: Inner> Eq for SymF<F> {}
impl<F: Inner> PartialOrd for SymF<F> { fn partial_cmp(&self, o: &Self) -> Option<core::cmp::Ordering> { self.v.partial_cmp(&o.v) } }
impl<F: Inner> Ord for SymF<F> { fn cmp(&self, o: &Self) -> core::cmp::Ordering { self.v.cmp(&o.v) } }
impl<F: Inner> Hash for SymF<F> { fn hash<H: Hasher>(&self, h: &mut H) { Hash::hash(&self.v, h) } }
impl<F: Inner> Zeroize for SymF<F> { fn zeroize(&mut self) { self.v.zeroize(); self.id = 0; } }
impl<F: Inner> Zero for SymF<F> { fn zero() -> Self { Self::lit(F::zero()) } fn is_zero(&self) -> bool { let r = self.v.is_zero(); self.log_test("fzero", None, r); r } }
impl<F: Inner> One for SymF<F> { fn one() -> Self { Self::lit(F::one()) } }
impl<F: Inner> Neg for SymF<F> { type Output = Self; fn neg(self) -> Self { if self.id == 0 { return SymF { v: -self.v, id: 0 }; } let x = self.tid(); let id = A.with(|a| a.borrow_mut().neg(x)); let r = SymF { v: -self.v, id }; r.register(); r } }

impl<F: Inner> Distribution<SymF<F>> for Standard {
    fn sample<R: Rng + ?Sized>(&self, rng: &mut R) -> SymF<F> {
        let v: F = <F as ark_ff::UniformRand>::rand(rng);
        let tn = core::any::type_name::<R>();
        if tn.contains("ChaCha") {
            // Fiat-Shamir challenge: interned by its concrete value, so that two squeezes with equal
            // hash output are the same variable and squeezes with different output are distinct ones.
            let limbs = v.into_bigint().0.to_vec();
            let (label, _bytes) = merlin::vlog::last_challenge();
            let label: String = label.iter().map(|b| if b.is_ascii_alphanumeric() { *b as char } else { '_' }).collect();
            let pos = merlin::vlog::len();
            if let Some(id) = A.with(|a| a.borrow().chal_by_val.get(&limbs).copied()) {
                A.with(|a| { let mut a = a.borrow_mut(); let ctx = a.ctx.clone(); a.chals.push(crate::arena::Chal { label, tid: id, limbs, merlin_pos: pos, ctx, fresh: false }); });
                return SymF { v, id };
            }
            let s = SymF::var(v, &format!("chal_{}_", label));
            A.with(|a| { let mut a = a.borrow_mut(); a.chal_by_val.insert(limbs.clone(), s.id); let ctx = a.ctx.clone(); a.chals.push(crate::arena::Chal { label, tid: s.id, limbs, merlin_pos: pos, ctx, fresh: true }); });
            return s;
        }
        let kind = if tn.contains("TranscriptRng") { "rng" } else if tn.contains("AlphaRng") { "alpha" } else { "ext" };
        let s = SymF::var(v, kind);
        if kind == "rng" { A.with(|a| { let mut a = a.borrow_mut(); let ctx = a.ctx.clone(); a.rng_draws.push((s.id, ctx)); }); }
        s
    }
}

macro_rules! ops {
    ($tr:ident, $m:ident, $tra:ident, $ma:ident, $f:expr, $g:expr) => {
        impl<'a, F: Inner> $tr<&'a SymF<F>> for SymF<F> { type Output = Self; fn $m(self, o: &Self) -> Self { self.bin(*o, $f(self.v, o.v), $g) } }
        impl<F: Inner> $tr<SymF<F>> for SymF<F> { type Output = Self; fn $m(self, o: Self) -> Self { self.$m(&o) } }
        impl<'a, F: Inner> $tr<&'a mut SymF<F>> for SymF<F> { type Output = Self; fn $m(self, o: &mut Self) -> Self { self.$m(&*o) } }
        impl<'a, 'b, F: Inner> $tr<&'b SymF<F>> for &'a SymF<F> { type Output = SymF<F>; fn $m(self, o: &SymF<F>) -> SymF<F> { (*self).$m(o) } }
        impl<'a, F: Inner> $tra<&'a SymF<F>> for SymF<F> { fn $ma(&mut self, o: &Self) { *self = (*self).$m(o); } }
        impl<F: Inner> $tra<SymF<F>> for SymF<F> { fn $ma(&mut self, o: Self) { *self = (*self).$m(&o); } }
        impl<'a, F: Inner> $tra<&'a mut SymF<F>> for SymF<F> { fn $ma(&mut self, o: &mut Self) { *self = (*self).$m(&*o); } }
    };
}
ops!(Add, add, AddAssign, add_assign, |a: F, b: F| a + b, |ar: &mut crate::arena::Arena, x, y| ar.add(x, y));
ops!(Sub, sub, SubAssign, sub_assign, |a: F, b: F| a - b, |ar: &mut crate::arena::Arena, x, y| ar.sub(x, y));
ops!(Mul, mul, MulAssign, mul_assign, |a: F, b: F| a * b, |ar: &mut crate::arena::Arena, x, y| ar.mul(x, y));
ops!(Div, div, DivAssign, div_assign, |a: F, b: F| a / b, |ar: &mut crate::arena::Arena, x, y| { let i = ar.inv(y); ar.mul(x, i) });

impl<F: Inner> Sum<SymF<F>> for SymF<F> { fn sum<I: Iterator<Item = Self>>(it: I) -> Self { it.fold(Self::zero(), |a, b| a + b) } }
impl<'a, F: Inner> Sum<&'a SymF<F>> for SymF<F> { fn sum<I: Iterator<Item = &'a Self>>(it: I) -> Self { it.fold(Self::zero(), |a, b| a + b) } }
impl<F: Inner> Product<SymF<F>> for SymF<F> { fn product<I: Iterator<Item = Self>>(it: I) -> Self { it.fold(Self::one(), |a, b| a * b) } }
impl<'a, F: Inner> Product<&'a SymF<F>> for SymF<F> { fn product<I: Iterator<Item = &'a Self>>(it: I) -> Self { it.fold(Self::one(), |a, b| a * b) } }

macro_rules! from_int { ($($t:ty),*) => { $( impl<F: Inner> From<$t> for SymF<F> { fn from(x: $t) -> Self { Self::lit(F::from(x)) } } )* } }
from_int!(u128, u64, u32, u16, u8, bool);
impl<F: Inner> From<BigInt<4>> for SymF<F> { fn from(b: BigInt<4>) -> Self { Self::lit(F::from(b)) } }
impl<F: Inner> From<SymF<F>> for BigInt<4> { fn from(s: SymF<F>) -> Self { s.register(); s.v.into_bigint() } }
impl<F: Inner> From<BigUint> for SymF<F> { fn from(b: BigUint) -> Self { Self::lit(F::from(b)) } }
impl<F: Inner> From<SymF<F>> for BigUint { fn from(s: SymF<F>) -> Self { s.v.into() } }
impl<F: Inner> FromStr for SymF<F> { type Err = (); fn from_str(s: &str) -> Result<Self, ()> { F::from_str(s).map(Self::lit).map_err(|_| ()) } }

impl<F: Inner> CanonicalSerialize for SymF<F> {
    fn serialize_with_mode<W: Write>(&self, mut w: W, c: Compress) -> Result<(), SerializationError> {
        self.register();
        let mut buf = Vec::new();
        self.v.serialize_with_mode(&mut buf, c)?;
        let t = self.tid();
        A.with(|a| a.borrow_mut().ser_log.push((buf.clone(), crate::arena::SerObj::Scalar(t))));
        w.write_all(&buf).map_err(SerializationError::IoError)
    }
    fn serialized_size(&self, c: Compress) -> usize { self.v.serialized_size(c) }
}
impl<F: Inner> CanonicalSerializeWithFlags for SymF<F> {
    fn serialize_with_flags<W: Write, Fl: Flags>(&self, w: W, f: Fl) -> Result<(), SerializationError> { self.v.serialize_with_flags(w, f) }
    fn serialized_size_with_flags<Fl: Flags>(&self) -> usize { self.v.serialized_size_with_flags::<Fl>() }
}
impl<F: Inner> Valid for SymF<F> { fn check(&self) -> Result<(), SerializationError> { self.v.check() } }
impl<F: Inner> CanonicalDeserialize for SymF<F> {
    fn deserialize_with_mode<R: Read>(r: R, c: Compress, v: Validate) -> Result<Self, SerializationError> { F::deserialize_with_mode(r, c, v).map(Self::lit) }
}
impl<F: Inner> CanonicalDeserializeWithFlags for SymF<F> {
    fn deserialize_with_flags<R: Read, Fl: Flags>(r: R) -> Result<(Self, Fl), SerializationError> { F::deserialize_with_flags::<R, Fl>(r).map(|(x, f)| (Self::lit(x), f)) }
}

impl<F: Inner> Field for SymF<F> {
    type BasePrimeField = Self;
    type BasePrimeFieldIter = core::iter::Once<Self>;
    const SQRT_PRECOMP: Option<SqrtPrecomputation<Self>> = None;
    const ZERO: Self = Self::lit(F::ZERO);
    const ONE: Self = Self::lit(F::ONE);
    fn extension_degree() -> u64 { 1 }
    fn to_base_prime_field_elements(&self) -> Self::BasePrimeFieldIter { core::iter::once(*self) }
    fn from_base_prime_field_elems(e: &[Self]) -> Option<Self> { if e.len() == 1 { Some(e[0]) } else { None } }
    fn from_base_prime_field(e: Self) -> Self { e }
    fn double(&self) -> Self { *self + *self }
    fn double_in_place(&mut self) -> &mut Self { *self = self.double(); self }
    fn neg_in_place(&mut self) -> &mut Self { *self = -*self; self }
    fn from_random_bytes_with_flags<Fl: Flags>(b: &[u8]) -> Option<(Self, Fl)> { F::from_random_bytes_with_flags::<Fl>(b).map(|(x, f)| (Self::lit(x), f)) }
    fn legendre(&self) -> LegendreSymbol { self.v.legendre() }
    fn sqrt(&self) -> Option<Self> { self.v.sqrt().map(Self::lit) }
    fn square(&self) -> Self { *self * *self }
    fn square_in_place(&mut self) -> &mut Self { *self = self.square(); self }
    fn inverse(&self) -> Option<Self> {
        let vi = self.v.inverse()?;
        if self.id == 0 && Self::small(&vi) { return Some(SymF { v: vi, id: 0 }); }
        let x = self.tid();
        let id = A.with(|a| a.borrow_mut().inv(x));
        let r = SymF { v: vi, id }; r.register(); Some(r)
    }
    fn inverse_in_place(&mut self) -> Option<&mut Self> { let i = self.inverse()?; *self = i; Some(self) }
    fn frobenius_map_in_place(&mut self, _p: usize) {}
}
impl<F: Inner> FftField for SymF<F> {
    const GENERATOR: Self = Self::lit(F::GENERATOR);
    const TWO_ADICITY: u32 = F::TWO_ADICITY;
    const TWO_ADIC_ROOT_OF_UNITY: Self = Self::lit(F::TWO_ADIC_ROOT_OF_UNITY);
}
impl<F: Inner> PrimeField for SymF<F> {
    type BigInt = BigInt<4>;
    const MODULUS: BigInt<4> = F::MODULUS;
    const MODULUS_MINUS_ONE_DIV_TWO: BigInt<4> = F::MODULUS_MINUS_ONE_DIV_TWO;
    const MODULUS_BIT_SIZE: u32 = F::MODULUS_BIT_SIZE;
    const TRACE: BigInt<4> = F::TRACE;
    const TRACE_MINUS_ONE_DIV_TWO: BigInt<4> = F::TRACE_MINUS_ONE_DIV_TWO;
    fn from_bigint(r: BigInt<4>) -> Option<Self> { F::from_bigint(r).map(Self::lit) }
    fn into_bigint(self) -> BigInt<4> { self.register(); self.v.into_bigint() }
}
#[allow(dead_code)]
fn _assert_bigint<B: BigInteger>() {}
