//! C04: proof integrity.  An honest proof with one field replaced / shifted must make the
//! verifier's combined check a non-zero polynomial in the challenges that follow the field.
#![allow(non_snake_case)]
use crate::arena::{self, Lin};
use crate::field::{Inner, SymF};
use crate::group::{Base, SymA};
use crate::job::*;
use crate::r1cs::*;
use crate::scen_c03::POINT_NAMES;
use crate::scen_r1cs::*;
use ark_bulletproofs::r1cs::*;
use ark_bulletproofs::verif_hooks::InnerProductProof;
use ark_bulletproofs::{BulletproofGens, PedersenGens};
use ark_ec::{AffineRepr, CurveGroup};
use ark_ff::{Field, One, UniformRand, Zero};
use rand_core::SeedableRng;
use serde::{Deserialize, Serialize};
use std::collections::{BTreeMap, HashSet};

#[derive(Clone, Debug, Serialize, Deserialize, PartialEq)]
pub enum FieldId {
    Point(usize),
    Scalar(usize),
    L(usize),
    R(usize),
    A,
    B,
}
impl FieldId {
    pub fn name(&self) -> String {
        match self {
            FieldId::Point(k) => POINT_NAMES[*k].to_string(),
            FieldId::Scalar(k) => ["t_x", "t_x_blinding", "e_blinding"][*k].to_string(),
            FieldId::L(j) => format!("L{}", j),
            FieldId::R(j) => format!("R{}", j),
            FieldId::A => "a".into(),
            FieldId::B => "b".into(),
        }
    }
}

#[derive(Clone, Debug, Serialize, Deserialize)]
pub struct C04Case {
    pub name: String,
    pub shape: Shape,
    /// one field, or two fields for a swap
    pub fields: Vec<FieldId>,
    pub swap: bool,
}

/// labels of the verifier challenges squeezed after `f` is absorbed (reference order)
pub fn challenges_after(f: &FieldId, n_phase2_chals: usize, rounds: usize) -> Vec<String> {
    let mut all: Vec<String> = vec![];
    for _ in 0..n_phase2_chals {
        all.push("ch".into());
    }
    all.extend(["y", "z", "u", "x", "w"].iter().map(|s| s.to_string()));
    for _ in 0..rounds {
        all.push("u".into());
    }
    all.push("r".into());
    let p2 = n_phase2_chals;
    let skip = match f {
        FieldId::Point(k) if *k < 3 => 0,
        FieldId::Point(k) if *k < 6 => p2,
        FieldId::Point(_) => p2 + 2,
        FieldId::Scalar(_) => p2 + 4,
        FieldId::L(j) | FieldId::R(j) => p2 + 5 + j,
        FieldId::A | FieldId::B => all.len(),
    };
    all[skip..].to_vec()
}

pub fn tamper<G: AffineRepr>(proof: &R1CSProof<G>, f: &FieldId, new_point: Option<G>, delta: G::ScalarField) -> R1CSProof<G> {
    let (mut pts, mut scs, ipp) = {
        let (p, s, i) = proof.verif_parts();
        (p, s, i.clone())
    };
    let (l, r, mut a, mut b) = {
        let (l, r, a, b) = ipp.verif_parts();
        (l.to_vec(), r.to_vec(), a, b)
    };
    let (mut l, mut r) = (l, r);
    match f {
        FieldId::Point(k) => pts[*k] = new_point.unwrap(),
        FieldId::Scalar(k) => scs[*k] += delta,
        FieldId::L(j) => l[*j] = new_point.unwrap(),
        FieldId::R(j) => r[*j] = new_point.unwrap(),
        FieldId::A => a += delta,
        FieldId::B => b += delta,
    }
    R1CSProof::verif_from_parts(pts, scs, InnerProductProof::verif_from_parts(l, r, a, b))
}

fn get_point<G: AffineRepr>(proof: &R1CSProof<G>, f: &FieldId) -> Option<G> {
    let (pts, _, ipp) = proof.verif_parts();
    let (l, r, _, _) = ipp.verif_parts();
    match f {
        FieldId::Point(k) => Some(pts[*k]),
        FieldId::L(j) => l.get(*j).copied(),
        FieldId::R(j) => r.get(*j).copied(),
        _ => None,
    }
}

pub fn job_c04<C: Base + 'static>(case: &C04Case, seed: u64, curve: &str) -> Job
where
    C::ScalarField: Inner,
{
    arena::reset();
    arena::set_ctx("setup");
    let shape = &case.shape;
    let mut job = Job { property: "C04".into(), scenario: format!("C04:{}:{}", case.name, curve), curve: curve.into(), seed, shape: serde_json::to_value(case).unwrap(), ..Default::default() };
    let pad = shape.padded();
    let rounds = pad.trailing_zeros() as usize;
    let (n1, _n2) = shape.gates();
    let pc = pc_for::<SymA<C>>(&shape.name, seed);
    let bp = BulletproofGens::<SymA<C>>::new(pad, 1);
    let bases = name_bases(&pc, &bp, pad);
    let shr = new_shared::<SymA<C>>(shape, &Default::default(), Box::new(SymVals::<C::ScalarField>::new(seed)));
    arena::set_ctx("prove");
    let (proof, _pt) = prove_shape(shape, &shr, &pc, &bp, seed);
    let proof = match proof {
        Ok(p) => p,
        Err(e) => {
            job.check("prove returns Ok", false, format!("{:?}", e));
            job.stats = stats();
            return job;
        }
    };
    rewind_for_verifier(&shr);
    arena::set_ctx("verify_honest");
    {
        let mut vt = new_verifier_transcript(shape);
        let res = build_verifier(shape, &shr, &mut vt).verify(&proof, &pc, &bp);
        job.check("the untouched proof is accepted", res.is_ok(), format!("{:?}", res));
    }
    rewind_for_verifier(&shr);
    arena::set_ctx("setup");
    let mut rng = rand_chacha::ChaChaRng::seed_from_u64(seed ^ 0xc04);
    let mut dv = SymVals::<C::ScalarField>::new(seed ^ 0xd4);
    let mut tampered = proof.clone();
    let mut fresh_bases: Vec<(FieldId, u32)> = vec![];
    let mut deltas: Vec<(FieldId, SymF<C::ScalarField>)> = vec![];
    if case.swap {
        // two fields exchange their values: both become "some other element"; modelled as two
        // independent symbols (points) / as the two shifts that realise the exchange (a, b)
        let (f0, f1) = (&case.fields[0], &case.fields[1]);
        match (get_point(&proof, f0), get_point(&proof, f1)) {
            (Some(_), Some(_)) => {
                for (k, f) in [f0, f1].iter().enumerate() {
                    let p = SymA::concrete(C::Group::rand(&mut rng).into_affine());
                    let b = p.name_basis(&format!("New{}", k));
                    fresh_bases.push(((*f).clone(), b));
                    tampered = tamper(&tampered, f, Some(p), SymF::zero());
                }
            }
            _ => {
                let (_, _, ipp) = proof.verif_parts();
                let (_, _, a, b) = ipp.verif_parts();
                tampered = tamper(&tampered, &FieldId::A, None, b - a);
                tampered = tamper(&tampered, &FieldId::B, None, a - b);
                deltas.push((FieldId::A, b - a));
                deltas.push((FieldId::B, a - b));
            }
        }
    } else {
        let f = &case.fields[0];
        if get_point(&proof, f).is_some() {
            let p = SymA::concrete(C::Group::rand(&mut rng).into_affine());
            let b = p.name_basis("New");
            fresh_bases.push((f.clone(), b));
            tampered = tamper(&tampered, f, Some(p), SymF::zero());
        } else {
            let d = dv.fresh("delta");
            deltas.push((f.clone(), d));
            tampered = tamper(&tampered, f, None, d);
        }
    }
    arena::set_ctx("verify");
    let mut vt = new_verifier_transcript(shape);
    let res = build_verifier(shape, &shr, &mut vt).verify(&tampered, &pc, &bp);
    arena::set_ctx("post");
    job.concrete = serde_json::json!({"verify_altered_proof": format!("{:?}", res), "expected": "Err"});
    job.check("concrete verdict: the altered proof is rejected on the shadow curve", res.is_err(), format!("{:?}", res));
    let evs = events_in("verify");
    let r_pos = arena::with(|a| a.chals.iter().filter(|c| c.ctx == "verify" && c.label == "r").map(|c| c.merlin_pos).last());
    let residual: Option<Lin> = match (evs.iter().rev().find(|e| e.kind == "pzero"), r_pos) {
        (Some(e), Some(rp)) if e.merlin_pos >= rp => Some(e.lin.clone()),
        _ => None,
    };
    let vch = split_verifier_chals(&chals_in::<C::ScalarField>("verify"));
    let fresh: Vec<(String, u32)> = arena::with(|a| a.chals.iter().filter(|c| c.ctx == "verify" && c.fresh).map(|c| (c.label.clone(), c.tid)).collect());
    let fresh_labels: Vec<String> = fresh.iter().map(|f| f.0.clone()).collect();
    let n_p2 = shape.phase2.iter().flatten().filter(|o| **o == Op::Chal).count();
    // binding: every challenge squeezed after the earliest altered field must be new
    let expected_fresh = case.fields.iter().map(|f| challenges_after(f, n_p2, rounds)).max_by_key(|v| v.len()).unwrap_or_default();
    job.params = serde_json::json!({"fields": case.fields.iter().map(|f| f.name()).collect::<Vec<_>>(), "fresh_challenges": fresh_labels, "expected_fresh": expected_fresh});
    job.check("binding: every challenge that follows the altered field in the protocol order changes", fresh_labels == expected_fresh, format!("fresh {:?}, expected {:?}", fresh_labels, expected_fresh));
    match (residual, vch) {
        (Some(res_lin), Ok(vc)) => {
            let late: HashSet<u32> = fresh.iter().map(|f| f.1).collect();
            match expand_lin(&res_lin, &late) {
                Ok((coefs, deg)) => {
                    let mut items: Vec<(String, u32, u32)> = vec![];
                    let lit0 = arena::with(|a| a.lit0);
                    let lit1 = arena::with(|a| a.lit1);
                    for (f, nb) in fresh_bases.iter() {
                        // the new element's own coordinate must be a single non-zero monomial in the fresh challenges
                        let own: Vec<&(u32, crate::expand::Mono, String, u32)> = coefs.iter().filter(|c| c.0 == *nb).collect();
                        if own.len() != 1 {
                            job.check(&format!("sensitivity: the scalar of {} is a non-zero monomial of the fresh challenges", f.name()), false, format!("{} monomials", own.len()));
                            continue;
                        }
                        if own[0].3 != lit1 {
                            // e.g. u_0 * inv(u_0) for a round point behind an older round: the solver shows it is 1
                            items.push((format!("coefficient of the monomial {} on the new element's coordinate is 1", own[0].2), own[0].3, lit1));
                        }
                        let mstar = own[0].1.clone();
                        job.check(&format!("sensitivity: the scalar of {} is the non-zero monomial {}", f.name(), own[0].2), !mstar.is_empty() || late.is_empty(), String::new());
                        // no other coordinate contributes to that monomial: after substituting any actual value
                        // for the new element, the coefficient of the monomial is that element itself
                        for c in coefs.iter().filter(|c| c.0 != *nb && c.1 == mstar) {
                            let bn = arena::with(|a| a.basis_names[c.0 as usize].clone());
                            items.push((format!("[{}] coefficient of {} (must vanish)", bn, c.2), c.3, lit0));
                        }
                        if items.is_empty() {
                            // structurally absent: record one trivially true obligation so that the case shows up
                            items.push((format!("monomial {} occurs only on the new element's coordinate", own[0].2), lit0, lit0));
                        }
                    }
                    let find = |basis: u32, mono: &crate::expand::Mono| -> u32 { coefs.iter().find(|c| c.0 == basis && c.1 == *mono).map(|c| c.3).unwrap_or(lit0) };
                    for (f, d) in deltas.iter() {
                        let mr: crate::expand::Mono = vec![(vc.r.id, 1)];
                        match f {
                            FieldId::Scalar(0) => items.push(("t_x + delta: [B] coefficient of r is -delta".into(), find(bases.B, &mr), (-*d).tid())),
                            FieldId::Scalar(1) => items.push(("t_x_blinding + delta: [Bblind] coefficient of r is -delta".into(), find(bases.Bb, &mr), (-*d).tid())),
                            FieldId::Scalar(_) => items.push(("e_blinding + delta: [Bblind] constant coefficient is -delta".into(), find(bases.Bb, &vec![]), (-*d).tid())),
                            FieldId::A | FieldId::B => {
                                // no challenge follows a, b: closed form on the first generator
                                let g0 = if n1 >= 1 { SymF::<C::ScalarField>::one() } else { vc.u };
                                let mut prod = SymF::<C::ScalarField>::one();
                                for uj in vc.ipp.iter() {
                                    prod *= if *f == FieldId::A { uj.inverse().unwrap() } else { *uj };
                                }
                                let (basis, what) = if *f == FieldId::A { (bases.G[0], "a + delta: [G0] = -delta * g_0 * prod u_j^-1") } else { (bases.H[0], "b + delta: [H0] = -delta * g_0 * prod u_j") };
                                let want = -(*d * g0 * prod);
                                items.push((what.into(), res_lin.get(&basis).copied().unwrap_or(lit0), want.tid()));
                            }
                            _ => {}
                        }
                    }
                    let mut g = identity_group("detecting_coefficients", "C", "for the altered proof the combined check, as a polynomial in the challenges that follow the altered field, has a coefficient equal to the (non-identity) new element itself / to minus the (non-zero) shift times non-zero challenges: it cannot vanish identically", items);
                    g.late_degree = deg;
                    job.groups.push(g);
                }
                Err(e) => job.inconclusive.push(format!("expansion: {}", e)),
            }
        }
        (None, _) => {
            if res.is_err() {
                job.inconclusive.push(format!("no combined-check event (verdict {:?})", res));
            }
        }
        (_, Err(e)) => job.inconclusive.push(format!("challenge split: {}", e)),
    }
    job.path_conditions = describe_events(&evs[..evs.len().min(4)]);
    job.stats = stats();
    job.replay = serde_json::json!({"kind": "c04", "case": case, "seed": seed});
    job
}

/// Native: every single-field alteration (and round insertion / removal, and the pairwise
/// cancellation forgery over point fields) of an honest proof must be rejected.
pub fn c04_native<G: AffineRepr + 'static>(case: &C04Case, seed: u64) -> Vec<(String, bool)> {
    let mut out = vec![];
    let shape = &case.shape;
    let pad = shape.padded();
    let rounds = pad.trailing_zeros() as usize;
    let pc = pc_for::<G>(&shape.name, seed);
    let bp = BulletproofGens::<G>::new(pad, 1);
    let shr = new_shared::<G>(shape, &Default::default(), Box::new(PlainVals::<G::ScalarField>::new(Default::default(), seed)));
    let (proof, _) = prove_shape(shape, &shr, &pc, &bp, seed);
    let proof = match proof {
        Ok(p) => p,
        Err(_) => {
            out.push(("prove succeeds".into(), false));
            return out;
        }
    };
    let mut rng = rand_chacha::ChaChaRng::seed_from_u64(seed ^ 0xc04);
    let mut verify = |p: &R1CSProof<G>| -> bool {
        rewind_for_verifier(&shr);
        let mut vt = new_verifier_transcript(shape);
        build_verifier(shape, &shr, &mut vt).verify(p, &pc, &bp).is_ok()
    };
    merlin::vlog::reset();
    out.push(("untouched proof accepted".into(), verify(&proof)));
    // challenges of the honest verification, re-read from the logging Merlin
    let log = merlin::vlog::since(0);
    let chal = |label: &[u8], k: usize| -> Option<G::ScalarField> {
        log.iter().filter(|e| e.op == "challenge" && e.label == label).nth(k).map(|e| {
            let mut seed = [0u8; 32];
            seed.copy_from_slice(&e.data);
            G::ScalarField::rand(&mut rand_chacha::ChaChaRng::from_seed(seed))
        })
    };
    let mut all: Vec<FieldId> = (0..11).map(FieldId::Point).collect();
    all.extend((0..3).map(FieldId::Scalar));
    for j in 0..rounds {
        all.push(FieldId::L(j));
        all.push(FieldId::R(j));
    }
    all.push(FieldId::A);
    all.push(FieldId::B);
    let d = G::ScalarField::from(seed + 2);
    // the same altered object presented to batch verification, alone and next to the untouched proof (either order)
    let batch_rejects = |t: &R1CSProof<G>| -> bool {
        let mut all_rejected = true;
        for order in 0..3 {
            let members: Vec<&R1CSProof<G>> = match order {
                0 => vec![t],
                1 => vec![&proof, t],
                _ => vec![t, &proof],
            };
            let forks: Vec<_> = members.iter().map(|_| fork_for_verifier(shape, &shr)).collect();
            let mut ts: Vec<merlin::Transcript> = members.iter().map(|_| new_verifier_transcript(shape)).collect();
            let mut insts = vec![];
            for (i, vt) in ts.iter_mut().enumerate() {
                insts.push((build_verifier(shape, &forks[i], vt), members[i]));
            }
            let mut wr = rand_chacha::ChaChaRng::seed_from_u64(seed ^ 0xba7d);
            all_rejected &= batch_verify(&mut wr, insts, &pc, &bp).is_err();
        }
        all_rejected
    };
    for f in all.iter() {
        let np: G = G::Group::rand(&mut rng).into_affine();
        let t = tamper(&proof, f, Some(np), d);
        out.push((format!("{} replaced / shifted: rejected", f.name()), !verify(&t)));
        out.push((format!("{} replaced / shifted: rejected by batch verification (alone, after and before the untouched proof)", f.name()), batch_rejects(&t)));
        if get_point(&proof, f).is_some() {
            // the identity in a point slot (a structurally invalid object for most slots)
            let t0 = tamper(&proof, f, Some(G::zero()), d);
            if get_point(&proof, f).map(|o| !o.is_zero()).unwrap_or(false) {
                out.push((format!("{} replaced by the identity: rejected", f.name()), !verify(&t0)));
                out.push((format!("{} replaced by the identity: rejected by batch verification", f.name()), batch_rejects(&t0)));
            }
        }
        if let Some(old) = get_point(&proof, f) {
            if !old.is_zero() {
                let neg: G = (-old.into_group()).into_affine();
                out.push((format!("{} negated: rejected", f.name()), !verify(&tamper(&proof, f, Some(neg), d))));
            }
        }
    }
    // round insertion / removal
    {
        let (pts, scs, ipp) = proof.verif_parts();
        let (l, r, a, b) = ipp.verif_parts();
        let extra: G = G::Group::rand(&mut rng).into_affine();
        let (mut l2, mut r2) = (l.to_vec(), r.to_vec());
        l2.push(extra);
        r2.push(extra);
        let ins = R1CSProof::verif_from_parts(pts, scs, InnerProductProof::verif_from_parts(l2, r2, a, b));
        out.push(("inserted round: rejected".into(), !verify(&ins)));
        out.push(("inserted round: rejected by batch verification".into(), batch_rejects(&ins)));
        if !l.is_empty() {
            let rem = R1CSProof::verif_from_parts(pts, scs, InnerProductProof::verif_from_parts(l[1..].to_vec(), r[1..].to_vec(), a, b));
            out.push(("removed round: rejected".into(), !verify(&rem)));
            out.push(("removed round: rejected by batch verification".into(), batch_rejects(&rem)));
        }
    }
    // a surplus entry in one of the two round lists only, and the two final scalars exchanged
    {
        let (pts, scs, ipp) = proof.verif_parts();
        let (l, r, a, b) = ipp.verif_parts();
        let extra: G = G::Group::rand(&mut rng).into_affine();
        for side in 0..2 {
            let (mut l2, mut r2) = (l.to_vec(), r.to_vec());
            if side == 0 { l2.push(extra) } else { r2.push(extra) }
            let t = R1CSProof::verif_from_parts(pts, scs, InnerProductProof::verif_from_parts(l2, r2, a, b));
            let single = std::panic::catch_unwind(std::panic::AssertUnwindSafe(|| !verify(&t))).unwrap_or(false);
            let batch = std::panic::catch_unwind(std::panic::AssertUnwindSafe(|| batch_rejects(&t))).unwrap_or(false);
            out.push((format!("a surplus entry in {} only: rejected (no panic), singly and in a batch", if side == 0 { "L" } else { "R" }), single && batch));
        }
        if a != b {
            let t = R1CSProof::verif_from_parts(pts, scs, InnerProductProof::verif_from_parts(l.to_vec(), r.to_vec(), b, a));
            out.push(("final scalars a and b exchanged: rejected".into(), !verify(&t)));
            out.push(("final scalars a and b exchanged: rejected by batch verification".into(), batch_rejects(&t)));
        }
    }
    // altered copies whose defects are opposite must not cancel in a batch either
    {
        let (pts, scs, ipp) = proof.verif_parts();
        let (l, r, a, b) = ipp.verif_parts();
        let dd = G::ScalarField::from(seed + 9);
        let plus = R1CSProof::verif_from_parts(pts, scs, InnerProductProof::verif_from_parts(l.to_vec(), r.to_vec(), a + dd, b));
        let minus = R1CSProof::verif_from_parts(pts, scs, InnerProductProof::verif_from_parts(l.to_vec(), r.to_vec(), a - dd, b));
        let mut ts: Vec<merlin::Transcript> = vec![new_verifier_transcript(shape), new_verifier_transcript(shape)];
        let proofs = [plus, minus];
        let mut insts = vec![];
        let forks: Vec<_> = (0..2).map(|_| fork_for_verifier(shape, &shr)).collect();
        for (i, vt) in ts.iter_mut().enumerate() {
            insts.push((build_verifier(shape, &forks[i], vt), &proofs[i]));
        }
        let mut wr = rand_chacha::ChaChaRng::seed_from_u64(seed ^ 0xba7c);
        let ok = batch_verify(&mut wr, insts, &pc, &bp).is_ok();
        out.push(("two altered copies (final scalar a shifted by +d and by -d) are rejected by batch verification".into(), !ok));
        // longer cancellation patterns over altered copies (second and third differences), the untouched proof in between
        for (what, offs) in [("(+d, -2d, +d)", vec![1i64, -2, 1]), ("(+d, -3d, +3d, -d)", vec![1, -3, 3, -1]), ("(+d, 0, -2d, 0, +d)", vec![1, 0, -2, 0, 1]), ("(+d, +d, -2d)", vec![1, 1, -2])] {
            for on_b in [false, true] {
                let sc = |c: i64| -> G::ScalarField { if c < 0 { -(G::ScalarField::from((-c) as u64) * dd) } else { G::ScalarField::from(c as u64) * dd } };
                let members: Vec<R1CSProof<G>> = offs.iter().map(|c| R1CSProof::verif_from_parts(pts, scs, InnerProductProof::verif_from_parts(l.to_vec(), r.to_vec(), if on_b { a } else { a + sc(*c) }, if on_b { b + sc(*c) } else { b }))).collect();
                let forks: Vec<_> = members.iter().map(|_| fork_for_verifier(shape, &shr)).collect();
                let mut ts: Vec<merlin::Transcript> = members.iter().map(|_| new_verifier_transcript(shape)).collect();
                let mut insts = vec![];
                for (i, vt) in ts.iter_mut().enumerate() {
                    insts.push((build_verifier(shape, &forks[i], vt), &members[i]));
                }
                let mut wr = rand_chacha::ChaChaRng::seed_from_u64(seed ^ 0xba7e);
                let ok = batch_verify(&mut wr, insts, &pc, &bp).is_ok();
                out.push((format!("copies with final scalar {} shifted by {} are rejected by batch verification", if on_b { "b" } else { "a" }, what), !ok));
            }
        }
        // long batches: 18 and 35 members, one altered copy near the front, the rest untouched
        for (kk, at) in [(18usize, 1usize), (18, 16), (35, 3), (35, 20)] {
            let altered = R1CSProof::verif_from_parts(pts, [scs[0] + dd, scs[1], scs[2]], InnerProductProof::verif_from_parts(l.to_vec(), r.to_vec(), a, b));
            let forks: Vec<_> = (0..kk).map(|_| fork_for_verifier(shape, &shr)).collect();
            let mut ts: Vec<merlin::Transcript> = (0..kk).map(|_| new_verifier_transcript(shape)).collect();
            let mut insts = vec![];
            for (i, vt) in ts.iter_mut().enumerate() {
                insts.push((build_verifier(shape, &forks[i], vt), if i == at { &altered } else { &proof }));
            }
            let mut wr = rand_chacha::ChaChaRng::seed_from_u64(seed ^ 0xba7f);
            let ok = batch_verify(&mut wr, insts, &pc, &bp).is_ok();
            out.push((format!("batch of {} members with t_x altered in member {}: rejected", kk, at), !ok));
        }
        // an altered object is still rejected after the untouched proof has been accepted several times (no verdict
        // may be remembered across calls)
        {
            let _ = (verify(&proof), verify(&proof));
            let t = R1CSProof::verif_from_parts(pts, scs, InnerProductProof::verif_from_parts(l.to_vec(), r.to_vec(), a + dd, b));
            let t2 = R1CSProof::verif_from_parts(pts, scs, InnerProductProof::verif_from_parts(l.to_vec(), r.to_vec(), a, b - dd));
            out.push(("final scalars altered after the untouched proof was accepted repeatedly: rejected".into(), !verify(&t) && !verify(&t2)));
        }
    }
    // the two blinding scalars sit on the same base with combined scalar -(e_blinding + r t_x_blinding):
    // (t_x_blinding - d, e_blinding + r d) with the honest run's r -- accepted only if r does not depend on them
    if let Some(r) = chal(b"r", 0) {
        let (pts, scs, ipp) = proof.verif_parts();
        let dd = G::ScalarField::from(seed + 5);
        let forged = R1CSProof::verif_from_parts(pts, [scs[0], scs[1] - dd, scs[2] + r * dd], ipp.clone());
        out.push(("coordinated shifts of t_x_blinding and e_blinding computed from the proof's own batching challenge: rejected".into(), !verify(&forged)));
    }
    // two round points: R_0 += D, R_1 -= (u_0^-2 / u_1^-2) D with the honest run's round challenges
    if rounds >= 2 {
        if let (Some(u0), Some(u1)) = (chal(b"u", 1), chal(b"u", 2)) {
            let (pts, scs, ipp) = proof.verif_parts();
            let (l, r, a, b) = ipp.verif_parts();
            let D: G::Group = G::Group::rand(&mut rng);
            let mut r2 = r.to_vec();
            let f = (u0.inverse().unwrap() * u0.inverse().unwrap()) * (u1 * u1);
            r2[0] = (r2[0].into_group() + D).into_affine();
            r2[1] = (r2[1].into_group() - D * f).into_affine();
            let forged = R1CSProof::verif_from_parts(pts, scs, InnerProductProof::verif_from_parts(l.to_vec(), r2, a, b));
            out.push(("coordinated offsets on R_0 and R_1 computed from the proof's own round challenges: rejected".into(), !verify(&forged)));
            let mut l2 = l.to_vec();
            let fl = (u0 * u0) * (u1.inverse().unwrap() * u1.inverse().unwrap());
            l2[0] = (l2[0].into_group() + D).into_affine();
            l2[1] = (l2[1].into_group() - D * fl).into_affine();
            let forged = R1CSProof::verif_from_parts(pts, scs, InnerProductProof::verif_from_parts(l2, r.to_vec(), a, b));
            out.push(("coordinated offsets on L_0 and L_1 computed from the proof's own round challenges: rejected".into(), !verify(&forged)));
        }
    }
    // pairwise cancellation forgery on point fields whose protocol scalars are s_i:
    //   f_i += D, f_j += -(s_i/s_j) D   -- accepted only if neither field is bound to the challenges
    if let (Some(u), Some(x)) = (chal(b"u", 0), chal(b"x", 0)) {
        let sc = [x, x * x, x * x * x, u * x, u * x * x, u * x * x * x];
        for i in 0..6 {
            for j in 0..6 {
                if i == j {
                    continue;
                }
                let D: G::Group = G::Group::rand(&mut rng);
                let (pts, _, _) = proof.verif_parts();
                let pi: G = (pts[i].into_group() + D).into_affine();
                let pj: G = (pts[j].into_group() - D * (sc[i] * sc[j].inverse().unwrap())).into_affine();
                let t = tamper(&tamper(&proof, &FieldId::Point(i), Some(pi), d), &FieldId::Point(j), Some(pj), d);
                out.push((format!("coordinated offsets on {} and {} computed from the proof's own challenges: rejected", POINT_NAMES[i], POINT_NAMES[j]), !verify(&t)));
            }
        }
    }
    // a polynomial commitment and the published blinding scalar: T_k += delta*Bblind, t_x_blinding += x^k delta with the
    // honest run's x -- cancels in the combined check for EVERY r unless x depends on T_k
    if let Some(x) = chal(b"x", 0) {
        let delta = G::ScalarField::from(seed + 7);
        let (pts, scs, ipp) = proof.verif_parts();
        for (slot, deg) in [(6usize, 1u64), (7, 3), (8, 4), (9, 5), (10, 6)] {
            let mut xk = G::ScalarField::one();
            for _ in 0..deg {
                xk *= x;
            }
            let mut p2 = pts;
            p2[slot] = (pts[slot].into_group() + pc.B_blinding * delta).into_affine();
            let forged = R1CSProof::verif_from_parts(p2, [scs[0], scs[1] + xk * delta, scs[2]], ipp.clone());
            out.push((format!("{} shifted by delta*Bblind together with t_x_blinding shifted by x^{} delta (the honest run's x): rejected", POINT_NAMES[slot], deg), !verify(&forged)));
            // the same on the value base with t_x
            let mut p3 = pts;
            p3[slot] = (pts[slot].into_group() + pc.B * delta).into_affine();
            let forged = R1CSProof::verif_from_parts(p3, [scs[0] + xk * delta, scs[1], scs[2]], ipp.clone());
            out.push((format!("{} shifted by delta*B together with t_x shifted by x^{} delta (the honest run's x): rejected", POINT_NAMES[slot], deg), !verify(&forged)));
        }
    }
    out
}

/// C04 on a cofactor curve: every group element of an accepted proof offset by a point of small order (the altered
/// object is a different proof object).  On a tree whose challenges bind the full encoding of every element each such
/// alteration changes a challenge and is rejected; if the transcript only sees the element up to small-order components
/// the alteration survives whenever the element's protocol scalar annihilates the offset (probability 1/ord each).
pub fn c04_torsion_native<G: AffineRepr + 'static>(seed: u64, torsion: &[G]) -> Vec<(String, bool)> {
    let mut out = vec![];
    use crate::r1cs::Op::*;
    for shape in [Shape::new("two_gates", &[Commit, AllocMul, Mul, Con], &[]), Shape::new("two_phase_1_2", &[Commit, AllocMul, Con], &[&[Chal, AllocMul, Mul, Con]])] {
        let pad = shape.padded();
        let pc = pc_for::<G>(&shape.name, seed);
        let bp = BulletproofGens::<G>::new(pad, 1);
        let shr = new_shared::<G>(&shape, &Default::default(), Box::new(PlainVals::<G::ScalarField>::new(Default::default(), seed)));
        let (proof, _) = prove_shape(&shape, &shr, &pc, &bp, seed);
        let proof = match proof {
            Ok(p) => p,
            Err(_) => {
                out.push(("prove succeeds".into(), false));
                continue;
            }
        };
        let mut verify = |p: &R1CSProof<G>| -> bool {
            rewind_for_verifier(&shr);
            let mut vt = new_verifier_transcript(&shape);
            build_verifier(&shape, &shr, &mut vt).verify(p, &pc, &bp).is_ok()
        };
        out.push((format!("{}: untouched proof accepted", shape.name), verify(&proof)));
        let (pts, scs, ipp) = proof.verif_parts();
        let (l, r, a, b) = ipp.verif_parts();
        let mut accepted = vec![];
        let mut tried = 0;
        for (ti, t) in torsion.iter().enumerate() {
            for slot in 0..(11 + l.len() + r.len()) {
                let (mut p2, mut l2, mut r2) = (pts, l.to_vec(), r.to_vec());
                let target: &mut G = if slot < 11 { &mut p2[slot] } else if slot < 11 + l.len() { &mut l2[slot - 11] } else { &mut r2[slot - 11 - l.len()] };
                if target.is_zero() {
                    continue;
                }
                *target = (target.into_group() + t.into_group()).into_affine();
                let altered = R1CSProof::verif_from_parts(p2, scs, InnerProductProof::verif_from_parts(l2, r2, a, b));
                tried += 1;
                if verify(&altered) {
                    accepted.push(format!("slot {} + small-order point #{}", slot, ti));
                }
            }
        }
        out.push((format!("{}: {} alterations of one group element by a point of small order are all rejected (accepted: {:?})", shape.name, tried, &accepted[..accepted.len().min(4)]), accepted.is_empty()));
    }
    out
}

pub fn c04_cases(thorough: bool) -> Vec<C04Case> {
    use crate::r1cs::Op::*;
    let one = Shape::new("one_gate", &[Commit, AllocMul, Con], &[]);
    let two = Shape::new("two_gates", &[Commit, AllocMul, Mul, Con], &[]);
    let twop = Shape::new("two_phase", &[Commit, AllocMul, Con], &[&[Chal, Mul, Con]]);
    let mut v = vec![];
    let mut add = |shape: &Shape, f: FieldId| v.push(C04Case { name: format!("{}_{}", shape.name, f.name()), shape: shape.clone(), fields: vec![f], swap: false });
    // one-phase, padded 2: every field once
    for k in 0..11 {
        add(&two, FieldId::Point(k));
    }
    for k in 0..3 {
        add(&two, FieldId::Scalar(k));
    }
    add(&two, FieldId::L(0));
    add(&two, FieldId::R(0));
    add(&two, FieldId::A);
    add(&two, FieldId::B);
    // two-phase: the second-phase commitments and the final scalars
    for k in 3..6 {
        add(&twop, FieldId::Point(k));
    }
    add(&twop, FieldId::A);
    add(&twop, FieldId::B);
    add(&one, FieldId::A);
    add(&one, FieldId::Point(6));
    add(&one, FieldId::Scalar(1));
    add(&one, FieldId::Scalar(2));
    // no multiplication gate at all (honest a = 0, b = -1, t_x = 0): the final scalars are still bound
    let zero = Shape::new("zero_gates", &[Commit, Commit, ConCommitted], &[]);
    add(&zero, FieldId::A);
    add(&zero, FieldId::B);
    add(&zero, FieldId::Scalar(0));
    let zero2 = Shape::new("zero_gates_two_phase", &[Commit, Commit], &[&[Chal, ConCommitted]]);
    add(&zero2, FieldId::A);
    add(&zero2, FieldId::B);
    let four_q = Shape::new("three_gates_pad4", &[Commit, AllocMul, AllocMul, Mul, Con], &[]);
    add(&four_q, FieldId::R(0));
    add(&four_q, FieldId::L(1));
    v.push(C04Case { name: "swap_A_I1_A_O1".into(), shape: two.clone(), fields: vec![FieldId::Point(0), FieldId::Point(1)], swap: true });
    v.push(C04Case { name: "swap_T_1_T_3".into(), shape: two.clone(), fields: vec![FieldId::Point(6), FieldId::Point(7)], swap: true });
    v.push(C04Case { name: "swap_L0_R0".into(), shape: two.clone(), fields: vec![FieldId::L(0), FieldId::R(0)], swap: true });
    v.push(C04Case { name: "swap_a_b".into(), shape: two.clone(), fields: vec![FieldId::A, FieldId::B], swap: true });
    if thorough {
        let four = Shape::new("pad4_two_phase", &[Commit, Commit, AllocMul, Mul, Con], &[&[Chal, AllocMul, Con]]);
        let mut add2 = |f: FieldId| v.push(C04Case { name: format!("pad4_{}", f.name()), shape: four.clone(), fields: vec![f], swap: false });
        for k in 0..11 {
            add2(FieldId::Point(k));
        }
        for k in 0..3 {
            add2(FieldId::Scalar(k));
        }
        for j in 0..2 {
            add2(FieldId::L(j));
            add2(FieldId::R(j));
        }
        add2(FieldId::A);
        add2(FieldId::B);
    }
    v
}

/// Concrete companion for the byte-level clause: every single-bit flip (stride 1) of the encoding of
/// an honest proof is rejected at decoding or at verification, or decodes to the identical object.
pub fn bitflip_native<G: AffineRepr + 'static>(seed: u64, stride: usize) -> Vec<(String, bool)> {
    let mut out = vec![];
    use crate::r1cs::Op::*;
    for shape in [Shape::new("two_gates", &[Commit, AllocMul, Mul, Con], &[]), Shape::new("two_phase_1_2", &[Commit, AllocMul, Con], &[&[Chal, AllocMul, Mul, Con]])] {
        let pad = shape.padded();
        let pc = pc_for::<G>(&shape.name, seed);
        let bp = BulletproofGens::<G>::new(pad, 1);
        let shr = new_shared::<G>(&shape, &Default::default(), Box::new(PlainVals::<G::ScalarField>::new(Default::default(), seed)));
        let (proof, _) = prove_shape(&shape, &shr, &pc, &bp, seed);
        let proof = match proof {
            Ok(p) => p,
            Err(_) => {
                out.push(("prove succeeds".into(), false));
                continue;
            }
        };
        let bytes = proof.to_bytes().unwrap();
        let (mut at_decode, mut at_verify, mut identical, mut accepted) = (0usize, 0usize, 0usize, vec![]);
        let mut bit = (seed as usize) % stride.max(1);
        while bit < bytes.len() * 8 {
            let mut b2 = bytes.clone();
            b2[bit / 8] ^= 1 << (bit % 8);
            match R1CSProof::<G>::from_bytes(&b2) {
                Err(_) => at_decode += 1,
                Ok(p2) => {
                    if p2.to_bytes().map(|x| x == bytes).unwrap_or(false) {
                        identical += 1;
                    } else {
                        rewind_for_verifier(&shr);
                        let mut vt = new_verifier_transcript(&shape);
                        if build_verifier(&shape, &shr, &mut vt).verify(&p2, &pc, &bp).is_ok() {
                            accepted.push(bit);
                        } else {
                            at_verify += 1;
                        }
                    }
                }
            }
            bit += stride.max(1);
        }
        out.push((format!("{}: {} bytes, bit stride {}: {} flips rejected at decoding, {} at verification, {} decode to the identical object, accepted-but-different at bits {:?}", shape.name, bytes.len(), stride, at_decode, at_verify, identical, &accepted[..accepted.len().min(5)]), accepted.is_empty()));
    }
    out
}
