//! C05: statement and context binding.  An honest proof is checked against a verifier statement
//! that deviates in exactly one way; the verifier's combined check must be a non-zero polynomial.
#![allow(non_snake_case)]
use crate::arena::{self, Lin};
use crate::field::{Inner, SymF};
use crate::group::{Base, SymA};
use crate::job::*;
use crate::r1cs::*;
use crate::scen_r1cs::*;
use ark_bulletproofs::{BulletproofGens, PedersenGens};
use ark_ec::{AffineRepr, CurveGroup};
use ark_ff::{UniformRand, Zero};
use rand_core::SeedableRng;
use serde::{Deserialize, Serialize};
use std::collections::BTreeMap;

/// number of symbolic shifts prepared per kind for `Dev::AllConsts` / `Dev::AllCoeffs` (more than any case draws)
pub const N_ALL_DEV: usize = 24;

#[derive(Clone, Debug, Serialize, Deserialize, PartialEq)]
pub enum Dev {
    ReplaceV(usize),
    /// cofactor curves only: the verifier's commitment differs by a small-order point
    ReplaceVTorsion(usize),
    SwapV(usize, usize),
    /// the shape contains CommitExtraV / CommitSkipV / MsgDev / verifier_label / verifier_pre_msg
    InShape,
    /// shift the k-th coefficient draw ("c") / carried constant ("const") on the verifier side
    Coeff(usize),
    Const(usize),
    /// every carried constant / every coefficient on the verifier side gets its own symbolic shift
    AllConsts,
    AllCoeffs,
    BlindBase,
    ValueBase,
}

#[derive(Clone, Debug, Serialize, Deserialize)]
pub struct C05Case {
    pub name: String,
    pub shape: Shape,
    pub dev: Dev,
    /// must the deviation change the verifier's challenges (it precedes every squeeze)?
    pub changes_transcript: bool,
}

/// Apply the deviation to the shared state / bases (generic: carriers or plain curve).
pub fn apply_dev<G: AffineRepr>(case: &C05Case, shr: &std::rc::Rc<std::cell::RefCell<Shared<G>>>, pc: &PedersenGens<G>, rng: &mut rand_chacha::ChaChaRng, delta: G::ScalarField, torsion: &Option<Vec<G>>) -> (PedersenGens<G>, Option<G>) {
    let mut sh = shr.borrow_mut();
    let mut vpc = *pc;
    let mut fresh = None;
    let mut new_point = |rng: &mut rand_chacha::ChaChaRng| -> G { G::Group::rand(rng).into_affine() };
    if sh.extra_commitment.is_none() {
        sh.extra_commitment = Some(new_point(rng));
    }
    match &case.dev {
        Dev::ReplaceVTorsion(j) => {
            if let Some(ts) = torsion {
                let t = ts[0];
                fresh = Some(t);
                let nv: G = (sh.verifier_commitments[*j].into_group() + t.into_group()).into_affine();
                sh.verifier_commitments[*j] = nv;
            }
        }
        Dev::ReplaceV(j) => {
            let D = new_point(rng);
            fresh = Some(D);
            let nv: G = (sh.verifier_commitments[*j].into_group() + D * delta).into_affine();
            sh.verifier_commitments[*j] = nv;
        }
        Dev::SwapV(i, j) => sh.verifier_commitments.swap(*i, *j),
        Dev::InShape | Dev::AllConsts | Dev::AllCoeffs => {}
        Dev::Coeff(k) => {
            sh.dev_draw = Some(("c".into(), *k));
            sh.dev_delta = Some(delta);
        }
        Dev::Const(k) => {
            sh.dev_draw = Some(("const".into(), *k));
            sh.dev_delta = Some(delta);
        }
        Dev::BlindBase => {
            let D = new_point(rng);
            fresh = Some(D);
            vpc.B_blinding = D;
        }
        Dev::ValueBase => {
            let D = new_point(rng);
            fresh = Some(D);
            vpc.B = D;
        }
    }
    (vpc, fresh)
}

pub fn job_c05<C: Base + 'static>(case: &C05Case, seed: u64, curve: &str, torsion: Option<Vec<C>>) -> Job
where
    C::ScalarField: Inner,
{
    let torsion: Option<Vec<SymA<C>>> = torsion.map(|v| v.into_iter().map(SymA::concrete).collect());
    arena::reset();
    arena::set_ctx("setup");
    let shape = &case.shape;
    let mut job = Job { property: "C05".into(), scenario: format!("C05:{}:{}", case.name, curve), curve: curve.into(), seed, shape: serde_json::to_value(case).unwrap(), ..Default::default() };
    let pad = shape.padded();
    let pc = pc_for::<SymA<C>>(&shape.name, seed);
    let bp = BulletproofGens::<SymA<C>>::new(pad, 1);
    let bases = name_bases(&pc, &bp, pad);
    let shr = new_shared::<SymA<C>>(shape, &Default::default(), Box::new(SymVals::<C::ScalarField>::new(seed)));
    {
        // the point used by the MsgPointV / CommitExtraV deviations must exist before the prover runs
        let mut r0 = rand_chacha::ChaChaRng::seed_from_u64(seed ^ 0xe7);
        let p = SymA::concrete(C::Group::rand(&mut r0).into_affine());
        p.name_basis("Extra");
        shr.borrow_mut().extra_commitment = Some(p);
    }
    arena::set_ctx("prove");
    let (proof, _pt) = prove_shape(shape, &shr, &pc, &bp, seed);
    let proof = match proof {
        Ok(p) => p,
        Err(e) => {
            job.check("prove returns Ok", false, format!("{:?}", e));
            job.stats = stats();
            return job;
        }
    };
    let prover_cons = shr.borrow().cons.clone();
    // sanity: the undeviated statement is accepted
    rewind_for_verifier(&shr);
    arena::set_ctx("verify_honest");
    {
        // honest verification uses the shape without its in-shape deviations
        let mut honest = shape.clone();
        honest.verifier_label = None;
        honest.verifier_pre_msg = None;
        let strip = |ops: &Vec<Op>| -> Vec<Op> {
            ops.iter()
                .filter(|o| !matches!(o, Op::CommitExtraV | Op::CommitExtraDupV))
                .map(|o| match o {
                    Op::MsgDev(a, _) => Op::MsgDev(a.clone(), a.clone()),
                    Op::CommitSkipV => Op::Commit,
                    Op::CommitDupSkipV => Op::CommitDup,
                    Op::MsgPointV => Op::MsgPointVHonest,
                    x => x.clone(),
                })
                .collect()
        };
        honest.phase1 = strip(&honest.phase1);
        honest.phase2 = honest.phase2.iter().map(|p| strip(p)).collect();
        let mut vt = new_verifier_transcript(&honest);
        let res = build_verifier(&honest, &shr, &mut vt).verify(&proof, &pc, &bp);
        job.check("the proof is accepted for its own statement", res.is_ok(), format!("{:?}", res));
    }
    rewind_for_verifier(&shr);
    let honest_commitments = shr.borrow().commitments.clone();
    shr.borrow_mut().verifier_commitments = honest_commitments;
    arena::set_ctx("setup");
    let mut rng = rand_chacha::ChaChaRng::seed_from_u64(seed ^ 0xc05);
    let mut dv = SymVals::<C::ScalarField>::new(seed ^ 0xde);
    let delta = dv.fresh("delta");
    let (vpc, fresh) = apply_dev(case, &shr, &pc, &mut rng, delta, &torsion);
    if matches!(case.dev, Dev::AllConsts | Dev::AllCoeffs) {
        let (kind, name) = if case.dev == Dev::AllConsts { ("const", "dconst") } else { ("c", "dcoef") };
        let ds: Vec<SymF<C::ScalarField>> = (0..N_ALL_DEV).map(|_| dv.fresh(name)).collect();
        shr.borrow_mut().dev_all.insert(kind.to_string(), ds);
    }
    if let Some(D) = fresh {
        D.name_basis("Dev");
    }
    arena::set_ctx("verify");
    let mut vt = new_verifier_transcript(shape);
    let res = build_verifier(shape, &shr, &mut vt).verify(&proof, &vpc, &bp);
    arena::set_ctx("post");
    job.concrete = serde_json::json!({"verify_deviating_statement": format!("{:?}", res), "expected": "Err"});
    job.check("concrete verdict: the deviating statement is rejected on the shadow curve", res.is_err(), format!("{:?}", res));
    let evs = events_in("verify");
    let r_pos = arena::with(|a| a.chals.iter().filter(|c| c.ctx == "verify" && c.label == "r").map(|c| c.merlin_pos).last());
    let residual: Option<Lin> = match (evs.iter().rev().find(|e| e.kind == "pzero"), r_pos) {
        (Some(e), Some(rp)) if e.merlin_pos >= rp => Some(e.lin.clone()),
        _ => None,
    };
    let vch = split_verifier_chals(&chals_in::<C::ScalarField>("verify"));
    let fresh_labels: Vec<String> = arena::with(|a| a.chals.iter().filter(|c| c.ctx == "verify" && c.fresh).map(|c| c.label.clone()).collect());
    let x_fresh = arena::with(|a| a.chals.iter().any(|c| c.ctx == "verify" && c.fresh && c.label == "x"));
    job.params = serde_json::json!({"fresh_challenges_on_verifier_side": fresh_labels, "deviation": case.dev});
    if case.changes_transcript {
        job.check("the deviation changes every challenge from x on (it is absorbed before any squeeze)", x_fresh, format!("fresh: {:?}", fresh_labels));
    }
    if matches!(case.dev, Dev::AllConsts | Dev::AllCoeffs) {
        // no oracle: search for shifts under which the committed values / wires violate some shifted constraint
        // and the combined check still vanishes for every value of the challenges
        match &residual {
            Some(res_lin) => {
                let sh = shr.borrow();
                let lit0 = arena::with(|a| a.lit0);
                let viol: Vec<u32> = sh.con_vals.iter().map(|v| v.tid()).filter(|t| *t != lit0).collect();
                job.check("the shifted statement differs from the proven one on the shadow values", sh.con_vals.iter().any(|v| !v.v.is_zero()), String::new());
                match rejection_query_group("accepted_deviation_search", "", res_lin, &viol, "no assignment of shifts to the verifier's constants (coefficients) under which some shifted constraint is violated by the committed values and wires makes the combined check vanish for all challenge values: compensating deviations in different constraints cannot cancel") {
                    Ok(mut g) => {
                        g.only_if_failed = None;
                        job.groups.push(g);
                    }
                    Err(e) => job.inconclusive.push(format!("late-variable expansion failed: {}", e)),
                }
            }
            None => {
                if res.is_err() {
                    job.inconclusive.push(format!("no combined-check event (verdict {:?})", res));
                }
            }
        }
        job.path_conditions = describe_events(&evs[..evs.len().min(6)]);
        job.stats = stats();
        job.replay = serde_json::json!({"kind": "c05", "case": case, "seed": seed});
        return job;
    }
    match (residual, vch) {
        (Some(res_lin), Ok(vc)) => {
            if x_fresh {
                // all challenges from x on are new and independent of the (fixed) proof: the blinding of
                // A_I1 is the coefficient of the monomial x on Bblind
                let late: std::collections::HashSet<u32> = arena::with(|a| a.chals.iter().filter(|c| c.ctx == "verify" && c.fresh).map(|c| c.tid).collect());
                let mut one: Lin = BTreeMap::new();
                if let Some(c) = res_lin.get(&bases.Bb) {
                    one.insert(bases.Bb, *c);
                }
                match expand_lin(&one, &late) {
                    Ok((coefs, deg)) => {
                        let xm: Vec<(u32, i32)> = vec![(vc.x.id, 1)];
                        let got = coefs.iter().find(|c| c.1 == xm).map(|c| c.3);
                        let (pts, _, _) = proof.verif_parts();
                        let rho = pts[0].lin().get(&bases.Bb).copied();
                        match (got, rho) {
                            (Some(g), Some(r)) => {
                                let mut grp = identity_group("detecting_coefficient", "C", "with every challenge from x on fresh, the coefficient of the monomial x (alone) of the Bblind-coordinate of the combined check is exactly the blinding draw of A_I1: the check is a non-zero polynomial in the fresh challenges whenever that draw is non-zero", vec![("[Bblind] coefficient of x".into(), g, r)]);
                                grp.late_degree = deg;
                                job.groups.push(grp);
                                let is_rng = arena::with(|a| a.var_name(r).map(|n| n.starts_with("rng")).unwrap_or(false));
                                job.check("the detecting coefficient is a fresh RNG draw (non-zero except with probability 1/q)", is_rng, String::new());
                            }
                            _ => job.inconclusive.push("no x-coefficient on Bblind / A_I1 without blinding".into()),
                        }
                    }
                    Err(e) => job.inconclusive.push(format!("expansion: {}", e)),
                }
            } else {
                let sh = shr.borrow();
                match &case.dev {
                    Dev::Coeff(_) | Dev::Const(_) => {
                        let want_b = oracle_residual_b(vc.r, vc.x, vc.y, vc.z, &sh.con_vals, &sh.gates);
                        let mut want: Lin = BTreeMap::new();
                        want.insert(bases.B, want_b.tid());
                        // a changed coefficient on a committed variable also moves the weight of that
                        // commitment's blinding part: -r x^2 sum_q z^(q+1) sum_j (coeff' - coeff) vblind_j
                        let mut bb = SymF::<C::ScalarField>::zero();
                        let mut zp = vc.z;
                        for (q, (terms, _)) in sh.cons.iter().enumerate() {
                            for (ti, (k, j, coeff)) in terms.iter().enumerate() {
                                if *k == VK::C {
                                    let old = prover_cons.get(q).and_then(|c| c.0.get(ti)).map(|t| t.2).unwrap_or(SymF::zero());
                                    let d = *coeff - old;
                                    if d.id != 0 || !d.v.is_zero() {
                                        bb += zp * d * sh.v_blinding[*j];
                                    }
                                }
                            }
                            zp *= vc.z;
                        }
                        let bbt = (-(vc.r * vc.x * vc.x * bb)).tid();
                        if bbt != arena::with(|a| a.lit0) {
                            want.insert(bases.Bb, bbt);
                        }
                        job.groups.push(identity_group("residual_characterisation", "C", "the combined check equals -r x^2 z^(q+1) * (value of the deviating constraint on the committed values) * B (plus, for a changed coefficient of a committed variable, -r x^2 z^(q+1) delta vblind_j * Bblind): non-zero for all non-zero challenges whenever the committed values do not satisfy the changed constraint", lin_eq_items("mega_check", &res_lin, &want)));
                        let viol: Vec<&SymF<C::ScalarField>> = sh.con_vals.iter().filter(|v| !v.v.is_zero()).collect();
                        job.check("exactly the deviating constraint is violated, by delta times a committed value / by delta", viol.len() == 1, format!("{} violated constraints", viol.len()));
                    }
                    Dev::BlindBase | Dev::ValueBase => {
                        let (_, scs, ipp) = proof.verif_parts();
                        let (_, _, a, b) = ipp.verif_parts();
                        let fresh_b = arena::with(|ar| ar.basis_names.iter().position(|n| n == "Dev").map(|p| p as u32));
                        let (old, scalar) = if case.dev == Dev::BlindBase {
                            (bases.Bb, -scs[2] - vc.r * scs[1])
                        } else {
                            let fl = crate::oracle::flatten(&sh.cons, sh.gates.len(), sh.v.len(), vc.z);
                            let yinv = ark_ff::Field::inverse(&vc.y).unwrap();
                            let mut delta_c = SymF::<C::ScalarField>::zero();
                            let mut yp = SymF::<C::ScalarField>::from(1u64);
                            for i in 0..sh.gates.len() {
                                delta_c += yp * fl.wR[i] * fl.wL[i];
                                yp *= yinv;
                            }
                            (bases.B, vc.w * (scs[0] - a * b) + vc.r * (vc.x * vc.x * (fl.wc + delta_c) - scs[0]))
                        };
                        if let Some(fb) = fresh_b {
                            let mut want: Lin = BTreeMap::new();
                            want.insert(fb, scalar.tid());
                            want.insert(old, (-scalar).tid());
                            job.groups.push(identity_group("residual_characterisation", "C", "with a different base on the verifier's side the combined check equals s*(Base' - Base), s the verifier's own scalar for that base (-(e_blinding + r t_x_blinding) resp. w(t_x - ab) + r(x^2(wc+delta) - t_x)): rejected unless s vanishes", lin_eq_items("mega_check", &res_lin, &want)));
                            // s is a non-zero polynomial: its r-free part (blinding base) resp. r-part at x^6 (value base)
                            let late_r: std::collections::HashSet<u32> = [vc.r.id].into_iter().collect();
                            let mut one: Lin = BTreeMap::new();
                            one.insert(0, scalar.tid());
                            if let Ok((coefs, _)) = expand_lin(&one, &late_r) {
                                if case.dev == Dev::BlindBase {
                                    let c0 = coefs.iter().find(|c| c.1.is_empty()).map(|c| c.3);
                                    if let Some(c0) = c0 {
                                        job.groups.push(identity_group("scalar_nonzero", "C", "the r-free part of the verifier's Bblind scalar is -e_blinding", vec![("[1] of s".into(), c0, (-scs[2]).tid())]));
                                    }
                                } else {
                                    let c1 = coefs.iter().find(|c| c.1 == vec![(vc.r.id, 1)]).map(|c| c.3);
                                    let late_x: std::collections::HashSet<u32> = [vc.x.id].into_iter().collect();
                                    if let Some(c1) = c1 {
                                        let mut o2: Lin = BTreeMap::new();
                                        o2.insert(0, c1);
                                        if let Ok((cx, _)) = expand_lin(&o2, &late_x) {
                                            let c6 = cx.iter().find(|c| c.1 == vec![(vc.x.id, 6)]).map(|c| c.3);
                                            // closed form: -t_6 = -sum_i y^i sL_i sR_i
                                            let (pts, _, _) = proof.verif_parts();
                                            let mut t6 = SymF::<C::ScalarField>::zero();
                                            let mut yp = SymF::<C::ScalarField>::from(1u64);
                                            let s_all = {
                                                let mut l = pts[2].lin();
                                                for (k, v) in pts[5].lin() {
                                                    l.insert(k, v);
                                                }
                                                l
                                            };
                                            let sf = |t: Option<&u32>| -> SymF<C::ScalarField> {
                                                match t {
                                                    Some(t) => {
                                                        let limbs = arena::with(|a| a.var_shadow.get(t).cloned());
                                                        match limbs {
                                                            Some(l) => {
                                                                let mut x = [0u64; 4];
                                                                x.copy_from_slice(&l);
                                                                SymF::from_tid(<C::ScalarField as ark_ff::PrimeField>::from_bigint(ark_ff::BigInt::<4>(x)).unwrap(), *t)
                                                            }
                                                            None => SymF::zero(),
                                                        }
                                                    }
                                                    None => SymF::zero(),
                                                }
                                            };
                                            for i in 0..sh.gates.len() {
                                                t6 += yp * sf(s_all.get(&bases.G[i])) * sf(s_all.get(&bases.H[i]));
                                                yp *= vc.y;
                                            }
                                            if let Some(c6) = c6 {
                                                job.groups.push(identity_group("scalar_nonzero", "C", "the coefficient of r*x^6 of the verifier's B scalar is -sum_i y^i sL_i sR_i (a non-zero polynomial in y with at least one gate)", vec![("[r x^6] of s".into(), c6, (-t6).tid())]));
                                            } else {
                                                job.inconclusive.push("no r*x^6 coefficient in the B scalar".into());
                                            }
                                        }
                                    }
                                }
                            }
                        }
                    }
                    _ => {
                        // a deviation that should have changed the transcript did not: the structural check above fails
                    }
                }
            }
        }
        (None, _) => {
            if res.is_ok() {
                // accepted: the structural concrete check above already fails
            } else {
                job.inconclusive.push(format!("no combined-check event (verdict {:?})", res));
            }
        }
        (_, Err(e)) => job.inconclusive.push(format!("challenge split: {}", e)),
    }
    job.path_conditions = describe_events(&evs[..evs.len().min(6)]);
    job.stats = stats();
    job.replay = serde_json::json!({"kind": "c05", "case": case, "seed": seed});
    job
}

/// Native: the deviating statement must be rejected.
pub fn c05_native<G: AffineRepr + 'static>(case: &C05Case, seed: u64, model: std::collections::HashMap<String, String>, torsion: Option<Vec<G>>) -> Vec<(String, bool)> {
    if matches!(case.dev, Dev::ReplaceVTorsion(_)) && torsion.is_none() {
        return vec![];
    }
    let mut out = vec![];
    let shape = &case.shape;
    let pad = shape.padded();
    let pc = pc_for::<G>(&shape.name, seed);
    let bp = BulletproofGens::<G>::new(pad, 1);
    let model2 = model.clone();
    let delta = model.get("delta0").and_then(|s| parse_rational::<G::ScalarField>(s)).filter(|d| !d.is_zero()).unwrap_or(G::ScalarField::from(seed + 3));
    let shr = new_shared::<G>(shape, &Default::default(), Box::new(PlainVals::<G::ScalarField>::new(model, seed)));
    {
        let mut r0 = rand_chacha::ChaChaRng::seed_from_u64(seed ^ 0xe7);
        shr.borrow_mut().extra_commitment = Some(G::Group::rand(&mut r0).into_affine());
    }
    let (proof, _) = prove_shape(shape, &shr, &pc, &bp, seed);
    let proof = match proof {
        Ok(p) => p,
        Err(_) => {
            out.push(("prove succeeds".into(), false));
            return out;
        }
    };
    rewind_for_verifier(&shr);
    {
        let mut honest = shape.clone();
        honest.verifier_label = None;
        honest.verifier_pre_msg = None;
        let strip = |ops: &Vec<Op>| -> Vec<Op> {
            ops.iter()
                .filter(|o| !matches!(o, Op::CommitExtraV | Op::CommitExtraDupV))
                .map(|o| match o {
                    Op::MsgDev(a, _) => Op::MsgDev(a.clone(), a.clone()),
                    Op::CommitSkipV => Op::Commit,
                    Op::CommitDupSkipV => Op::CommitDup,
                    Op::MsgPointV => Op::MsgPointVHonest,
                    x => x.clone(),
                })
                .collect()
        };
        honest.phase1 = strip(&honest.phase1);
        honest.phase2 = honest.phase2.iter().map(|p| strip(p)).collect();
        let mut vt = new_verifier_transcript(&honest);
        let res = build_verifier(&honest, &shr, &mut vt).verify(&proof, &pc, &bp);
        out.push(("the proof is accepted for its own statement".into(), res.is_ok()));
    }
    rewind_for_verifier(&shr);
    let honest_commitments = shr.borrow().commitments.clone();
    shr.borrow_mut().verifier_commitments = honest_commitments;
    let mut rng = rand_chacha::ChaChaRng::seed_from_u64(seed ^ 0xc05);
    let (vpc, _) = apply_dev(case, &shr, &pc, &mut rng, delta, &torsion);
    if matches!(case.dev, Dev::AllConsts | Dev::AllCoeffs) {
        // shifts from the solver's model where it names them, random otherwise
        let (kind, name) = if case.dev == Dev::AllConsts { ("const", "dconst") } else { ("c", "dcoef") };
        let mut dvals = PlainVals::<G::ScalarField>::new(model2.clone(), seed ^ 0xde);
        let ds: Vec<G::ScalarField> = (0..N_ALL_DEV).map(|_| dvals.fresh(name)).collect();
        shr.borrow_mut().dev_all.insert(kind.to_string(), ds);
        let mut vt = new_verifier_transcript(shape);
        let res = build_verifier(shape, &shr, &mut vt).verify(&proof, &vpc, &bp);
        let unsatisfied = shr.borrow().con_vals.iter().any(|v| !v.is_zero());
        out.push((format!("shifted statement ({:?}) that the committed values do not satisfy is rejected (unsatisfied: {}, verdict ok: {})", case.dev, unsatisfied, res.is_ok()), !(unsatisfied && res.is_ok())));
        return out;
    }
    let mut vt = new_verifier_transcript(shape);
    let res = build_verifier(shape, &shr, &mut vt).verify(&proof, &vpc, &bp);
    out.push((format!("deviating statement ({:?}) is rejected", case.dev), res.is_err()));
    // ... and through batch verification: alone, and next to the proof's own statement (either order)
    {
        let mut honest_shape = shape.clone();
        honest_shape.verifier_label = None;
        honest_shape.verifier_pre_msg = None;
        let plain_dev = !shape.phase1.iter().chain(shape.phase2.iter().flatten()).any(|o| matches!(o, Op::CommitExtraV | Op::CommitExtraDupV | Op::CommitSkipV | Op::CommitDupSkipV | Op::MsgDev(_, _) | Op::MsgPointV));
        for order in 0..3 {
            if order > 0 && (!plain_dev || vpc.B != pc.B || vpc.B_blinding != pc.B_blinding) {
                // (the honest neighbour needs the same skeleton and the same bases)
                continue;
            }
            let dev_fork = fork_for_verifier(shape, &shr);
            let hon_fork = fork_for_verifier(&honest_shape, &shr);
            {
                let mut h = hon_fork.borrow_mut();
                h.dev_draw = None;
                h.dev_delta = None;
                h.dev_all.clear();
                h.verifier_commitments = h.commitments.clone();
            }
            let (mut t1, mut t2) = (new_verifier_transcript(shape), { let mut hs = honest_shape.clone(); hs.verifier_label = None; new_verifier_transcript(&hs) });
            let dv = build_verifier(shape, &dev_fork, &mut t1);
            let insts = match order {
                0 => vec![(dv, &proof)],
                1 => vec![(build_verifier(&honest_shape, &hon_fork, &mut t2), &proof), (dv, &proof)],
                _ => vec![(dv, &proof), (build_verifier(&honest_shape, &hon_fork, &mut t2), &proof)],
            };
            let mut brng = rand_chacha::ChaChaRng::seed_from_u64(seed ^ 0xba7d);
            let ok = ark_bulletproofs::r1cs::batch_verify(&mut brng, insts, &vpc, &bp).is_ok();
            out.push((format!("deviating statement ({:?}) is rejected by batch verification ({})", case.dev, ["alone", "after the proof's own statement", "before the proof's own statement"][order]), !ok));
        }
    }
    // the proof presented for a statement of another size (two more gates: the padded size differs), singly and in a batch
    {
        let mut bigger = shape.clone();
        bigger.verifier_label = None;
        bigger.verifier_pre_msg = None;
        let pad0 = shape.padded();
        while bigger.padded() == pad0 {
            bigger.phase1.push(Op::AllocMul);
        }
        let bp_big = BulletproofGens::<G>::new(bigger.padded(), 1);
        let f = fork_for_verifier(&bigger, &shr);
        let mut vt = new_verifier_transcript(&bigger);
        let single = build_verifier(&bigger, &f, &mut vt).verify(&proof, &pc, &bp_big).is_err();
        let f2 = fork_for_verifier(&bigger, &shr);
        let mut vt2 = new_verifier_transcript(&bigger);
        let v2 = build_verifier(&bigger, &f2, &mut vt2);
        let mut brng = rand_chacha::ChaChaRng::seed_from_u64(seed ^ 0xba7e);
        let batch = ark_bulletproofs::r1cs::batch_verify(&mut brng, vec![(v2, &proof)], &pc, &bp_big).is_err();
        out.push((format!("the proof is rejected for a statement with more gates (padded size {} instead of {}): singly {} / in a batch {}", bigger.padded(), pad0, single, batch), single && batch));
    }
    // the same proof presented in one batch for two statements that deviate by +delta and -delta
    // (unabsorbed coefficient / constant: both replay the same challenges)
    if matches!(case.dev, Dev::Coeff(_) | Dev::Const(_)) {
        let forks: Vec<_> = [delta, -delta]
            .iter()
            .map(|d| {
                let f = fork_for_verifier(shape, &shr);
                f.borrow_mut().dev_delta = Some(*d);
                f
            })
            .collect();
        let mut ts: Vec<merlin::Transcript> = forks.iter().map(|_| new_verifier_transcript(shape)).collect();
        let mut insts = vec![];
        for (i, vt) in ts.iter_mut().enumerate() {
            insts.push((build_verifier(shape, &forks[i], vt), &proof));
        }
        let mut brng = rand_chacha::ChaChaRng::seed_from_u64(seed ^ 0xba7c);
        let ok = ark_bulletproofs::r1cs::batch_verify(&mut brng, insts, &vpc, &bp).is_ok();
        out.push((format!("one proof batched against two statements deviating by +d and -d ({:?}) is rejected", case.dev), !ok));
    }
    out
}

pub fn c05_cases(thorough: bool) -> Vec<C05Case> {
    use crate::r1cs::Op::*;
    let base = Shape::new("base", &[Commit, Commit, AllocMul, Con, ConCommitted], &[]);
    let two_phase = Shape::new("two_phase", &[Commit, Commit, AllocMul, Con], &[&[Chal, Mul, Con]]);
    let zero = Shape::new("zero_gates", &[Commit, Commit, ConCommitted], &[]);
    let mk = |name: &str, shape: Shape, dev: Dev, ct: bool| C05Case { name: name.into(), shape, dev, changes_transcript: ct };
    let mut v = vec![
        mk("different_commitment", base.clone(), Dev::ReplaceV(1), true),
        mk("different_first_commitment_two_phase", two_phase.clone(), Dev::ReplaceV(0), true),
        mk("reordered_commitments", base.clone(), Dev::SwapV(0, 1), true),
        mk("reordered_with_identity_commitment_equal_weights", Shape::new("sum", &[Commit, Commit, CommitZero, AllocMul, ConSum], &[]), Dev::SwapV(1, 2), true),
        mk("extra_commitment", Shape::new("extra", &[Commit, AllocMul, Con, CommitExtraV], &[]), Dev::InShape, true),
        mk("missing_commitment", Shape::new("missing", &[Commit, AllocMul, Con, CommitSkipV], &[]), Dev::InShape, true),
        // an extra / a missing commitment that EQUALS one already in the list (same value, same blinding factor)
        mk("extra_duplicate_commitment", Shape::new("extra_dup", &[Commit, AllocMul, Con, CommitExtraDupV], &[]), Dev::InShape, true),
        mk("missing_duplicate_commitment", Shape::new("missing_dup", &[Commit, AllocMul, Con, CommitDupSkipV], &[]), Dev::InShape, true),
        mk("application_data_framed_like_a_commitment_vs_extra_commitment", Shape::new("msgpointv", &[Commit, AllocMul, Con, MsgPointV], &[]), Dev::InShape, true),
        mk("commitment_plus_small_order_point", base.clone(), Dev::ReplaceVTorsion(0), true),
        mk("different_label", { let mut s = base.clone(); s.verifier_label = Some("other".into()); s }, Dev::InShape, true),
        mk("different_data_before_construction", { let mut s = base.clone(); s.pre_msg = Some("ctx".into()); s.verifier_pre_msg = Some("cty".into()); s }, Dev::InShape, true),
        mk("missing_data_before_construction", { let mut s = base.clone(); s.pre_msg = Some("ctx".into()); s.verifier_pre_msg = Some("".into()); s }, Dev::InShape, true),
        mk("different_data_during_construction", Shape::new("msgdev", &[Commit, MsgDev("a".into(), "b".into()), AllocMul, Con], &[]), Dev::InShape, true),
        mk("missing_data_during_construction", Shape::new("msgdrop", &[Commit, AllocMul, MsgDev("a".into(), "".into()), Con], &[]), Dev::InShape, true),
        mk("different_data_in_randomized_phase", Shape::new("msgdev2", &[Commit, AllocMul, Con], &[&[Chal, MsgDev("a".into(), "b".into()), AllocMul, Con]]), Dev::InShape, true),
        mk("changed_coefficient_committed_constraint", zero.clone(), Dev::Coeff(0), false),
        mk("changed_constant_committed_constraint", zero.clone(), Dev::Const(0), false),
        mk("changed_constant_with_gates", base.clone(), Dev::Const(1), false),
        // the coefficient of a committed value that the constraint names ahead of its commitment (coefficient draw #3 of
        // this skeleton: two on the first commitment, then the one ahead)
        mk("changed_coefficient_of_a_commitment_named_ahead", Shape::new("ahead", &[Commit, ConAhead, Commit, ConCommitted], &[]), Dev::Coeff(2), false),
        // a constraint that mentions only the constant: its changed constant makes the statement unsatisfiable
        mk("changed_constant_of_constant_only_constraint", Shape::new("const_only", &[Commit, AllocMul, Con, ConConst], &[]), Dev::Const(1), false),
        mk("changed_constant_of_constant_only_constraint_zero_gates", Shape::new("const_only0", &[Commit, ConConst, ConCommitted], &[]), Dev::Const(0), false),
        mk("changed_constant_of_constant_only_constraint_in_randomized_phase", Shape::new("const_only2", &[Commit, AllocMul], &[&[Chal, Con, ConConst]]), Dev::Const(1), false),
        // the deviating coefficient / constant is drawn only by the FIRST of two closures (the second one draws
        // nothing of that kind), so the deviation is addressed to that closure whatever else runs
        mk("changed_coefficient_first_of_two_randomized_gadgets", Shape::new("two_closures", &[Commit, Commit], &[&[Chal, ConCommitted], &[Chal, ConConst]]), Dev::Coeff(2), false),
        mk("changed_constant_first_of_two_randomized_gadgets_with_gates", Shape::new("two_closures_gates", &[Commit, AllocMul], &[&[Chal, Con], &[Chal, AllocMul]]), Dev::Const(0), false),
        mk("all_constants_shifted_two_phase", Shape::new("consts2", &[Commit, Commit, AllocMul, Con, ConCommitted], &[&[Chal, Con, ConCommitted]]), Dev::AllConsts, false),
        mk("all_constants_shifted_two_closures", Shape::new("consts3", &[Commit, ConCommitted], &[&[Chal, ConCommitted], &[Chal, ConCommitted, ConCommitted]]), Dev::AllConsts, false),
        mk("all_constants_shifted_with_multiply", Shape::new("consts_mul", &[Commit, Commit, Mul, Con], &[]), Dev::AllConsts, false),
        mk("all_constants_shifted_with_multiply_in_randomized_phase", Shape::new("consts_mul2", &[Commit, AllocMul], &[&[Chal, Mul, Con]]), Dev::AllConsts, false),
        mk("all_coefficients_shifted_two_phase", Shape::new("coefs2", &[Commit, Commit, ConCommitted], &[&[Chal, ConCommitted]]), Dev::AllCoeffs, false),
        mk("different_blinding_base", base.clone(), Dev::BlindBase, false),
        mk("different_blinding_base_zero_gates", zero.clone(), Dev::BlindBase, false),
        mk("different_value_base_one_gate", base.clone(), Dev::ValueBase, false),
        mk("different_value_base_two_phase", two_phase.clone(), Dev::ValueBase, false),
    ];
    if thorough {
        // the constraint over committed values comes first, so that coefficient draw #3 belongs to it
        let big = Shape::new("pad4", &[Commit, Commit, Commit, ConCommitted, AllocMul, Mul, Alloc, Con], &[&[Chal, AllocMul, Con]]);
        v.push(mk("different_commitment_pad8", big.clone(), Dev::ReplaceV(2), true));
        v.push(mk("reordered_pad8", big.clone(), Dev::SwapV(0, 2), true));
        v.push(mk("changed_coefficient_pad8", big.clone(), Dev::Coeff(3), false));
        v.push(mk("different_value_base_pad8", big.clone(), Dev::ValueBase, false));
        v.push(mk("different_blinding_base_pad8", big, Dev::BlindBase, false));
    }
    v
}
