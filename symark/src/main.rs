#![allow(non_snake_case)]
mod arena;
mod expand;
mod expr;
mod field;
mod group;
mod job;
mod r1cs;
mod refimpl;
mod replay;
mod oracle;
mod scen_c03;
mod scen_c04;
mod scen_c05;
mod scen_c06;
mod scen_c07;
mod scen_c09;
mod scen_c10;
mod scen_c15;
mod scen_c16;
mod scen_c17;
mod scen_c18;
mod scen_native;
mod scen_r1cs;
mod shapes;

use job::Job;
use std::collections::HashMap;
use std::sync::{Arc, Mutex};

type Secq = ark_secq256k1::Affine;
type Zorro = ark_bulletproofs::curve::zorro::G1Affine;
type Ed = ark_curve25519::EdwardsAffine;

/// A unit of work: produces one job.  Runs on its own thread-local arena.
pub struct Task {
    pub name: String,
    /// native replay description, available even when the symbolic run panics
    pub replay: serde_json::Value,
    pub run: Box<dyn FnOnce() -> Job + Send>,
}

fn curve_tasks<F>(curves: &[&str], mut f: F) -> Vec<Task>
where
    F: FnMut(&str) -> Vec<Task>,
{
    curves.iter().flat_map(|c| f(c)).collect()
}

macro_rules! on_curve {
    ($curve:expr, $f:ident, $($arg:expr),*) => {
        match $curve {
            "secq256k1" => $f::<Secq>($($arg),*),
            "zorro" => $f::<Zorro>($($arg),*),
            "curve25519" => $f::<Ed>($($arg),*),
            c => panic!("unknown curve {}", c),
        }
    };
}

/// torsion points (orders 2, 4, 8) of the cofactor-8 curve, obtained as r * P for an unchecked P
fn ed_torsion() -> Vec<Ed> {
    use ark_ec::{AffineRepr, CurveGroup};
    use ark_ff::{PrimeField, UniformRand};
    use rand_core::SeedableRng;
    let mut rng = rand_chacha::ChaChaRng::seed_from_u64(8);
    loop {
        let y = ark_curve25519::Fq::rand(&mut rng);
        if let Some(p) = Ed::get_point_from_y_unchecked(y, true) {
            let t = p.mul_bigint(ark_curve25519::Fr::MODULUS);
            let t2 = t + t;
            let t4 = t2 + t2;
            if !t4.into_affine().is_zero() {
                return vec![t.into_affine(), t2.into_affine(), t4.into_affine()];
            }
        }
    }
}

/// The native (plain curve, no carriers) twin of a scenario kind.
fn native_for<G: ark_ec::AffineRepr + 'static>(kind: &str, rp: &serde_json::Value, seed: u64, m: HashMap<String, String>, torsion: Option<Vec<G>>) -> Vec<(String, bool)> {
    let shape = || -> r1cs::Shape { serde_json::from_value(rp["shape"].clone()).unwrap() };
    match kind {
        "c10" => {
            let case: scen_c10::IppCase = serde_json::from_value(rp["case"].clone()).unwrap();
            replay::c10_native::<G>(&case, seed, m, torsion)
        }
        "c13" => replay::c13_native::<G>(rp["variant"].as_str().unwrap(), seed, m, torsion),
        "c03" | "c18" => replay::diff_native::<G>(&shape(), seed, torsion),
        "c16" => scen_c16::enumerate_opt::<G>(rp["max1"].as_u64().unwrap() as usize, rp["max2"].as_u64().unwrap() as usize, seed, |s| Box::new(job::PlainVals::<r1cs::FOf<G>>::new(HashMap::new(), s)), true).1,
        "c04bits" => scen_c04::bitflip_native::<G>(seed, rp["stride"].as_u64().unwrap_or(3) as usize),
        "c08" => {
            let mut v = scen_native::c08_native::<G>(seed, rp["maxlen"].as_u64().unwrap_or(3) as usize);
            // the child process of the curve this native run is for
            let tn = std::any::type_name::<G>();
            let curve = if tn.contains("zorro") { "zorro" } else if tn.contains("ed25519") || tn.contains("curve25519") { "curve25519" } else { "secq256k1" };
            v.push(c08_child_check(seed, curve));
            v
        }
        "c11" => scen_native::c11_native::<G>(seed, torsion),
        "c12" => {
            // several curves in ONE process (a per-process cache shared between curves would show here)
            let ml = rp["maxlen"].as_u64().unwrap_or(3) as usize + 1;
            let mut v = scen_native::c12_native::<Zorro>(ml);
            v.extend(scen_native::c12_native::<G>(ml));
            v.extend(scen_native::c12_native::<Ed>(ml));
            v.extend(scen_native::c12_native::<Secq>(ml));
            v
        }
        "c17" => scen_c17::capacity_grid::<G>(&shape(), seed, || Box::new(job::PlainVals::<r1cs::FOf<G>>::new(HashMap::new(), seed))),
        "c04" => {
            let case: scen_c04::C04Case = serde_json::from_value(rp["case"].clone()).unwrap();
            scen_c04::c04_native::<G>(&case, seed)
        }
        "c05" => {
            let case: scen_c05::C05Case = serde_json::from_value(rp["case"].clone()).unwrap();
            scen_c05::c05_native::<G>(&case, seed, m, torsion)
        }
        "c02wide" => scen_r1cs::c02_native_companion::<G>(seed),
        "c04torsion" => match &torsion {
            Some(t) => scen_c04::c04_torsion_native::<G>(seed, t),
            None => vec![],
        },
        "c07torsion" => match &torsion {
            Some(t) => replay::c07_torsion_native::<G>(seed, t),
            None => vec![],
        },
        "c09" => replay::c09_native::<G>(&shape(), seed),
        "c06" => replay::c06_native::<G>(&shape(), seed),
        "c07" => {
            let case: scen_c07::BatchCase = serde_json::from_value(rp["case"].clone()).unwrap();
            replay::c07_native::<G>(&case, seed, m)
        }
        _ => replay::c15_native::<r1cs::FOf<G>>(rp["batch"].as_u64().unwrap(), rp["ntrees"].as_u64().unwrap() as usize, seed, m),
    }
}

/// C08, memory clause: the long-list and inflated-count cases run in a child process with a 3 GB address space
fn c08_child_check(seed: u64, curve: &str) -> (String, bool) {
    let exe = std::env::current_exe().unwrap();
    let r = std::process::Command::new("sh").arg("-c").arg(format!("ulimit -v 3145728; exec {} c08-child --seed {} --curve {}", exe.display(), seed, curve)).output();
    let (ok, what) = match r {
        Ok(o) => (o.status.success() && String::from_utf8_lossy(&o.stdout).contains("c08-child ok"), format!("status {:?}; {}", o.status.code(), String::from_utf8_lossy(&o.stderr).lines().last().unwrap_or("").to_string())),
        Err(e) => (false, format!("{}", e)),
    };
    (format!("proofs with two round lists of k = 5..31 entries are decoded, verified and batch-verified, and encodings with inflated list counts are decoded (FormatError), inside a 3 GB address space without the process aborting (child process, {}): {}", curve, what), ok)
}

fn native_job(prop: &str, name: &str, curve: &str, seed: u64, checks: Vec<(String, bool)>, replay: serde_json::Value) -> Job {
    let mut job = Job { property: prop.into(), scenario: format!("{}:{}:{}", prop, name, curve), curve: curve.into(), seed, ..Default::default() };
    for (n, ok) in checks {
        job.check(&n, ok, String::new());
    }
    job.params = serde_json::json!({"kind": "concrete native companion of the Kani harness (no symbolic input)"});
    job.replay = replay;
    job
}

fn tasks_for(prop: &str, tier: &str, seed: u64) -> Vec<Task> {
    let thorough = tier == "thorough";
    let curves: Vec<&str> = if thorough { vec!["secq256k1", "zorro", "curve25519"] } else { vec!["secq256k1"] };
    match prop {
        "C01" => {
            let mut out = vec![];
            {
                // exhaustive small scope: every call sequence with <= 4 (quick: <= 2) first-phase and <= 2 second-phase calls
                for (k, shape) in shapes::exhaustive_skeletons(if thorough { 4 } else { 2 }, 2).into_iter().enumerate() {
                    let c = ["secq256k1", "zorro", "curve25519"][k % 3].to_string();
                    let pad = shape.padded();
                    let (cp, cv) = [(pad, pad), (pad + 1, 2 * pad), (2 * pad, pad)][k % 3];
                    out.push(Task {
                        name: format!("C01:{}:{}:{}-{}", shape.name, c, cp, cv),
                        replay: scen_r1cs::replay_json(&shape, &Default::default(), seed, cp, cv),
                        run: Box::new(move || {
                            use scen_r1cs::job_completeness_soundness as f;
                            let mut j = on_curve!(c.as_str(), f, "C01", &shape, &Default::default(), seed, cp, cv, &c);
                            j.scenario = format!("C01:{}:{}:cap{}-{}", shape.name, c, cp, cv);
                            j
                        }),
                    });
                }
            }
            for (k, shape) in shapes::c01_shapes(thorough, seed).into_iter().enumerate() {
                // rotate the curve of the shadow over the shapes in the quick tier
                let cs: Vec<&str> = if thorough { curves.clone() } else { vec![["secq256k1", "zorro", "curve25519"][k % 3]] };
                for c in cs {
                    let pad = shape.padded();
                    let caps: Vec<(usize, usize)> = if thorough { vec![(pad, pad), (pad + 1, 2 * pad), (2 * pad, pad)] } else { vec![[(pad, pad), (pad + 1, 2 * pad), (2 * pad, pad)][k % 3]] };
                    for (cp, cv) in caps {
                        let (shape, c) = (shape.clone(), c.to_string());
                        out.push(Task {
                            name: format!("C01:{}:{}:{}-{}", shape.name, c, cp, cv),
                            replay: scen_r1cs::replay_json(&shape, &Default::default(), seed, cp, cv),
                            run: Box::new(move || {
                                use scen_r1cs::job_completeness_soundness as f;
                                let mut j = on_curve!(c.as_str(), f, "C01", &shape, &Default::default(), seed, cp, cv, &c);
                                j.scenario = format!("C01:{}:{}:cap{}-{}", shape.name, c, cp, cv);
                                j
                            }),
                        });
                    }
                }
            }
            out
        }
        "C02" => {
            let mut out = vec![];
            {
                // exhaustive small scope: a symbolic error on every constraint and every gate wire of every call
                // sequence with <= 3 (quick: <= 2) first-phase and <= 2 (quick: <= 1) second-phase calls (curve rotated)
                for (k, shape) in (if thorough { shapes::exhaustive_skeletons(3, 2) } else { shapes::exhaustive_skeletons(2, 1) }).into_iter().enumerate() {
                    let (a, b) = shape.gates();
                    let err = shapes::all_errors(&shape);
                    if a + b == 0 && err.con.is_empty() {
                        continue;
                    }
                    let c = ["secq256k1", "zorro", "curve25519"][k % 3].to_string();
                    let pad = shape.padded();
                    out.push(Task {
                        name: format!("C02:all_errors_{}:{}", shape.name, c),
                        replay: scen_r1cs::replay_json(&shape, &err, seed, pad, pad),
                        run: Box::new(move || {
                            use scen_r1cs::job_completeness_soundness as f;
                            let mut j = on_curve!(c.as_str(), f, "C02", &shape, &err, seed, pad, pad, &c);
                            j.scenario = format!("C02:all_errors_{}:{}", shape.name, c);
                            j
                        }),
                    });
                }
            }
            for c in ["secq256k1", "zorro", "curve25519"] {
                if !thorough && c != ["secq256k1", "zorro", "curve25519"][(seed as usize + 1) % 3] {
                    continue;
                }
                let c = c.to_string();
                let replay = serde_json::json!({"kind": "c02wide", "curve": c, "seed": seed});
                out.push(Task {
                    name: format!("C02:native_wide_and_batched:{}", c),
                    replay: replay.clone(),
                    run: Box::new(move || {
                        let checks = match c.as_str() {
                            "secq256k1" => scen_r1cs::c02_native_companion::<Secq>(seed),
                            "zorro" => scen_r1cs::c02_native_companion::<Zorro>(seed),
                            _ => scen_r1cs::c02_native_companion::<Ed>(seed),
                        };
                        native_job("C02", "native_wide_and_batched", &c, seed, checks, replay)
                    }),
                });
            }
            for (k, (shape, err)) in shapes::c02_cases(thorough, seed).into_iter().enumerate() {
                let cs: Vec<&str> = if thorough { curves.clone() } else { vec![["secq256k1", "zorro", "curve25519"][k % 3]] };
                for c in cs {
                    let pad = shape.padded();
                    let (shape, err, c) = (shape.clone(), err.clone(), c.to_string());
                    out.push(Task {
                        name: format!("C02:{}:{}", shape.name, c),
                        replay: scen_r1cs::replay_json(&shape, &err, seed, pad, pad),
                        run: Box::new(move || {
                            use scen_r1cs::job_completeness_soundness as f;
                            let mut j = on_curve!(c.as_str(), f, "C02", &shape, &err, seed, pad, pad, &c);
                            j.scenario = format!("C02:{}:{}", shape.name, c);
                            j
                        }),
                    });
                }
            }
            out
        }
        "C03" => {
            let mut out = vec![];
            for (k, shape) in shapes::c03_shapes(thorough, seed).into_iter().enumerate() {
                let cs: Vec<&str> = if thorough { curves.clone() } else { vec![["secq256k1", "zorro", "curve25519"][k % 3]] };
                for c in cs {
                    let (shape, c) = (shape.clone(), c.to_string());
                    out.push(Task {
                        name: format!("C03:{}:{}", shape.name, c),
                        replay: serde_json::json!({"kind": "c03", "shape": scen_r1cs::shape_json(&shape), "seed": seed}),
                        run: Box::new(move || match c.as_str() {
                            "secq256k1" => scen_c03::job_c03::<Secq>(&shape, seed, &c, None),
                            "zorro" => scen_c03::job_c03::<Zorro>(&shape, seed, &c, None),
                            _ => scen_c03::job_c03::<Ed>(&shape, seed, &c, Some(ed_torsion())),
                        }),
                    });
                }
            }
            out
        }
        "C16" => {
            let mut out = vec![];
            let (m1, m2) = if thorough { (5usize, 2usize) } else { (3usize, 2usize) };
            for c in ["secq256k1", "zorro", "curve25519"] {
                if !thorough && c != ["secq256k1", "zorro", "curve25519"][(seed % 3) as usize] {
                    continue;
                }
                let nparts = if thorough { 32usize } else { 16usize };
                for part in 0..nparts {
                let c = c.to_string();
                out.push(Task {
                    name: format!("C16:enumeration:{}:part{}", c, part),
                    replay: serde_json::json!({"kind": "c16", "max1": m1, "max2": m2, "seed": seed}),
                    run: Box::new(move || {
                        fn f<C: group::Base + 'static>(m1: usize, m2: usize, seed: u64, c: &str, part: usize, nparts: usize) -> Job
                        where
                            C::ScalarField: field::Inner,
                        {
                            arena::reset();
                            let mut job = Job { property: "C16".into(), scenario: format!("C16:enumeration:{}:part{}of{}", c, part, nparts), curve: c.into(), seed, ..Default::default() };
                            let (count, checks) = scen_c16::enumerate_part::<group::SymA<C>>(m1, m2, seed, |s| Box::new(job::SymVals::<C::ScalarField>::new(s)), false, part, nparts);
                            job.params = serde_json::json!({"phase1_calls_up_to": m1, "phase2_calls_up_to": m2, "sequences": count, "part": part, "of": nparts, "alphabet": "commit, commit of an equal point, allocate, allocate_multiplier, multiply, constrain", "witness_modes": "values; all zero; literals 0, 1, -1, 2, ..."});
                            for (n, ok) in checks {
                                job.check(&n, ok, String::new());
                            }
                            job.replay = serde_json::json!({"kind": "c16", "max1": m1, "max2": m2, "seed": seed});
                            job
                        }
                        on_curve!(c.as_str(), f, m1, m2, seed, &c, part, nparts)
                    }),
                });
                }
            }
            out
        }
        "C17" => {
            let mut out = vec![];
            for (k, shape) in scen_c17::c17_shapes(thorough).into_iter().enumerate() {
                let cs: Vec<&str> = if thorough { curves.clone() } else { vec![["secq256k1", "zorro", "curve25519"][k % 3]] };
                for c in cs {
                    let (shape, c) = (shape.clone(), c.to_string());
                    out.push(Task {
                        name: format!("C17:{}:{}", shape.name, c),
                        replay: serde_json::json!({"kind": "c17", "shape": scen_r1cs::shape_json(&shape), "seed": seed}),
                        run: Box::new(move || {
                            use scen_c17::job_c17 as f;
                            on_curve!(c.as_str(), f, &shape, seed, &c)
                        }),
                    });
                }
            }
            out
        }
        "C18" => {
            let mut out = vec![];
            for shape in scen_c18::c18_shapes(thorough).into_iter() {
                for c in ["secq256k1", "zorro", "curve25519"] {
                    let (shape, c) = (shape.clone(), c.to_string());
                    out.push(Task {
                        name: format!("C18:{}:{}", shape.name, c),
                        replay: serde_json::json!({"kind": "c18", "shape": scen_r1cs::shape_json(&shape), "seed": seed}),
                        run: Box::new(move || match c.as_str() {
                            "secq256k1" => scen_c18::job_c18::<Secq>(&shape, seed, &c, None),
                            "zorro" => scen_c18::job_c18::<Zorro>(&shape, seed, &c, None),
                            _ => scen_c18::job_c18::<Ed>(&shape, seed, &c, Some(ed_torsion())),
                        }),
                    });
                }
            }
            // the recorded generator lists are read through the aggregated views and the per-party shares: every way of
            // walking them (collect, nth, skip, step_by, fold, ...) must give the pinned derivation (concrete, shared with C12)
            for c in ["secq256k1", "zorro", "curve25519"] {
                let c = c.to_string();
                let replay = serde_json::json!({"kind": "c12", "curve": c, "maxlen": 3, "seed": seed});
                out.push(Task {
                    name: format!("C18:generator_views:{}", c),
                    replay: replay.clone(),
                    run: Box::new(move || {
                        let checks = match c.as_str() {
                            "secq256k1" => scen_native::c12_native::<Secq>(4),
                            "zorro" => scen_native::c12_native::<Zorro>(4),
                            _ => scen_native::c12_native::<Ed>(4),
                        };
                        native_job("C18", "generator_views", &c, seed, checks, replay)
                    }),
                });
            }
            out
        }
        "C15" => {
            let mut out = vec![];
            for (k, (shape, err)) in shapes::c15_pipeline_cases(thorough, seed).into_iter().enumerate() {
                let c = ["secq256k1", "zorro", "curve25519"][k % 3].to_string();
                let pad = shape.padded();
                let (shape, err) = (shape.clone(), err.clone());
                out.push(Task {
                    name: format!("C15:{}:{}", shape.name, c),
                    replay: scen_r1cs::replay_json(&shape, &err, seed, pad, pad),
                    run: Box::new(move || {
                        use scen_r1cs::job_completeness_soundness as f;
                        let mut j = on_curve!(c.as_str(), f, "C15", &shape, &err, seed, pad, pad, &c);
                        j.scenario = format!("C15:pipeline:{}:{}", shape.name, c);
                        j
                    }),
                });
            }
            for k in 0..(if thorough { 12 } else { 3 }) {
                let c = ["secq256k1", "zorro", "curve25519"][k % 3].to_string();
                let ntrees = if thorough { 60 } else { 30 };
                out.push(Task {
                    name: format!("C15:denotation{}:{}", k, c),
                    replay: serde_json::json!({"kind": "c15", "batch": k, "ntrees": ntrees, "seed": seed}),
                    run: Box::new(move || {
                        use scen_c15::job_c15_denotation as f;
                        on_curve!(c.as_str(), f, k as u64, ntrees, seed, &c)
                    }),
                });
            }
            out
        }
        "C04" => {
            let mut out = vec![];
            // concrete companion: every single-field alteration, negation, round insertion / removal and the
            // coordinated forgeries (incl. a batch of opposite alterations), natively
            for (ci, case) in scen_c04::c04_cases(false).into_iter().filter({
                let mut seen = std::collections::HashSet::new();
                // one native run per skeleton (the native companion alters every field itself)
                move |c: &scen_c04::C04Case| !c.swap && seen.insert(c.shape.name.clone())
            }).enumerate() {
                let c = ["secq256k1", "zorro", "curve25519"][(ci + seed as usize) % 3].to_string();
                let replay = serde_json::json!({"kind": "c04", "case": case, "seed": seed});
                out.push(Task {
                    name: format!("C04:native_alterations_{}:{}", case.shape.name, c),
                    replay: replay.clone(),
                    run: Box::new(move || {
                        let checks = match c.as_str() {
                            "secq256k1" => scen_c04::c04_native::<Secq>(&case, seed),
                            "zorro" => scen_c04::c04_native::<Zorro>(&case, seed),
                            _ => scen_c04::c04_native::<Ed>(&case, seed),
                        };
                        native_job("C04", &format!("native_alterations_{}", case.shape.name), &c, seed, checks, replay)
                    }),
                });
            }
            for (ci, c) in ["secq256k1", "zorro", "curve25519"].iter().enumerate() {
                if !thorough && ci != (seed as usize) % 3 {
                    continue;
                }
                let c = c.to_string();
                let stride = if thorough { 1 } else { 3 };
                let replay = serde_json::json!({"kind": "c04bits", "stride": stride, "seed": seed});
                out.push(Task {
                    name: format!("C04:bitflips:{}", c),
                    replay: replay.clone(),
                    run: Box::new(move || {
                        let checks = match c.as_str() {
                            "secq256k1" => scen_c04::bitflip_native::<Secq>(seed, stride),
                            "zorro" => scen_c04::bitflip_native::<Zorro>(seed, stride),
                            _ => scen_c04::bitflip_native::<Ed>(seed, stride),
                        };
                        native_job("C04", "bitflips", &c, seed, checks, replay)
                    }),
                });
            }
            {
                let replay = serde_json::json!({"kind": "c04torsion", "seed": seed});
                out.push(Task {
                    name: "C04:native_small_order_offsets:curve25519".into(),
                    replay: replay.clone(),
                    run: Box::new(move || native_job("C04", "native_small_order_offsets", "curve25519", seed, scen_c04::c04_torsion_native::<Ed>(seed, &ed_torsion()), replay)),
                });
            }
            for (k, case) in scen_c04::c04_cases(thorough).into_iter().enumerate() {
                let cs: Vec<&str> = if thorough { curves.clone() } else { vec![["secq256k1", "zorro", "curve25519"][k % 3]] };
                for c in cs {
                    let (case, c) = (case.clone(), c.to_string());
                    out.push(Task {
                        name: format!("C04:{}:{}", case.name, c),
                        replay: serde_json::json!({"kind": "c04", "case": case, "seed": seed}),
                        run: Box::new(move || {
                            use scen_c04::job_c04 as f;
                            on_curve!(c.as_str(), f, &case, seed, &c)
                        }),
                    });
                }
            }
            out
        }
        "C05" => {
            let mut out = vec![];
            // concrete companion: coefficient / constant deviations natively, alone and as a +d / -d pair in one batch
            for (ci, case) in scen_c05::c05_cases(false).into_iter().filter(|c| matches!(c.dev, scen_c05::Dev::Coeff(_) | scen_c05::Dev::Const(_) | scen_c05::Dev::AllConsts | scen_c05::Dev::AllCoeffs)).enumerate() {
                let c = ["secq256k1", "zorro", "curve25519"][(ci + seed as usize) % 3].to_string();
                let replay = serde_json::json!({"kind": "c05", "case": case, "seed": seed});
                out.push(Task {
                    name: format!("C05:native_{}:{}", case.name, c),
                    replay: replay.clone(),
                    run: Box::new(move || {
                        let checks = match c.as_str() {
                            "secq256k1" => scen_c05::c05_native::<Secq>(&case, seed, HashMap::new(), None),
                            "zorro" => scen_c05::c05_native::<Zorro>(&case, seed, HashMap::new(), None),
                            _ => scen_c05::c05_native::<Ed>(&case, seed, HashMap::new(), Some(ed_torsion())),
                        };
                        native_job("C05", &format!("native_{}", case.name), &c, seed, checks, replay)
                    }),
                });
            }
            for (k, case) in scen_c05::c05_cases(thorough).into_iter().enumerate() {
                let cs: Vec<&str> = if matches!(case.dev, scen_c05::Dev::ReplaceVTorsion(_)) { vec!["curve25519"] } else if thorough { curves.clone() } else { vec![["secq256k1", "zorro", "curve25519"][k % 3]] };
                for c in cs {
                    let (case, c) = (case.clone(), c.to_string());
                    out.push(Task {
                        name: format!("C05:{}:{}", case.name, c),
                        replay: serde_json::json!({"kind": "c05", "case": case, "seed": seed}),
                        run: Box::new(move || match c.as_str() {
                            "secq256k1" => scen_c05::job_c05::<Secq>(&case, seed, &c, None),
                            "zorro" => scen_c05::job_c05::<Zorro>(&case, seed, &c, None),
                            _ => scen_c05::job_c05::<Ed>(&case, seed, &c, Some(ed_torsion())),
                        }),
                    });
                }
            }
            out
        }
        "C06" => {
            let mut out = vec![];
            for (k, shape) in shapes::c06_shapes(thorough, seed).into_iter().enumerate() {
                let cs: Vec<&str> = if thorough { curves.clone() } else { vec![["secq256k1", "zorro", "curve25519"][k % 3]] };
                for c in cs {
                    let (shape, c) = (shape.clone(), c.to_string());
                    out.push(Task {
                        name: format!("C06:{}:{}", shape.name, c),
                        replay: serde_json::json!({"kind": "c06", "shape": scen_r1cs::shape_json(&shape), "seed": seed}),
                        run: Box::new(move || {
                            use scen_c06::job_c06 as f;
                            on_curve!(c.as_str(), f, &shape, seed, &c)
                        }),
                    });
                }
            }
            out
        }
        "C08" | "C11" | "C12" => {
            let mut out = vec![];
            for c in ["secq256k1", "zorro", "curve25519"] {
                let (c, prop) = (c.to_string(), prop.to_string());
                let maxlen = if thorough { 4 } else { 3 };
                let replay = serde_json::json!({"kind": prop.to_lowercase(), "curve": c, "maxlen": maxlen, "seed": seed});
                out.push(Task {
                    name: format!("{}:native:{}", prop, c),
                    replay: replay.clone(),
                    run: Box::new(move || {
                        let checks = match (prop.as_str(), c.as_str()) {
                            ("C08", "secq256k1") => scen_native::c08_native::<Secq>(seed, maxlen),
                            ("C08", "zorro") => scen_native::c08_native::<Zorro>(seed, maxlen),
                            ("C08", _) => scen_native::c08_native::<Ed>(seed, maxlen),
                            ("C11", "secq256k1") => scen_native::c11_native::<Secq>(seed, None),
                            ("C11", "zorro") => scen_native::c11_native::<Zorro>(seed, None),
                            ("C11", _) => scen_native::c11_native::<Ed>(seed, Some(ed_torsion())),
                            ("C12", "secq256k1") => scen_native::c12_native::<Secq>(maxlen + 1),
                            ("C12", "zorro") => scen_native::c12_native::<Zorro>(maxlen + 1),
                            _ => scen_native::c12_native::<Ed>(maxlen + 1),
                        };
                        let mut checks = checks;
                        if prop == "C08" {
                            checks.push(c08_child_check(seed, &c));
                        }
                        native_job(&prop, "native", &c, seed, checks, replay)
                    }),
                });
            }
            out
        }
        "C09" => {
            let mut out = vec![];
            for (k, shape) in scen_c09::c09_shapes(thorough, seed).into_iter().enumerate() {
                let cs: Vec<&str> = if thorough { curves.clone() } else { vec![["secq256k1", "zorro", "curve25519"][k % 3]] };
                for c in cs {
                    let (shape, c) = (shape.clone(), c.to_string());
                    out.push(Task {
                        name: format!("C09:{}:{}", shape.name, c),
                        replay: serde_json::json!({"kind": "c09", "shape": scen_r1cs::shape_json(&shape), "seed": seed}),
                        run: Box::new(move || {
                            use scen_c09::job_c09 as f;
                            on_curve!(c.as_str(), f, &shape, seed, &c)
                        }),
                    });
                }
            }
            out
        }
        "C07" => {
            let mut out = vec![];
            // concrete companion: batch verdict vs individual verdicts, correlated offsets on copies, and long
            // batches (9 and 17 members) natively
            for (ci, case) in scen_c07::c07_cases(false).into_iter().filter(|c| ["two_honest_mixed_sizes", "gate_free_members_only_honest_and_opaque", "phase2_growth_first", "honest_with_identity_commitment", "single_honest_only_identity_commitments"].contains(&c.name.as_str())).enumerate() {
                let c = ["secq256k1", "zorro", "curve25519"][(ci + seed as usize) % 3].to_string();
                let replay = serde_json::json!({"kind": "c07", "case": case, "seed": seed});
                out.push(Task {
                    name: format!("C07:native_{}:{}", case.name, c),
                    replay: replay.clone(),
                    run: Box::new(move || {
                        let checks = match c.as_str() {
                            "secq256k1" => replay::c07_native::<Secq>(&case, seed, HashMap::new()),
                            "zorro" => replay::c07_native::<Zorro>(&case, seed, HashMap::new()),
                            _ => replay::c07_native::<Ed>(&case, seed, HashMap::new()),
                        };
                        native_job("C07", &format!("native_{}", case.name), &c, seed, checks, replay)
                    }),
                });
            }
            {
                let replay = serde_json::json!({"kind": "c07torsion", "seed": seed});
                out.push(Task {
                    name: "C07:native_small_order_residual:curve25519".into(),
                    replay: replay.clone(),
                    run: Box::new(move || native_job("C07", "native_small_order_residual", "curve25519", seed, replay::c07_torsion_native::<Ed>(seed, &ed_torsion()), replay)),
                });
            }
            for (k, case) in scen_c07::c07_cases(thorough).into_iter().enumerate() {
                let cs: Vec<&str> = if thorough { curves.clone() } else { vec![["secq256k1", "zorro", "curve25519"][k % 3]] };
                for c in cs {
                    let (case, c) = (case.clone(), c.to_string());
                    out.push(Task {
                        name: format!("C07:{}:{}", case.name, c),
                        replay: serde_json::json!({"kind": "c07", "case": case, "seed": seed}),
                        run: Box::new(move || {
                            use scen_c07::job_c07 as f;
                            on_curve!(c.as_str(), f, &case, seed, &c)
                        }),
                    });
                }
            }
            out
        }
        "C10" => {
            let mut out = vec![];
            // concrete companion: negative cases on the created proof (wrong product, shifted scalars, forged
            // last round, wrong lengths) on every curve, with small-order shifts of P on the cofactor curve
            for case in scen_c10::c10_cases(false).into_iter().filter(|c| ["honest_k0_symfactors", "honest_k2_symfactors", "honest_k3_ones_zeros"].contains(&c.name.as_str())) {
                for c in ["secq256k1", "zorro", "curve25519"] {
                    let (case, c) = (case.clone(), c.to_string());
                    let replay = serde_json::json!({"kind": "c10", "case": case, "seed": seed});
                    out.push(Task {
                        name: format!("C10:native_negatives_{}:{}", case.name, c),
                        replay: replay.clone(),
                        run: Box::new(move || {
                            let checks = match c.as_str() {
                                "secq256k1" => replay::c10_native::<Secq>(&case, seed, HashMap::new(), None),
                                "zorro" => replay::c10_native::<Zorro>(&case, seed, HashMap::new(), None),
                                _ => replay::c10_native::<Ed>(&case, seed, HashMap::new(), Some(ed_torsion())),
                            };
                            native_job("C10", &format!("native_negatives_{}", case.name), &c, seed, checks, replay)
                        }),
                    });
                }
            }
            // lengths beyond the symbolic bound, concretely (create, verify, explicit folding, negatives): n = 256, 512
            for (kk, gp) in [(8usize, "sym"), (9usize, "r1cs")] {
                let case = scen_c10::IppCase { name: format!("honest_k{}_native_only", kk), k: kk, g_factors: gp.into(), h_factors: "sym".into(), a_pat: "s".into(), b_pat: "s".into(), mode: "honest".into() };
                for c in if thorough { vec!["secq256k1", "zorro", "curve25519"] } else { vec![["secq256k1", "zorro", "curve25519"][(seed as usize + kk) % 3]] } {
                    let (case, c) = (case.clone(), c.to_string());
                    let replay = serde_json::json!({"kind": "c10", "case": case, "seed": seed});
                    out.push(Task {
                        name: format!("C10:native_large_{}:{}", case.name, c),
                        replay: replay.clone(),
                        run: Box::new(move || {
                            let checks = match c.as_str() {
                                "secq256k1" => replay::c10_native::<Secq>(&case, seed, HashMap::new(), None),
                                "zorro" => replay::c10_native::<Zorro>(&case, seed, HashMap::new(), None),
                                _ => replay::c10_native::<Ed>(&case, seed, HashMap::new(), Some(ed_torsion())),
                            };
                            native_job("C10", &format!("native_large_{}", case.name), &c, seed, checks, replay)
                        }),
                    });
                }
            }
            for (k, case) in scen_c10::c10_cases(thorough).into_iter().enumerate() {
                let cs: Vec<&str> = if thorough { curves.clone() } else { vec![["secq256k1", "zorro", "curve25519"][k % 3]] };
                for c in cs {
                    let (case, c) = (case.clone(), c.to_string());
                    out.push(Task {
                        name: format!("C10:{}:{}", case.name, c),
                        replay: serde_json::json!({"kind": "c10", "case": case, "seed": seed}),
                        run: Box::new(move || {
                            use scen_c10::job_c10 as f;
                            on_curve!(c.as_str(), f, &case, seed, &c)
                        }),
                    });
                }
            }
            out
        }
        "C13" => {
            let mut out = vec![];
            for variant in ["default_bases", "random_bases", "default_bases_literals", "random_bases_literals", "identity_blinding_base_literals", "identity_value_base_literals", "identity_blinding_base", "torsion_bases_literals", "torsion_bases", "equal_bases_literals", "opposite_bases_literals", "torsion_mirror_bases_literals"] {
                for c in ["secq256k1", "zorro", "curve25519"] {
                    if variant.starts_with("torsion") && c != "curve25519" {
                        continue;
                    }
                    let (variant, c) = (variant.to_string(), c.to_string());
                    let (variant0, c0) = (variant.clone(), c.clone());
                    // related bases (equal, opposite, mirrored) only on the plain curves: in the term model two such points
                    // would be independent symbols
                    let native_only = variant.starts_with("equal_") || variant.starts_with("opposite_") || variant.starts_with("torsion_mirror");
                    if !native_only {
                    out.push(Task {
                        name: format!("C13:{}:{}", variant, c),
                        replay: serde_json::json!({"kind": "c13", "variant": variant, "seed": seed}),
                        run: Box::new(move || match c.as_str() {
                            "secq256k1" => scen_c10::job_c13::<Secq>(&variant, seed, &c, None),
                            "zorro" => scen_c10::job_c13::<Zorro>(&variant, seed, &c, None),
                            _ => scen_c10::job_c13::<Ed>(&variant, seed, &c, Some(ed_torsion())),
                        }),
                    });
                    }
                    // concrete companion on the plain curve: the carriers' shadow arithmetic does not go through the curve
                    // configuration's own affine scalar multiplication, the real `PedersenGens::commit` does
                    if variant0.ends_with("literals") {
                        let (variant, c) = (variant0.clone(), c0.clone());
                        let replay = serde_json::json!({"kind": "c13", "variant": variant, "seed": seed});
                        out.push(Task {
                            name: format!("C13:native_{}:{}", variant, c),
                            replay: replay.clone(),
                            run: Box::new(move || {
                                let checks = match c.as_str() {
                                    "secq256k1" => replay::c13_native::<Secq>(&variant, seed, HashMap::new(), None),
                                    "zorro" => replay::c13_native::<Zorro>(&variant, seed, HashMap::new(), None),
                                    _ => replay::c13_native::<Ed>(&variant, seed, HashMap::new(), Some(ed_torsion())),
                                };
                                native_job("C13", &format!("native_{}", variant), &c, seed, checks, replay)
                            }),
                        });
                    }
                }
            }
            out
        }
        _ => {
            let _ = curve_tasks(&curves, |_| vec![]);
            panic!("unknown property {}", prop)
        }
    }
}

fn sanitize(s: &str) -> String {
    s.chars().map(|c| if c.is_ascii_alphanumeric() || c == '-' || c == '_' || c == '.' { c } else { '_' }).collect()
}

fn main() {
    std::panic::set_hook(Box::new(|info| {
        eprintln!("panic: {}", info.to_string().lines().next().unwrap_or(""));
    }));
    let args: Vec<String> = std::env::args().collect();
    let get = |k: &str| -> Option<String> { args.iter().position(|a| a == k).and_then(|i| args.get(i + 1).cloned()) };
    match args.get(1).map(|s| s.as_str()) {
        Some("gen") => {
            let prop = get("--prop").expect("--prop");
            let tier = get("--tier").unwrap_or("quick".into());
            let seed: u64 = get("--seed").and_then(|s| s.parse().ok()).unwrap_or(0);
            let out = get("--out").expect("--out");
            let threads: usize = get("--threads").and_then(|s| s.parse().ok()).unwrap_or(8);
            std::fs::create_dir_all(&out).unwrap();
            let tasks = tasks_for(&prop, &tier, seed);
            let n = tasks.len();
            let queue = Arc::new(Mutex::new(tasks.into_iter().enumerate().collect::<Vec<_>>()));
            let failed = Arc::new(Mutex::new(Vec::<String>::new()));
            let mut hs = vec![];
            for _ in 0..threads.min(n.max(1)) {
                let (queue, failed, out) = (queue.clone(), failed.clone(), out.clone());
                hs.push(
                    std::thread::Builder::new()
                        .stack_size(256 << 20)
                        .spawn(move || loop {
                            let item = queue.lock().unwrap().pop();
                            let (idx, task) = match item {
                                Some(t) => t,
                                None => break,
                            };
                            let name = task.name.clone();
                            let replay = task.replay.clone();
                            let res = std::panic::catch_unwind(std::panic::AssertUnwindSafe(task.run));
                            match res {
                                Ok(job) => {
                                    let path = format!("{}/{:04}_{}.json", out, idx, sanitize(&job.scenario));
                                    std::fs::write(&path, serde_json::to_string(&job).unwrap()).unwrap();
                                }
                                Err(e) => {
                                    let msg = e.downcast_ref::<String>().cloned().or(e.downcast_ref::<&str>().map(|s| s.to_string())).unwrap_or("panic".into());
                                    // a panic inside the real code under symbolic execution is reported as a job of its own
                                    let mut job = Job { property: name.split(':').next().unwrap_or("").to_string(), scenario: name.clone(), ..Default::default() };
                                    job.check("scenario ran to completion (no panic in the code under test)", false, msg.clone());
                                    job.replay = replay;
                                    let path = format!("{}/{:04}_{}.json", out, idx, sanitize(&name));
                                    std::fs::write(&path, serde_json::to_string(&job).unwrap()).unwrap();
                                    failed.lock().unwrap().push(format!("{}: {}", name, msg));
                                }
                            }
                        })
                        .unwrap(),
                );
            }
            for h in hs {
                h.join().unwrap();
            }
            println!("generated {} jobs in {} ({} panicked)", n, out, failed.lock().unwrap().len());
        }
        Some("c08-child") => {
            let seed: u64 = get("--seed").and_then(|s| s.parse().ok()).unwrap_or(0);
            let ok = match get("--curve").as_deref() {
                Some("zorro") => scen_native::c08_child::<Zorro>(seed),
                Some("curve25519") => scen_native::c08_child::<Ed>(seed),
                _ => scen_native::c08_child::<Secq>(seed),
            };
            println!("c08-child {}", if ok { "ok" } else { "FAILED" });
            std::process::exit(if ok { 0 } else { 1 });
        }
        Some("zorro-consts") => {
            // values of the declared constants as exported by the compiled crate
            use ark_bulletproofs::curve::zorro::{Fq, Fr, Parameters};
            use ark_ec::{short_weierstrass::SWCurveConfig, CurveConfig};
            use ark_ff::PrimeField;
            let dec = |x: Fq| -> String { let b: num_bigint::BigUint = x.into_bigint().into(); b.to_string() };
            let g = <Parameters as SWCurveConfig>::GENERATOR;
            let cof: Vec<u64> = <Parameters as CurveConfig>::COFACTOR.to_vec();
            let cof_inv: num_bigint::BigUint = <Parameters as CurveConfig>::COFACTOR_INV.into_bigint().into();
            let p: num_bigint::BigUint = Fq::MODULUS.into();
            let r: num_bigint::BigUint = Fr::MODULUS.into();
            // every exported scalar- / base-field item of the zorro module
            let r_cfg: num_bigint::BigUint = <ark_bulletproofs::curve::zorro::FrConfig as ark_ff::MontConfig<4>>::MODULUS.into();
            let p_cfg: num_bigint::BigUint = <ark_bulletproofs::curve::zorro::FqConfig as ark_ff::MontConfig<4>>::MODULUS.into();
            let r_curve: num_bigint::BigUint = <<Parameters as CurveConfig>::ScalarField as PrimeField>::MODULUS.into();
            let p_curve: num_bigint::BigUint = <<Parameters as CurveConfig>::BaseField as PrimeField>::MODULUS.into();
            println!("{}", serde_json::json!({"r_frconfig": r_cfg.to_string(), "p_fqconfig": p_cfg.to_string(), "r_curveconfig": r_curve.to_string(), "p_curveconfig": p_curve.to_string(), "p": p.to_string(), "r": r.to_string(), "a": dec(<Parameters as SWCurveConfig>::COEFF_A), "b": dec(<Parameters as SWCurveConfig>::COEFF_B), "gx": dec(g.x), "gy": dec(g.y), "cofactor": cof, "cofactor_inv": cof_inv.to_string()}));
        }
        Some("zorro-points") => {
            // group elements with given x coordinates (where they exist) are accepted by every validating path and have order r
            use ark_bulletproofs::curve::zorro::{Fq, Fr};
            use ark_ec::{AffineRepr, CurveGroup, Group};
            use ark_ff::{PrimeField, Zero};
            use ark_serialize::{CanonicalDeserialize, CanonicalSerialize};
            use core::str::FromStr;
            let mut wrong = false;
            let mut pts: Vec<(String, Zorro)> = vec![("generator".into(), Zorro::generator())];
            for a in args.iter().skip(2) {
                let x = Fq::from(num_bigint::BigUint::from_str(a).unwrap());
                for greatest in [false, true] {
                    if let Some(p) = Zorro::get_point_from_x_unchecked(x, greatest) {
                        pts.push((format!("x={} ({})", a, if greatest { "greater y" } else { "smaller y" }), p));
                    }
                }
            }
            let r_big = Fr::MODULUS;
            for (name, p) in pts.iter() {
                let res = std::panic::catch_unwind(|| {
                    let on = p.is_on_curve();
                    let sub = p.is_in_correct_subgroup_assuming_on_curve();
                    let order = p.mul_bigint(r_big).is_zero() && !p.is_zero();
                    let mut c = vec![];
                    p.serialize_compressed(&mut c).unwrap();
                    let mut u = vec![];
                    p.serialize_uncompressed(&mut u).unwrap();
                    let rc = Zorro::deserialize_compressed(&c[..]).map(|q| q == *p).unwrap_or(false);
                    let ru = Zorro::deserialize_uncompressed(&u[..]).map(|q| q == *p).unwrap_or(false);
                    let (x, y) = p.xy().map(|(x, y)| (*x, *y)).unwrap();
                    let built = Zorro::new(x, y) == *p;
                    let dbl = (p.into_group().double() - p.into_group()).into_affine() == *p;
                    (on, sub, order, rc, ru, built, dbl)
                });
                let ok = matches!(res, Ok((true, true, true, true, true, true, true)));
                println!("point {} checks(on_curve, subgroup, order_r, compressed, uncompressed, new, double) = {:?} {}", name, res.as_ref().ok(), if ok { "ok" } else { "WRONG" });
                wrong |= !ok;
            }
            println!("points checked: {}", pts.len());
            println!("REPLAY {}", if wrong { "REPRODUCED" } else { "NOT-REPRODUCED" });
            std::process::exit(if wrong { 1 } else { 0 });
        }
        Some("zorro-mul-by-a") => {
            // native evaluation of the specialised routine against multiplication by the declared coefficient
            use ark_bulletproofs::curve::zorro::{Fq, Parameters};
            use ark_ec::short_weierstrass::SWCurveConfig;
            use ark_ff::PrimeField;
            use core::str::FromStr;
            let mut wrong = false;
            for a in args.iter().skip(2) {
                let x = Fq::from(num_bigint::BigUint::from_str(a).unwrap());
                let lhs = <Parameters as SWCurveConfig>::mul_by_a(x);
                let rhs = <Parameters as SWCurveConfig>::COEFF_A * x;
                let (l, r): (num_bigint::BigUint, num_bigint::BigUint) = (lhs.into_bigint().into(), rhs.into_bigint().into());
                println!("x={} mul_by_a(x)={} COEFF_A*x={} {}", a, l, r, if lhs == rhs { "equal" } else { "DIFFERENT" });
                wrong |= lhs != rhs;
            }
            println!("REPLAY {}", if wrong { "REPRODUCED" } else { "NOT-REPRODUCED" });
            std::process::exit(if wrong { 1 } else { 0 });
        }
        Some("zorro-add-b") => {
            use ark_bulletproofs::curve::zorro::{Fq, Parameters};
            use ark_ec::short_weierstrass::SWCurveConfig;
            use ark_ff::PrimeField;
            use core::str::FromStr;
            let mut wrong = false;
            for a in args.iter().skip(2) {
                let x = Fq::from(num_bigint::BigUint::from_str(a).unwrap());
                let lhs = <Parameters as SWCurveConfig>::add_b(x);
                let rhs = <Parameters as SWCurveConfig>::COEFF_B + x;
                let (l, r): (num_bigint::BigUint, num_bigint::BigUint) = (lhs.into_bigint().into(), rhs.into_bigint().into());
                println!("x={} add_b(x)={} x+COEFF_B={} {}", a, l, r, if lhs == rhs { "equal" } else { "DIFFERENT" });
                wrong |= lhs != rhs;
            }
            println!("REPLAY {}", if wrong { "REPRODUCED" } else { "NOT-REPRODUCED" });
            std::process::exit(if wrong { 1 } else { 0 });
        }
        Some("replay") => {
            let file = args.get(2).expect("replay file");
            let v: serde_json::Value = serde_json::from_str(&std::fs::read_to_string(file).unwrap()).unwrap();
            let model: HashMap<String, String> = v["model"].as_object().map(|m| m.iter().map(|(k, v)| (k.clone(), v.as_str().unwrap_or("").to_string())).collect()).unwrap_or_default();
            let rp = &v["replay"];
            match rp["kind"].as_str() {
                Some("r1cs") => {
                    let shape: r1cs::Shape = serde_json::from_value(rp["shape"].clone()).unwrap();
                    let err: r1cs::ErrPlan = serde_json::from_value(rp["err"].clone()).unwrap();
                    let seed = rp["seed"].as_u64().unwrap_or(0);
                    let (cp, cv) = (rp["cap_prover"].as_u64().unwrap() as usize, rp["cap_verifier"].as_u64().unwrap() as usize);
                    let expect = rp["expect_verify_ok"].as_bool().unwrap();
                    let mut any_wrong = false;
                    let mut lines = vec![];
                    // model values first, then a few random assignments: a failed polynomial identity fails generically
                    for (k, m) in [(0u64, model.clone()), (1, HashMap::new()), (2, HashMap::new()), (3, HashMap::new())] {
                        let (p_ok, v_ok, hon) = scen_r1cs::replay_plain::<Secq>(&shape, &err, seed + k, cp, cv, m);
                        let expect = if hon == 3 || hon == 5 { true } else if hon == 2 { false } else { expect };
                        let wrong = !p_ok || v_ok != expect || hon == 4 || hon == 5;
                        if hon == 5 {
                            lines.push(format!("native secq256k1 run {}: the proof is accepted but the transcripts handed back by prover and verifier give different follow-up challenges", k));
                        }
                        if hon == 4 {
                            lines.push(format!("native secq256k1 run {}: a role did not run the registered randomized closures exactly once in registration order", k));
                        }
                        lines.push(format!("native secq256k1 run {} ({}): prove_ok={} verify_ok={} expected_verify_ok={} -> {}", k, if k == 0 { "solver model" } else { "random values" }, p_ok, v_ok, expect, if wrong { "WRONG VERDICT" } else { "as expected" }));
                        any_wrong |= wrong;
                    }
                    for l in &lines {
                        println!("{}", l);
                    }
                    println!("REPLAY {}", if any_wrong { "REPRODUCED" } else { "NOT-REPRODUCED" });
                    std::process::exit(if any_wrong { 1 } else { 0 });
                }
                Some(kind @ ("c10" | "c13" | "c15" | "c07" | "c07torsion" | "c04torsion" | "c02wide" | "c06" | "c09" | "c05" | "c04" | "c03" | "c18" | "c17" | "c16" | "c08" | "c11" | "c12" | "c04bits")) => {
                    let seed = rp["seed"].as_u64().unwrap_or(0);
                    let curve = v["curve"].as_str().or(rp["curve"].as_str()).unwrap_or("secq256k1").to_string();
                    let mut any_wrong = false;
                    for (k, m) in [(0u64, model.clone()), (1, HashMap::new()), (2, HashMap::new())] {
                        // always on secq256k1, and on the curve of the failing scenario when it is another one
                        let mut runs: Vec<(&str, std::thread::Result<Vec<(String, bool)>>)> = vec![];
                        runs.push(("secq256k1", std::panic::catch_unwind(|| native_for::<Secq>(kind, rp, seed + k, m.clone(), None))));
                        if curve == "zorro" {
                            runs.push(("zorro", std::panic::catch_unwind(|| native_for::<Zorro>(kind, rp, seed + k, m.clone(), None))));
                        }
                        if curve == "curve25519" {
                            runs.push(("curve25519", std::panic::catch_unwind(|| native_for::<Ed>(kind, rp, seed + k, m.clone(), Some(ed_torsion())))));
                        }
                        for (c, checks) in runs {
                            println!("native run on {}", c);
                            match checks {
                                Ok(cs) => any_wrong |= replay::report(cs),
                                Err(_) => {
                                    println!("native run: PANIC in the code under test");
                                    any_wrong = true;
                                }
                            }
                        }
                        if any_wrong {
                            break;
                        }
                    }
                    println!("REPLAY {}", if any_wrong { "REPRODUCED" } else { "NOT-REPRODUCED" });
                    std::process::exit(if any_wrong { 1 } else { 0 });
                }
                k => {
                    println!("unknown replay kind {:?}", k);
                    std::process::exit(2);
                }
            }
        }
        _ => {
            eprintln!("usage: symark gen --prop ID --tier quick|thorough --seed N --out DIR | symark replay FILE");
            std::process::exit(2);
        }
    }
}
