//! C07: batch verification = sum_i alpha_i * (instance i's own combined check), with alpha_i k
//! distinct fresh draws; weights linearly independent (no correlated forgery cancels).
#![allow(non_snake_case)]
use crate::arena::{self, Lin};
use crate::field::{Inner, SymF};
use crate::group::{Base, SymA};
use crate::job::*;
use crate::r1cs::*;
use crate::scen_c03::opaque_proof;
use crate::scen_r1cs::*;
use ark_bulletproofs::r1cs::*;
use ark_bulletproofs::{BulletproofGens, PedersenGens};
use ark_ec::{AffineRepr, CurveGroup};
use ark_ff::UniformRand;
use merlin::Transcript;
use rand_core::SeedableRng;
use serde::{Deserialize, Serialize};
use std::collections::BTreeMap;

#[derive(Clone, Debug, Serialize, Deserialize)]
pub struct Inst {
    pub shape: Shape,
    /// "honest" (proof made by the real prover) | "opaque" (arbitrary proof object)
    pub kind: String,
}
#[derive(Clone, Debug, Serialize, Deserialize)]
pub struct BatchCase {
    pub name: String,
    pub instances: Vec<Inst>,
}

/// "honest_identity_t1": an honest proof whose T_1 is replaced by the identity; "honest_extra_round": an
/// honest proof with one more inner-product round -- members that fail the structural checks made
/// before the combined check
pub fn spoil<G: AffineRepr>(p: &R1CSProof<G>, kind: &str) -> R1CSProof<G> {
    use ark_bulletproofs::verif_hooks::InnerProductProof;
    let (mut pts, scs, ipp) = {
        let (a, b, c) = p.verif_parts();
        (a, b, c.clone())
    };
    let (l, r, a, b) = ipp.verif_parts();
    let (mut l, mut r) = (l.to_vec(), r.to_vec());
    match kind {
        "honest_identity_t1" => pts[6] = G::zero(),
        "honest_extra_round" => {
            l.push(pts[0]);
            r.push(pts[1]);
        }
        _ => return p.clone(),
    }
    R1CSProof::verif_from_parts(pts, scs, InnerProductProof::verif_from_parts(l, r, a, b))
}

fn last_residual(ctx: &str) -> Option<Lin> {
    let evs = events_in(ctx);
    let r_pos = arena::with(|a| a.chals.iter().filter(|c| c.ctx == ctx && c.label == "r").map(|c| c.merlin_pos).last());
    match (evs.iter().rev().find(|e| e.kind == "pzero"), r_pos) {
        (Some(e), Some(rp)) if e.merlin_pos >= rp => Some(e.lin.clone()),
        _ => None,
    }
}

pub fn job_c07<C: Base + 'static>(case: &BatchCase, seed: u64, curve: &str) -> Job
where
    C::ScalarField: Inner,
{
    arena::reset();
    arena::set_ctx("setup");
    let mut job = Job { property: "C07".into(), scenario: format!("C07:{}:{}", case.name, curve), curve: curve.into(), seed, shape: serde_json::to_value(case).unwrap(), ..Default::default() };
    let k = case.instances.len();
    let maxpad = case.instances.iter().map(|i| i.shape.padded()).max().unwrap_or(1);
    let pc = pc_for::<SymA<C>>(&case.name, seed);
    let bp = BulletproofGens::<SymA<C>>::new(maxpad, 1);
    let _bases = name_bases(&pc, &bp, maxpad);
    let mut rng = rand_chacha::ChaChaRng::seed_from_u64(seed ^ 0xc07);
    let mut shrs = vec![];
    let mut proofs: Vec<R1CSProof<SymA<C>>> = vec![];
    let mut ok = true;
    for (i, inst) in case.instances.iter().enumerate() {
        if inst.kind == "same_proof_other_constant" && i > 0 {
            // the SAME proof object as the previous member, presented for a statement whose first
            // constant differs by a symbolic delta
            let f = fork_for_verifier(&inst.shape, &shrs[i - 1]);
            let mut dv = SymVals::<C::ScalarField>::new(seed ^ 0x5a5a);
            {
                let mut fb = f.borrow_mut();
                fb.dev_draw = Some(("const".into(), 0));
                fb.dev_delta = Some(dv.fresh("delta"));
            }
            let dup = proofs[i - 1].clone();
            proofs.push(dup);
            shrs.push(f);
            continue;
        }
        let shr = new_shared::<SymA<C>>(&inst.shape, &Default::default(), Box::new(SymVals::<C::ScalarField>::new(seed.wrapping_add(i as u64 * 101))));
        if inst.kind.starts_with("honest") {
            arena::set_ctx(&format!("prove{}", i));
            let (p, _pt) = prove_shape(&inst.shape, &shr, &pc, &bp, seed.wrapping_add(i as u64));
            match p {
                Ok(p) => proofs.push(spoil(&p, &inst.kind)),
                Err(e) => {
                    job.check(&format!("instance {} proves", i), false, format!("{:?}", e));
                    ok = false;
                    break;
                }
            }
            rewind_for_verifier(&shr);
        } else {
            arena::set_ctx("setup");
            {
                let mut sh = shr.borrow_mut();
                sh.is_prover = false;
                for j in 0..inst.shape.commits() {
                    let p = SymA::concrete(C::Group::rand(&mut rng).into_affine());
                    p.name_basis(&format!("V{}_{}", j, i));
                    sh.verifier_commitments.push(p);
                }
            }
            let rounds = inst.shape.padded().trailing_zeros() as usize;
            let mut pv = SymVals::<C::ScalarField>::new(seed ^ 0x99 ^ i as u64);
            let op = opaque_proof::<C>(&mut rng, &mut pv, rounds, rounds, None, &format!("_{}", i));
            proofs.push(op.proof);
            // first (recording) verifier pass happens in the individual verification below
        }
        shrs.push(shr);
    }
    if !ok {
        job.stats = stats();
        return job;
    }
    // individual verification
    let mut indiv: Vec<Option<Lin>> = vec![];
    let mut indiv_ok = vec![];
    for (i, inst) in case.instances.iter().enumerate() {
        let ctx = format!("verify{}", i);
        arena::set_ctx(&ctx);
        let mut vt = new_verifier_transcript(&inst.shape);
        let verifier = build_verifier(&inst.shape, &shrs[i], &mut vt);
        let res = verifier.verify(&proofs[i], &pc, &bp);
        indiv_ok.push(res.is_ok());
        indiv.push(last_residual(&ctx));
        // every later pass replays the tape
        rewind_for_verifier(&shrs[i]);
    }
    // batch
    arena::set_ctx("batch");
    let mut transcripts: Vec<Transcript> = case.instances.iter().map(|i| new_verifier_transcript(&i.shape)).collect();
    let mut alpha_rng = AlphaRng(rand_chacha::ChaChaRng::seed_from_u64(seed ^ 0xa1fa));
    let res = {
        let mut insts = vec![];
        for (i, vt) in transcripts.iter_mut().enumerate() {
            let verifier = build_verifier(&case.instances[i].shape, &shrs[i], vt);
            // "same_proof_other_constant": literally the same proof object (same address) as the member before
            let pi = if case.instances[i].kind == "same_proof_other_constant" && i > 0 { i - 1 } else { i };
            insts.push((verifier, &proofs[pi]));
        }
        batch_verify(&mut alpha_rng, insts, &pc, &bp)
    };
    arena::set_ctx("post");
    let expected = indiv_ok.iter().all(|x| *x);
    job.concrete = serde_json::json!({"individual_ok": indiv_ok, "batch_ok": res.is_ok(), "expected_batch_ok": expected});
    job.check("concrete batch verdict equals the conjunction of the individual verdicts", res.is_ok() == expected, format!("batch {:?} individual {:?}", res, indiv_ok));
    // members that fail a structural check stop the batch before any weight is drawn
    if case.instances.iter().any(|i| i.kind.starts_with("honest_")) {
        job.check("a structurally invalid member makes the batch fail with an error value", res.is_err(), format!("{:?}", res));
        job.stats = stats();
        job.replay = serde_json::json!({"kind": "c07", "case": case, "seed": seed});
        return job;
    }
    // the alpha draws
    let alphas: Vec<u32> = arena::with(|a| (0..a.terms.len() as u32).filter(|t| a.var_name(*t).map(|n| n.starts_with("alpha")).unwrap_or(false)).collect());
    job.check("batch verification draws exactly one fresh weight per instance", alphas.len() == k, format!("{} weight draws for {} instances", alphas.len(), k));
    let last_chal = arena::with(|a| a.chals.iter().filter(|c| c.ctx == "batch").map(|c| c.merlin_pos).max().unwrap_or(0));
    let first_alpha_pos = arena::with(|a| alphas.iter().filter_map(|t| a.var_pos.get(t).copied()).min());
    job.check("the weights are drawn after every instance's challenges are fixed", first_alpha_pos.map(|p| p >= last_chal).unwrap_or(false), format!("first weight at transcript position {:?}, last challenge at {}", first_alpha_pos, last_chal));
    let batch_res = {
        let evs = events_in("batch");
        evs.iter().rev().find(|e| e.kind == "pzero").map(|e| e.lin.clone())
    };
    match (&batch_res, indiv.iter().all(|x| x.is_some()) && alphas.len() == k) {
        (Some(mb), true) => {
            let want: Lin = arena::with(|a| {
                let mut acc: Lin = BTreeMap::new();
                for i in 0..k {
                    let sc = a.pscale(indiv[i].as_ref().unwrap(), alphas[i]);
                    acc = a.padd(&acc, &sc, false);
                }
                acc
            });
            let items = lin_eq_items("batch_check", mb, &want);
            job.groups.push(identity_group(
                "batch_equals_weighted_sum",
                "I",
                "every coefficient of the batch check equals sum_i alpha_i * (coefficient of instance i's own combined check), aligned on the shared generators and kept separate on proof points and commitments, with alpha_i the i-th fresh weight draw",
                items,
            ));
        }
        _ => {
            if res.is_ok() || matches!(res, Err(R1CSError::VerificationError)) {
                job.inconclusive.push("missing batch / individual combined-check event or weight draws".into());
            }
        }
    }
    // weight independence (form R): from the batch residual's coefficient on a point that only
    // instance i contributes, recover w_i; no non-zero d makes sum_i d_i w_i vanish identically
    if let Some(mb) = &batch_res {
        let all_opaque = case.instances.iter().all(|i| i.kind == "opaque");
        if all_opaque && k >= 2 {
            let late = challenge_vars();
            let mut ws = vec![];
            for i in 0..k {
                let b = arena::with(|a| a.basis_names.iter().position(|n| *n == format!("A_I1_{}", i)).map(|p| p as u32));
                if let Some(b) = b {
                    if let Some(coef) = mb.get(&b) {
                        // coefficient = w_i * x_i : take the coefficient of the monomial x_i in the challenges
                        let mut one = BTreeMap::new();
                        one.insert(b, *coef);
                        if let Ok((cs, _)) = expand_lin(&one, &late) {
                            if cs.len() == 1 {
                                ws.push(cs[0].3);
                            }
                        }
                    }
                }
            }
            if ws.len() == k {
                let mut dvals = SymVals::<C::ScalarField>::new(seed ^ 0xd);
                let ds: Vec<SymF<C::ScalarField>> = (0..k).map(|_| dvals.fresh("d")).collect();
                let combo: u32 = arena::with(|a| {
                    let mut acc = a.lit0;
                    for i in 0..k {
                        let t = a.mul(ds[i].id, ws[i]);
                        acc = a.add(acc, t);
                    }
                    acc
                });
                let late_a: std::collections::HashSet<u32> = alphas.iter().copied().collect();
                let mut one = BTreeMap::new();
                one.insert(0u32, combo);
                match expand_lin(&one, &late_a) {
                    Ok((coefs, deg)) => {
                        let g = arena::with(|a| {
                            let mut roots: Vec<u32> = coefs.iter().map(|c| c.3).collect();
                            roots.extend(ds.iter().map(|d| d.id));
                            let (pre, vars, ninv) = a.smt_preamble(&roots);
                            Group {
                                name: "weights_linearly_independent".into(),
                                form: "R".into(),
                                preamble: pre,
                                items: coefs.iter().map(|(_, _, ms, c)| Item { name: format!("sum_i d_i w_i [{}]", ms), lhs: t(*c), rhs: "0.0".into() }).collect(),
                                vars,
                                n_inverses: ninv,
                                n_terms: a.reach(&roots).len(),
                                claim: "the per-instance weights (recovered from the batch check) are linearly independent polynomials in the weight draws: no non-zero (d_1..d_k) makes sum_i d_i*w_i vanish identically, so residuals of invalid members cannot cancel".into(),
                                only_if_failed: None,
                                extra_asserts: vec![format!("(assert (or {}))", ds.iter().map(|d| format!("(not (= t{} 0.0))", d.id)).collect::<Vec<_>>().join(" "))],
                                late_degree: deg,
                                raw: vec![],
                                n_syntactic: 0,
                            }
                        });
                        job.groups.push(g);
                    }
                    Err(e) => job.inconclusive.push(format!("weight expansion: {}", e)),
                }
            } else {
                job.inconclusive.push(format!("could not recover the {} per-instance weights from the batch check", k));
            }
        }
    }
    let mut evs = events_in("batch");
    evs.truncate(6);
    job.path_conditions = describe_events(&evs);
    arena::with(|a| {
        if !a.opaque.is_empty() {
            job.inconclusive.push(format!("opaque constants: {:?}", &a.opaque[..a.opaque.len().min(3)]));
        }
    });
    job.stats = stats();
    job.replay = serde_json::json!({"kind": "c07", "case": case, "seed": seed});
    job
}

pub fn c07_cases(thorough: bool) -> Vec<BatchCase> {
    use crate::r1cs::Op::*;
    let one = Shape::new("one_gate", &[Commit, AllocMul, Con], &[]);
    let zero = Shape::new("zero_gates", &[Commit, ConCommitted], &[]);
    let two = Shape::new("two_gates", &[Commit, AllocMul, Mul, Con], &[]);
    let two_grow = Shape::new("two_plus_two_phase2", &[Commit, AllocMul, AllocMul, Con], &[&[Chal, AllocMul, AllocMul, Con]]);
    let twop = Shape::new("two_phase_1_1", &[Commit, AllocMul, Con], &[&[Chal, Mul, Con]]);
    let three = Shape::new("three_gates", &[AllocMul, AllocMul, Alloc, Con], &[]);
    let h = |s: &Shape| Inst { shape: s.clone(), kind: "honest".into() };
    let o = |s: &Shape| Inst { shape: s.clone(), kind: "opaque".into() };
    let mut v = vec![
        BatchCase { name: "single_honest".into(), instances: vec![h(&one)] },
        BatchCase { name: "honest_with_identity_commitment".into(), instances: vec![h(&Shape::new("identity_commitment", &[Commit, CommitZero, AllocMul, Con, ConCommitted], &[])), h(&one)] },
        BatchCase { name: "single_honest_only_identity_commitments".into(), instances: vec![h(&Shape::new("only_identity_commitments", &[CommitZero, CommitZero, AllocMul, Con], &[]))] },
        BatchCase { name: "two_honest_mixed_sizes".into(), instances: vec![h(&two), h(&one)] },
        BatchCase { name: "three_honest_mixed_phases".into(), instances: vec![h(&zero), h(&twop), h(&three)] },
        BatchCase { name: "phase2_growth_second".into(), instances: vec![h(&two), h(&two_grow)] },
        BatchCase { name: "phase2_growth_first".into(), instances: vec![h(&two_grow), h(&one)] },
        BatchCase { name: "two_opaque".into(), instances: vec![o(&one), o(&one)] },
        BatchCase { name: "three_opaque_mixed".into(), instances: vec![o(&one), o(&two), o(&zero)] },
        BatchCase { name: "honest_then_opaque".into(), instances: vec![h(&one), o(&two)] },
        BatchCase { name: "honest_then_identity_point_member".into(), instances: vec![h(&one), Inst { shape: two.clone(), kind: "honest_identity_t1".into() }] },
        BatchCase { name: "wrong_round_count_member_first".into(), instances: vec![Inst { shape: one.clone(), kind: "honest_extra_round".into() }, h(&two)] },
        BatchCase { name: "same_proof_object_replayed_for_another_constant".into(), instances: vec![h(&one), Inst { shape: one.clone(), kind: "same_proof_other_constant".into() }] },
        BatchCase { name: "only_structurally_invalid_member".into(), instances: vec![Inst { shape: two.clone(), kind: "honest_identity_t1".into() }] },
        BatchCase { name: "opaque_then_honest_two_phase".into(), instances: vec![o(&twop), h(&one)] },
        // batches none of whose members has a multiplication gate
        BatchCase { name: "gate_free_members_only_opaque".into(), instances: vec![o(&zero)] },
        BatchCase { name: "gate_free_members_only_honest_and_opaque".into(), instances: vec![h(&zero), o(&zero)] },
        BatchCase { name: "gate_free_same_proof_replayed_for_another_constant".into(), instances: vec![h(&zero), Inst { shape: zero.clone(), kind: "same_proof_other_constant".into() }] },
    ];
    if thorough {
        v.push(BatchCase { name: "four_opaque".into(), instances: vec![o(&one), o(&one), o(&zero), o(&two)] });
        v.push(BatchCase { name: "four_honest".into(), instances: vec![h(&three), h(&one), h(&two_grow), h(&zero)] });
        v.push(BatchCase { name: "single_opaque_two_phase".into(), instances: vec![o(&twop)] });
        v.push(BatchCase { name: "five_opaque".into(), instances: vec![o(&one), o(&zero), o(&one), o(&two), o(&one)] });
    }
    v
}
