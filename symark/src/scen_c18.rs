//! C18: wire stability as translation validation against the pinned reference protocol
//! (symark/src/refimpl.rs + oracle.rs): what is proved, how challenges are derived, how
//! generators are chosen and how a proof is laid out must equal the reference.
#![allow(non_snake_case)]
use crate::field::Inner;
use crate::group::Base;
use crate::job::*;
use crate::r1cs::*;
use ark_bulletproofs::{BulletproofGens, PedersenGens};
use ark_serialize::CanonicalSerialize;

/// `to_bytes` = compressed A_I1, A_O1, S1, A_I2, A_O2, S2, T_1, T_3, T_4, T_5, T_6, t_x, t_x_blinding,
/// e_blinding, LE64(|L|), L.., LE64(|R|), R.., a, b
pub fn layout_check<G: ark_ec::AffineRepr + 'static>(shape: &Shape, seed: u64) -> (bool, String) {
    let pad = shape.padded();
    let pc = pc_for::<G>(&shape.name, seed);
    let bp = BulletproofGens::<G>::new(pad, 1);
    let shr = new_shared::<G>(shape, &Default::default(), Box::new(PlainVals::<FOf<G>>::new(Default::default(), seed)));
    let (proof, _) = prove_shape(shape, &shr, &pc, &bp, seed);
    let proof = match proof {
        Ok(p) => p,
        Err(e) => return (false, format!("{:?}", e)),
    };
    let bytes = match proof.to_bytes() {
        Ok(b) => b,
        Err(e) => return (false, format!("{:?}", e)),
    };
    let (pts, scs, ipp) = proof.verif_parts();
    let (l, r, a, b) = ipp.verif_parts();
    let mut want = vec![];
    for p in pts.iter() {
        p.serialize_compressed(&mut want).unwrap();
    }
    for s in scs.iter() {
        s.serialize_compressed(&mut want).unwrap();
    }
    want.extend_from_slice(&(l.len() as u64).to_le_bytes());
    for p in l.iter() {
        p.serialize_compressed(&mut want).unwrap();
    }
    want.extend_from_slice(&(r.len() as u64).to_le_bytes());
    for p in r.iter() {
        p.serialize_compressed(&mut want).unwrap();
    }
    a.serialize_compressed(&mut want).unwrap();
    b.serialize_compressed(&mut want).unwrap();
    let k = pad.trailing_zeros() as usize;
    let ok = bytes == want && l.len() == k && r.len() == k;
    (ok, format!("{} bytes, {} rounds", bytes.len(), l.len()))
}

pub fn job_c18<C: Base + 'static>(shape: &Shape, seed: u64, curve: &str, torsion: Option<Vec<C>>) -> Job
where
    C::ScalarField: Inner,
{
    let mut job = Job { property: "C18".into(), scenario: format!("C18:{}:{}", shape.name, curve), curve: curve.into(), seed, shape: crate::scen_r1cs::shape_json(shape), ..Default::default() };
    // (1) what is proved: every prover message equals the reference formula
    let j9 = crate::scen_c09::job_c09::<C>(shape, seed, curve);
    // (2) what is verified: the combined check equals the reference relations
    let j3 = crate::scen_c03::job_c03::<C>(shape, seed, curve, None);
    // (3) how challenges are derived: transcript schedule, labels, encodings
    let j6 = crate::scen_c06::job_c06_mode::<C>(shape, seed, curve, true);
    for (tag, j) in [("messages", j9), ("relations", j3), ("schedule", j6)] {
        for s in j.structural {
            job.check(&format!("{}: {}", tag, s.name), s.ok, s.detail);
        }
        for mut g in j.groups {
            g.name = format!("{}_{}", tag, g.name);
            job.groups.push(g);
        }
        for m in j.inconclusive {
            job.inconclusive.push(format!("{}: {}", tag, m));
        }
    }
    // (4) interoperability with the pinned reference implementation, natively on this curve, and the
    //     generator derivation and the byte layout (concrete translation validation, no symbolic input)
    for (name, ok) in crate::replay::diff_native::<C>(shape, seed, torsion.clone()) {
        job.check(&format!("reference interop: {}", name), ok, String::new());
    }
    let (ok, d) = layout_check::<C>(shape, seed);
    job.check("encoding layout equals the pinned field order with two 8-byte little-endian counts", ok, d);
    job.stats = stats();
    job.replay = serde_json::json!({"kind": "c18", "shape": crate::scen_r1cs::shape_json(shape), "seed": seed});
    job
}

pub fn c18_shapes(thorough: bool) -> Vec<Shape> {
    use crate::r1cs::Op::*;
    let mut v = vec![
        Shape::new("zero_gates", &[Commit, Commit, ConCommitted], &[]),
        Shape::new("one_gate", &[Commit, AllocMul, Con], &[]),
        Shape::new("three_gates_one_phase", &[Commit, Commit, AllocMul, Mul, AllocMul, Con], &[]),
        Shape::new("two_phase_2_plus_1", &[Commit, AllocMul, Alloc, Con], &[&[Chal, Mul, Con]]),
        Shape::new("two_phase_2_plus_3", &[Commit, AllocMul, AllocMul, Con], &[&[Chal, AllocMul, AllocMul, Alloc, Con]]),
        Shape::new("two_closures_1_plus_1_plus_2", &[Commit, AllocMul, Con], &[&[Chal, Mul, Con], &[Chal, AllocMul, AllocMul, Con]]),
        Shape::new("four_gates_exact_power_of_two", &[Commit, AllocMul, AllocMul, AllocMul, AllocMul, Con], &[]),
        Shape::new("empty_combination_constrained_first", &[Commit, AllocMul, ConEmpty, Con, Con], &[&[Chal, ConEmpty, Con]]),
        Shape::new("app_data_between_and_after_commitments", &[Commit, Msg("between".into()), Commit, Msg("after".into()), AllocMul, Con], &[]),
        // a full gate (allocate_multiplier / multiply) between two paired single allocations
        Shape::new("gates_between_paired_allocations", &[Commit, Alloc, AllocMul, Alloc, Alloc, Mul, Alloc, Con], &[]),
        // an allocation left open at the end of the first phase, single allocations in the randomized phase
        Shape::new("open_allocation_across_the_phase_boundary", &[Commit, AllocMul, Alloc], &[&[Chal, Alloc, Alloc, Con]]),
        // two challenges under the same label in one closure and one more in a second closure, data in between
        Shape::new("repeated_challenge_labels", &[Commit, AllocMul], &[&[Chal, Con, Chal, Msg("x".into()), Con], &[Chal, Con]]),
        // a randomized phase that only adds constraints (no second-phase gate)
        Shape::new("closure_with_constraints_only", &[Commit, AllocMul, Con], &[&[Chal, Con, ConCommitted]]),
        // equal commitments, an identity commitment
        Shape::new("equal_and_identity_commitments", &[Commit, CommitDup, CommitZero, AllocMul, Con, ConCommitted], &[]),
    ];
    if thorough {
        v.push(Shape::new("four_gates", &[Commit, AllocMul, AllocMul, AllocMul, AllocMul, Con], &[]));
        v.push(Shape::new("phase2_only", &[Commit], &[&[Chal, AllocMul, AllocMul, AllocMul, Con]]));
        v.push(Shape::new("seven_gates", &[Commit, AllocMul, AllocMul, AllocMul, Mul, Con], &[&[Chal, AllocMul, AllocMul, Mul, Con]]));
    }
    v
}
