//! Shape language and generic driver for the real `Prover` / `Verifier`.
//!
//! A *shape* is a straight-line program over the constraint-system API.  The driver executes
//! it against a prover and a verifier (any `G: AffineRepr`: the symbolic carriers or a plain
//! curve), with a *universal template*: every linear combination carries a fresh value on every
//! variable allocated so far, so one run denotes every circuit with that call skeleton.
#![allow(non_snake_case)]
use ark_bulletproofs::r1cs::*;
use ark_bulletproofs::{BulletproofGens, PedersenGens};
use ark_ec::AffineRepr;
use ark_ff::{Field, One, Zero};
use merlin::Transcript;
use rand_core::SeedableRng;
use serde::{Deserialize, Serialize};
use std::cell::RefCell;
use std::rc::Rc;

pub type FOf<G> = <G as AffineRepr>::ScalarField;

/// Source of input values (symbolic variables with random shadows, or replayed numbers).
pub trait Vals<F> {
    fn fresh(&mut self, kind: &str) -> F;
}

#[derive(Clone, Debug, Serialize, Deserialize, PartialEq)]
pub enum Op {
    /// commit a high-level variable
    Commit,
    /// commit the value 0 with blinding 0 (the commitment is the identity point)
    CommitZero,
    /// deviation: a commitment only the verifier makes (a fresh point)
    CommitExtraV,
    /// deviation: a commitment only the prover makes (the verifier omits it)
    CommitSkipV,
    /// constrain(sum of all committed variables - const): equal weights on every commitment
    ConSum,
    /// deviation: prover appends the first string, the verifier the second ("" = nothing)
    MsgDev(String, String),
    /// deviation: the prover appends, as application data labelled like a commitment, the encoding of
    /// a point which the verifier instead presents as an additional (unreferenced) commitment
    MsgPointV,
    /// both roles append the point's encoding as application data (the undeviated statement)
    MsgPointVHonest,
    /// commit the same value under the same blinding factor as the first commitment (an equal point)
    CommitDup,
    /// deviation: the verifier has one more commitment, equal to the first one
    CommitExtraDupV,
    /// deviation: the prover repeats the first commitment, the verifier's list lacks the repetition
    CommitDupSkipV,
    /// allocate_multiplier
    AllocMul,
    /// allocate (single variable)
    Alloc,
    /// multiply(lc, lc)
    Mul,
    /// constrain(lc + const)
    Con,
    /// constrain(const) -- a constraint that involves only the constant
    ConConst,
    /// constrain over committed variables (and the constant) only
    ConCommitted,
    /// constrain(LinearCombination::default()): a combination without any term (still one constraint row)
    ConEmpty,
    /// constrain(lc + c * Committed(j) + const) where j is the index of the NEXT commitment, made only afterwards
    /// (constraints are flattened at prove / verify time, so naming a variable ahead of its commitment is valid)
    ConAhead,
    /// constrain(expression tree - const): the tree is built with every linear-combination
    /// operator (seed, depth) -- C15
    ConTree(u64, usize),
    /// constrain(expression tree without any variable leaf - const)
    ConTreeConst(u64, usize),
    /// multiply(tree, tree): both operands are expression trees built with the operators (the prover
    /// evaluates them to synthesise the wires) -- C15
    MulTree(u64, usize),
    /// cs.transcript().append_message(b"app-data", ..)
    Msg(String),
    /// challenge_scalar (second phase only)
    Chal,
}

#[derive(Clone, Debug, Serialize, Deserialize, PartialEq)]
pub enum Coef {
    /// every coefficient a fresh symbolic value
    Sym,
    /// per coefficient a seeded choice among {absent, 1, -1, small literal, symbolic}
    Mixed(u64),
}

#[derive(Clone, Debug, Serialize, Deserialize)]
pub struct Shape {
    pub name: String,
    pub label: String,
    /// deviation: the verifier uses this label instead
    #[serde(default)]
    pub verifier_label: Option<String>,
    /// application data appended to the transcript before the constraint system is created
    pub pre_msg: Option<String>,
    /// deviation: what the verifier appends instead (Some("") = nothing)
    #[serde(default)]
    pub verifier_pre_msg: Option<String>,
    pub phase1: Vec<Op>,
    /// one op list per registered randomized closure
    pub phase2: Vec<Vec<Op>>,
    pub coef: Coef,
    /// at most this many variables per linear combination (0 = all)
    pub lc_width: usize,
    /// register the randomized closures after this many first-phase operations (None = after all)
    #[serde(default)]
    pub register_at: Option<usize>,
    /// committed values and gate inputs are the literals 0, 1, -1, 2, ... instead of symbolic values
    #[serde(default)]
    pub literal_witness: bool,
    /// every committed value and gate input is 0
    #[serde(default)]
    pub zero_witness: bool,
}

impl Shape {
    pub fn new(name: &str, p1: &[Op], p2: &[&[Op]]) -> Self {
        Shape {
            name: name.to_string(),
            label: "verif".to_string(),
            verifier_label: None,
            pre_msg: None,
            verifier_pre_msg: None,
            phase1: p1.to_vec(),
            phase2: p2.iter().map(|v| v.to_vec()).collect(),
            coef: Coef::Sym,
            lc_width: 0,
            literal_witness: false,
            zero_witness: false,
            register_at: None,
        }
    }
    pub fn gates(&self) -> (usize, usize) {
        fn count(ops: &[Op]) -> usize {
            let mut n = 0;
            let mut pending = false;
            for o in ops {
                match o {
                    Op::AllocMul | Op::Mul | Op::MulTree(_, _) => n += 1,
                    Op::Alloc => {
                        if !pending {
                            n += 1;
                        }
                        pending = !pending;
                    }
                    _ => {}
                }
            }
            n
        }
        let n1 = count(&self.phase1);
        let n2: usize = {
            // pending multiplier state carries over between closures of the same phase
            let all: Vec<Op> = self.phase2.iter().flatten().cloned().collect();
            count(&all)
        };
        (n1, n2)
    }
    pub fn commits(&self) -> usize {
        self.phase1.iter().filter(|o| matches!(o, Op::Commit | Op::CommitZero | Op::CommitSkipV | Op::CommitDup | Op::CommitDupSkipV)).count()
    }
    pub fn padded(&self) -> usize {
        let (a, b) = self.gates();
        (a + b).next_power_of_two()
    }
}

/// Which constraints / gates get an error term (C02).  Indices refer to the order of
/// creation: `con` counts `Con`/`ConConst`/`ConCommitted` ops over both phases, `gate`
/// counts gates.
#[derive(Clone, Debug, Default, Serialize, Deserialize)]
pub struct ErrPlan {
    pub con: Vec<usize>,
    /// (gate index, 0 = left, 1 = right, 2 = out)
    pub gate: Vec<(usize, u8)>,
}

#[derive(Clone, Copy, PartialEq, Debug)]
pub enum VK {
    C,
    L,
    R,
    O,
}
pub fn vkey<F: ark_ff::PrimeField>(v: &Variable<F>) -> Option<(VK, usize)> {
    match v {
        Variable::Committed(i) => Some((VK::C, *i)),
        Variable::MultiplierLeft(i) => Some((VK::L, *i)),
        Variable::MultiplierRight(i) => Some((VK::R, *i)),
        Variable::MultiplierOutput(i) => Some((VK::O, *i)),
        _ => None,
    }
}

/// State shared between the phase-1 driver and the `'static` phase-2 closures.
pub struct Shared<G: AffineRepr> {
    pub src: Box<dyn Vals<FOf<G>>>,
    pub tape: Vec<FOf<G>>,
    pub pos: usize,
    pub recording: bool,
    pub is_prover: bool,
    pub coef: Coef,
    pub coef_rng: rand_chacha::ChaChaRng,
    pub lc_width: usize,
    pub literal_witness: bool,
    pub zero_witness: bool,
    /// value and blinding factor drawn ahead of time for the next commitment (ConAhead)
    pub ahead: Option<(FOf<G>, FOf<G>)>,
    pub lit_count: usize,
    /// indices of the registered closures in the order the current role ran them / the prover ran them
    pub closure_runs: Vec<usize>,
    pub closure_runs_prover: Vec<usize>,
    pub err: ErrPlan,
    pub vars: Vec<(Variable<FOf<G>>, FOf<G>)>,
    pub v: Vec<FOf<G>>,
    pub v_blinding: Vec<FOf<G>>,
    pub commitments: Vec<G>,
    pub verifier_commitments: Vec<G>,
    /// value of every constraint under the tracked assignment, in creation order
    pub con_vals: Vec<FOf<G>>,
    pub n_explicit_con: usize,
    /// every constraint as the harness spelled it: (variable, coefficient) terms and constant
    pub cons: Vec<(Vec<(VK, usize, FOf<G>)>, FOf<G>)>,
    /// tracked (left, right, out) of every gate
    pub gates: Vec<(FOf<G>, FOf<G>, FOf<G>)>,
    pub pending: Option<usize>,
    pub chals: Vec<FOf<G>>,
    pub handles: Vec<String>,
    /// multipliers_len() after every operation
    pub len_trace: Vec<usize>,
    pub errors: Vec<String>,
    /// verifier-side deviation: shift the k-th replayed draw of a kind by `dev_delta`
    pub dev_draw: Option<(String, usize)>,
    /// statement deviation on EVERY draw of a kind: the k-th draw of `kind` is shifted by `dev_all[kind][k]`
    pub dev_all: std::collections::HashMap<String, Vec<FOf<G>>>,
    pub dev_delta: Option<FOf<G>>,
    pub kind_count: std::collections::HashMap<String, usize>,
    /// point committed by a verifier-only extra commitment
    pub extra_commitment: Option<G>,
}

impl<G: AffineRepr> Shared<G> {
    pub fn draw(&mut self, kind: &str) -> FOf<G> {
        if self.recording {
            let v = if self.zero_witness && (kind == "w" || kind == "v") {
                FOf::<G>::zero()
            } else if self.literal_witness && (kind == "w" || kind == "v") {
                let k = self.lit_count;
                self.lit_count += 1;
                match k % 7 {
                    0 => FOf::<G>::zero(),
                    1 | 4 => FOf::<G>::one(),
                    2 => -FOf::<G>::one(),
                    3 => FOf::<G>::from(2u64),
                    5 => FOf::<G>::zero(),
                    _ => FOf::<G>::from(3u64),
                }
            } else {
                self.src.fresh(kind)
            };
            self.tape.push(v);
            v
        } else {
            if self.pos >= self.tape.len() {
                // the replaying role asks for more values than the recording role drew: the two roles are not
                // executing the same program (a structural failure, reported and replayed like any other)
                if !self.errors.iter().any(|e| e.starts_with("roles out of step")) {
                    self.errors.push(format!("roles out of step: the replaying role asks for value #{} of kind {:?}, the recording role drew {}", self.pos, kind, self.tape.len()));
                }
                return FOf::<G>::zero();
            }
            let mut v = self.tape[self.pos];
            self.pos += 1;
            // statement deviation on the replaying (verifier) side: the k-th draw of a kind is shifted
            let c = self.kind_count.entry(kind.to_string()).or_insert(0);
            if let (Some((dk, di)), Some(d)) = (&self.dev_draw, self.dev_delta) {
                if dk == kind && *di == *c {
                    v += d;
                }
            }
            if let Some(d) = self.dev_all.get(kind).and_then(|ds| ds.get(*c)) {
                v += *d;
            }
            *c += 1;
            v
        }
    }
    /// a value computed by the recording side that the replaying side must take over unchanged
    fn carry(&mut self, kind: &str, computed: FOf<G>) -> FOf<G> {
        if self.recording {
            self.tape.push(computed);
            computed
        } else {
            self.draw(kind)
        }
    }
    fn coef(&mut self, phase2: bool) -> Option<FOf<G>> {
        use rand::Rng;
        let base = match self.coef {
            Coef::Sym => Some(self.draw("c")),
            Coef::Mixed(_) => match self.coef_rng.gen_range(0..7u32) {
                0 => None,
                6 => Some(FOf::<G>::zero()),
                1 => Some(FOf::<G>::one()),
                2 => Some(-FOf::<G>::one()),
                3 => Some(FOf::<G>::from(self.coef_rng.gen_range(2..7u64))),
                _ => Some(self.draw("c")),
            },
        };
        match (base, phase2, self.chals.last()) {
            (Some(b), true, Some(ch)) => Some(b * ch),
            (b, _, _) => b,
        }
    }
    /// universal linear combination over the variables allocated so far
    fn lc(&mut self, phase2: bool, only_committed: bool) -> (LinearCombination<FOf<G>>, FOf<G>, Vec<(VK, usize, FOf<G>)>) {
        let mut lc = LinearCombination::default();
        let mut val = FOf::<G>::zero();
        let mut terms = vec![];
        let vars: Vec<(Variable<FOf<G>>, FOf<G>)> = self
            .vars
            .iter()
            .filter(|(v, _)| !only_committed || matches!(v, Variable::Committed(_)))
            .cloned()
            .collect();
        let skip = if self.lc_width > 0 && vars.len() > self.lc_width { vars.len() - self.lc_width } else { 0 };
        for (k, (var, x)) in vars.iter().enumerate() {
            // keep the first variable and the most recent ones when a width limit is set
            if skip > 0 && k != 0 && k <= skip {
                continue;
            }
            let (vk, vi) = vkey(var).unwrap();
            if let Some(c) = self.coef(phase2) {
                lc = lc + *var * c;
                val += c * x;
                terms.push((vk, vi, c));
            }
            if k == 0 {
                // repeated variable: the first variable occurs a second time
                if let Some(c) = self.coef(phase2) {
                    lc = lc - *var * c;
                    val -= c * x;
                    terms.push((vk, vi, -c));
                }
            }
        }
        (lc, val, terms)
    }
    pub fn set_var(&mut self, var: Variable<FOf<G>>, val: FOf<G>) {
        let k = vkey(&var);
        for e in self.vars.iter_mut() {
            if vkey(&e.0) == k {
                e.1 = val;
                return;
            }
        }
        self.vars.push((var, val));
    }
    fn gate_err(&mut self, gate: usize, which: u8) -> FOf<G> {
        if self.err.gate.contains(&(gate, which)) {
            self.draw("gerr")
        } else {
            FOf::<G>::zero()
        }
    }
}

/// What the driver needs from a constraint system beyond the public trait.
pub trait RoleCS<G: AffineRepr>: ConstraintSystem<FOf<G>> {
    fn role_commit(&mut self, _sh: &mut Shared<G>, _mode: u8) -> Variable<FOf<G>> {
        panic!("commit in the randomized phase")
    }
    fn role_set_gate(&mut self, _i: usize, _l: FOf<G>, _r: FOf<G>, _o: FOf<G>) {}
    fn role_chal(&mut self) -> FOf<G> {
        panic!("challenge outside the randomized phase")
    }
}

impl<'g, 't, G: AffineRepr> RoleCS<G> for Prover<'g, G, &'t mut Transcript> {
    fn role_commit(&mut self, sh: &mut Shared<G>, mode: u8) -> Variable<FOf<G>> {
        let (v, vb) = match mode {
            1 => (FOf::<G>::zero(), FOf::<G>::zero()),
            // the same value under the same blinding factor as the first commitment (an equal point)
            2 if !sh.v.is_empty() => (sh.v[0], sh.v_blinding[0]),
            _ => match sh.ahead.take() {
                Some(x) => x,
                None => (sh.draw("v"), sh.draw("vb")),
            },
        };
        let (V, var) = self.commit(v, vb);
        sh.v.push(v);
        sh.v_blinding.push(vb);
        sh.commitments.push(V);
        sh.set_var(var, v);
        var
    }
    fn role_set_gate(&mut self, i: usize, l: FOf<G>, r: FOf<G>, o: FOf<G>) {
        self.verif_set_gate(i, l, r, o)
    }
}
impl<'g, 't, G: AffineRepr> RoleCS<G> for RandomizingProver<'g, G, &'t mut Transcript> {
    fn role_set_gate(&mut self, i: usize, l: FOf<G>, r: FOf<G>, o: FOf<G>) {
        self.verif_set_gate(i, l, r, o)
    }
    fn role_chal(&mut self) -> FOf<G> {
        self.challenge_scalar(b"ch")
    }
}
impl<'t, G: AffineRepr> RoleCS<G> for Verifier<G, &'t mut Transcript> {
    fn role_commit(&mut self, sh: &mut Shared<G>, mode: u8) -> Variable<FOf<G>> {
        let (v, _vb) = match mode {
            1 => (FOf::<G>::zero(), FOf::<G>::zero()),
            2 if !sh.v.is_empty() => (sh.v[0], FOf::<G>::zero()),
            _ => match sh.ahead.take() {
                Some(x) => x,
                None => (sh.draw("v"), sh.draw("vb")),
            },
        };
        let j = sh.v.len();
        sh.v.push(v);
        let V = sh.verifier_commitments[j];
        let var = self.commit(V);
        sh.set_var(var, v);
        var
    }
}
impl<'t, G: AffineRepr> RoleCS<G> for RandomizingVerifier<G, &'t mut Transcript> {
    fn role_chal(&mut self) -> FOf<G> {
        self.challenge_scalar(b"ch")
    }
}

fn show_var<F: ark_ff::PrimeField>(v: &Variable<F>) -> String {
    match vkey(v) {
        Some((k, i)) => format!("{:?}{}", k, i),
        None => "?".into(),
    }
}

pub fn run_ops<G: AffineRepr, CS: RoleCS<G>>(cs: &mut CS, ops: &[Op], shr: &Rc<RefCell<Shared<G>>>, phase2: bool) {
    let sh = &mut *shr.borrow_mut();
    let prover = sh.is_prover;
    for op in ops {
        match op {
            Op::Commit | Op::CommitZero | Op::CommitDup => {
                let var = cs.role_commit(sh, match op { Op::CommitZero => 1, Op::CommitDup => 2, _ => 0 });
                sh.handles.push(show_var(&var));
            }
            Op::CommitExtraDupV => {
                if !prover && !sh.verifier_commitments.is_empty() {
                    // verifier only: one more commitment, equal to the first one
                    let dup = sh.verifier_commitments[0];
                    sh.verifier_commitments.push(dup);
                    let var = cs.role_commit(sh, 2);
                    sh.vars.pop();
                    sh.handles.push(show_var(&var));
                }
            }
            Op::CommitDupSkipV => {
                if prover {
                    let var = cs.role_commit(sh, 2);
                    sh.handles.push(show_var(&var));
                } else {
                    // the verifier's list of commitments lacks the repeated one
                    let j = sh.v.len();
                    if j < sh.verifier_commitments.len() {
                        sh.verifier_commitments.remove(j);
                    }
                }
            }
            Op::CommitExtraV => {
                if !prover {
                    // verifier only: one more commitment
                    let extra = sh.extra_commitment.expect("extra commitment point");
                    sh.verifier_commitments.push(extra);
                    let j = sh.v.len();
                    // keep the tape aligned: nothing is drawn
                    let saved = (sh.tape.clone(), sh.pos);
                    sh.tape.insert(sh.pos, FOf::<G>::zero());
                    sh.tape.insert(sh.pos, FOf::<G>::zero());
                    let _ = j;
                    let var = cs.role_commit(sh, 0);
                    sh.tape = saved.0;
                    sh.pos = saved.1;
                    // the extra variable is not referenced by any constraint
                    sh.vars.pop();
                    sh.handles.push(show_var(&var));
                }
            }
            Op::CommitSkipV => {
                if prover {
                    let var = cs.role_commit(sh, 0);
                    sh.handles.push(show_var(&var));
                } else {
                    let _ = sh.draw("v");
                    let _ = sh.draw("vb");
                    // the verifier's list of commitments simply lacks this one
                    let j = sh.v.len();
                    if j < sh.verifier_commitments.len() {
                        sh.verifier_commitments.remove(j);
                    }
                }
            }
            Op::MsgPointV => {
                let extra = sh.extra_commitment.expect("extra commitment point");
                if prover {
                    let mut bytes = Vec::new();
                    ark_serialize::CanonicalSerialize::serialize_uncompressed(&extra, &mut bytes).unwrap();
                    cs.transcript().append_message(b"V", &bytes);
                } else {
                    sh.verifier_commitments.push(extra);
                    let saved = (sh.tape.clone(), sh.pos);
                    sh.tape.insert(sh.pos, FOf::<G>::zero());
                    sh.tape.insert(sh.pos, FOf::<G>::zero());
                    let var = cs.role_commit(sh, 0);
                    sh.tape = saved.0;
                    sh.pos = saved.1;
                    sh.vars.pop();
                    sh.handles.push(show_var(&var));
                }
            }
            Op::MsgPointVHonest => {
                let extra = sh.extra_commitment.expect("extra commitment point");
                let mut bytes = Vec::new();
                ark_serialize::CanonicalSerialize::serialize_uncompressed(&extra, &mut bytes).unwrap();
                cs.transcript().append_message(b"V", &bytes);
            }
            Op::MsgDev(a, b) => {
                let s = if prover { a } else { b };
                if !s.is_empty() {
                    cs.transcript().append_message(b"app-data", s.as_bytes());
                }
            }
            Op::AllocMul => {
                let l = sh.draw("w");
                let r = sh.draw("w");
                let i = sh.gates.len();
                let go = sh.gate_err(i, 2);
                let o = l * r + go;
                let res = cs.allocate_multiplier(if prover { Some((l, r)) } else { None });
                let (lv, rv, ov) = match res {
                    Ok(t) => t,
                    Err(e) => {
                        sh.errors.push(format!("allocate_multiplier: {:?}", e));
                        return;
                    }
                };
                sh.handles.push(format!("{},{},{}", show_var(&lv), show_var(&rv), show_var(&ov)));
                sh.gates.push((l, r, o));
                sh.set_var(lv, l);
                sh.set_var(rv, r);
                sh.set_var(ov, o);
                if sh.err.gate.iter().any(|(g, _)| *g == i) {
                    cs.role_set_gate(i, l, r, o);
                }
            }
            Op::Alloc => {
                let x = sh.draw("w");
                let res = cs.allocate(if prover { Some(x) } else { None });
                let var = match res {
                    Ok(v) => v,
                    Err(e) => {
                        sh.errors.push(format!("allocate: {:?}", e));
                        return;
                    }
                };
                sh.handles.push(show_var(&var));
                match var {
                    Variable::MultiplierLeft(i) => {
                        if i != sh.gates.len() {
                            sh.errors.push(format!("allocate returned Left({}) with {} gates tracked", i, sh.gates.len()));
                            return;
                        }
                        sh.gates.push((x, FOf::<G>::zero(), FOf::<G>::zero()));
                        sh.pending = Some(i);
                        sh.set_var(var, x);
                        // the right and output wires of a half-assigned gate are zero until (unless) a
                        // second allocation fills them; constraints may not refer to them before that
                    }
                    Variable::MultiplierRight(i) => {
                        if i >= sh.gates.len() {
                            sh.errors.push(format!("allocate returned Right({}) with {} gates tracked", i, sh.gates.len()));
                            return;
                        }
                        let l = sh.gates[i].0;
                        let go = sh.gate_err(i, 2);
                        let o = l * x + go;
                        sh.gates[i] = (l, x, o);
                        sh.pending = None;
                        sh.set_var(var, x);
                        sh.set_var(Variable::MultiplierOutput(i), o);
                        if sh.err.gate.iter().any(|(g, _)| *g == i) {
                            cs.role_set_gate(i, l, x, o);
                        }
                    }
                    _ => {
                        sh.errors.push("allocate returned a non-wire variable".into());
                        return;
                    }
                }
            }
            Op::Mul => {
                let (lca, va, mut ta) = sh.lc(phase2, false);
                let (lcb, vb, mut tb) = sh.lc(phase2, false);
                // the honest input wires are fresh values; the constants of the two input combinations
                // are computed so that the combinations evaluate to them (keeps every wire value a
                // variable or a product of two variables, whatever the nesting of multiplications)
                let l0 = sh.draw("w");
                let r0 = sh.draw("w");
                let ca = sh.carry("const", l0 - va);
                let cb = sh.carry("const", r0 - vb);
                let i = sh.gates.len();
                let gl = sh.gate_err(i, 0);
                let gr = sh.gate_err(i, 1);
                let go = sh.gate_err(i, 2);
                let l = l0 + gl;
                let r = r0 + gr;
                let o = l * r + go;
                let (lv, rv, ov) =
                    // the constant comes last in the left operand and first in the right one
                    match sh.coef {
                        Coef::Sym => cs.multiply(lca + LinearCombination::from(ca), LinearCombination::from(cb) + lcb),
                        // literal 1 and -1 as separate constant terms of the operands (as in `1 - b`)
                        Coef::Mixed(_) => {
                            let one = FOf::<G>::one();
                            cs.multiply(LinearCombination::from(one) + lca + LinearCombination::from(ca - one), LinearCombination::from(cb + one) + lcb - one)
                        }
                    };
                sh.handles.push(format!("{},{},{}", show_var(&lv), show_var(&rv), show_var(&ov)));
                sh.gates.push((l, r, o));
                sh.set_var(lv, l);
                sh.set_var(rv, r);
                sh.set_var(ov, o);
                // the two implicit constraints  lc - l_var = 0,  lc - r_var = 0: their values under the tracked assignment
                // (-gl, -gr on the recording side; a deviating constant or coefficient on the replaying side shows up here)
                sh.con_vals.push(va + ca - l);
                sh.con_vals.push(vb + cb - r);
                ta.push((VK::L, i, -FOf::<G>::one()));
                tb.push((VK::R, i, -FOf::<G>::one()));
                sh.cons.push((ta, ca));
                sh.cons.push((tb, cb));
                if sh.err.gate.iter().any(|(g, _)| *g == i) {
                    cs.role_set_gate(i, l, r, o);
                }
            }
            Op::ConEmpty => {
                sh.n_explicit_con += 1;
                cs.constrain(LinearCombination::default());
                sh.con_vals.push(FOf::<G>::zero());
                sh.cons.push((vec![], FOf::<G>::zero()));
            }
            Op::ConAhead => {
                let (lc, val, mut terms) = sh.lc(phase2, false);
                let j = sh.v.len();
                let (vf, vbf) = (sh.draw("v"), sh.draw("vb"));
                sh.ahead = Some((vf, vbf));
                let cf = sh.draw("c");
                let q = sh.n_explicit_con;
                sh.n_explicit_con += 1;
                let e = if sh.err.con.contains(&q) { sh.draw("err") } else { FOf::<G>::zero() };
                let c = sh.carry("const", e - val - cf * vf);
                cs.constrain(lc + Variable::Committed(j) * cf + LinearCombination::from(c));
                sh.con_vals.push(val + cf * vf + c);
                terms.push((VK::C, j, cf));
                sh.cons.push((terms, c));
            }
            Op::Con | Op::ConConst | Op::ConCommitted | Op::ConSum => {
                let (lc, val, terms) = match op {
                    Op::Con => sh.lc(phase2, false),
                    Op::ConCommitted => sh.lc(phase2, true),
                    Op::ConSum => {
                        let mut lc = LinearCombination::default();
                        let mut val = FOf::<G>::zero();
                        let mut terms = vec![];
                        for (var, x) in sh.vars.clone().iter().filter(|(v, _)| matches!(v, Variable::Committed(_))) {
                            lc = lc + *var;
                            val += x;
                            let (vk, vi) = vkey(var).unwrap();
                            terms.push((vk, vi, FOf::<G>::one()));
                        }
                        (lc, val, terms)
                    }
                    _ => (LinearCombination::default(), FOf::<G>::zero(), vec![]),
                };
                let q = sh.n_explicit_con;
                sh.n_explicit_con += 1;
                let e = if sh.err.con.contains(&q) { sh.draw("err") } else { FOf::<G>::zero() };
                // constant chosen so that the constraint evaluates to `e` (0 = satisfied); it is
                // spelled as two separate constant terms (as in `lhs - rhs` with a constant on
                // each side), since linear combinations never merge terms
                let c = sh.carry("const", e - val);
                let ca = match sh.coef {
                    Coef::Sym => sh.draw("k"),
                    // a constant term that is exactly 1, -1 or 0
                    // (cycled over the explicit constraints so that every pattern occurs in every
                    // mixed-coefficient skeleton with enough constraints)
                    Coef::Mixed(_) => match q % 4 {
                        0 => FOf::<G>::one(),
                        1 => -FOf::<G>::one(),
                        2 => FOf::<G>::zero(),
                        _ => sh.draw("k"),
                    },
                };
                cs.constrain(LinearCombination::from(ca) + lc + LinearCombination::from(c - ca));
                // value of the constraint under the tracked assignment (e on the recording side)
                sh.con_vals.push(val + c);
                sh.cons.push((terms, c));
            }
            Op::MulTree(seed, depth) => {
                use rand::Rng;
                let mut trng = rand_chacha::ChaChaRng::seed_from_u64(*seed);
                let handles: Vec<Variable<FOf<G>>> = sh.vars.iter().map(|v| v.0).collect();
                let vals: Vec<FOf<G>> = sh.vars.iter().map(|v| v.1).collect();
                let mut mk = |sh: &mut Shared<G>, trng: &mut rand_chacha::ChaChaRng| {
                    let mut coef = |r: &mut rand_chacha::ChaChaRng| -> FOf<G> {
                        match r.gen_range(0..8u32) {
                            0 => FOf::<G>::zero(),
                            1 | 2 => FOf::<G>::one(),
                            3 => -FOf::<G>::one(),
                            4 => FOf::<G>::from(2u64),
                            _ => sh.draw("c"),
                        }
                    };
                    crate::expr::random_tree::<FOf<G>>(trng, handles.len(), *depth, &mut coef)
                };
                let ta_tree = mk(sh, &mut trng);
                let tb_tree = mk(sh, &mut trng);
                let (lca, va) = (crate::expr::build(&ta_tree, &handles), crate::expr::eval(&ta_tree, &vals));
                let (lcb, vb) = (crate::expr::build(&tb_tree, &handles), crate::expr::eval(&tb_tree, &vals));
                let (da, ka) = crate::expr::flatten(&ta_tree, handles.len());
                let (db, kb) = crate::expr::flatten(&tb_tree, handles.len());
                let l0 = sh.draw("w");
                let r0 = sh.draw("w");
                let ca = sh.carry("const", l0 - va);
                let cb = sh.carry("const", r0 - vb);
                let i = sh.gates.len();
                let gl = sh.gate_err(i, 0);
                let gr = sh.gate_err(i, 1);
                let go = sh.gate_err(i, 2);
                let (l, r) = (l0 + gl, r0 + gr);
                let o = l * r + go;
                // a constant spelled first in the left operand, last in the right one
                let (lv, rv, ov) = cs.multiply(LinearCombination::from(ca) + lca, lcb + cb);
                sh.handles.push(format!("{},{},{}", show_var(&lv), show_var(&rv), show_var(&ov)));
                sh.gates.push((l, r, o));
                sh.set_var(lv, l);
                sh.set_var(rv, r);
                sh.set_var(ov, o);
                sh.con_vals.push(va + ca - l);
                sh.con_vals.push(vb + cb - r);
                let mut ta: Vec<(VK, usize, FOf<G>)> = handles.iter().zip(da.iter()).map(|(h, co)| { let (k, j) = vkey(h).unwrap(); (k, j, *co) }).collect();
                let mut tb: Vec<(VK, usize, FOf<G>)> = handles.iter().zip(db.iter()).map(|(h, co)| { let (k, j) = vkey(h).unwrap(); (k, j, *co) }).collect();
                ta.push((VK::L, i, -FOf::<G>::one()));
                tb.push((VK::R, i, -FOf::<G>::one()));
                sh.cons.push((ta, ka + ca));
                sh.cons.push((tb, kb + cb));
                if sh.err.gate.iter().any(|(g, _)| *g == i) {
                    cs.role_set_gate(i, l, r, o);
                }
            }
            Op::ConTree(seed, depth) | Op::ConTreeConst(seed, depth) => {
                use rand::Rng;
                let mut trng = rand_chacha::ChaChaRng::seed_from_u64(*seed);
                let wire_free = matches!(op, Op::ConTreeConst(_, _));
                let handles: Vec<Variable<FOf<G>>> = if wire_free { vec![] } else { sh.vars.iter().map(|v| v.0).collect() };
                let vals: Vec<FOf<G>> = if wire_free { vec![] } else { sh.vars.iter().map(|v| v.1).collect() };
                let tree = {
                    let mut coef = |r: &mut rand_chacha::ChaChaRng| -> FOf<G> {
                        match r.gen_range(0..8u32) {
                            0 => FOf::<G>::zero(),
                            1 | 2 => FOf::<G>::one(),
                            3 => -FOf::<G>::one(),
                            4 => FOf::<G>::from(2u64),
                            _ => sh.draw("c"),
                        }
                    };
                    crate::expr::random_tree::<FOf<G>>(&mut trng, handles.len(), *depth, &mut coef)
                };
                let lc = crate::expr::build(&tree, &handles);
                let val = crate::expr::eval(&tree, &vals);
                let (dense, k0) = crate::expr::flatten(&tree, handles.len());
                let q = sh.n_explicit_con;
                sh.n_explicit_con += 1;
                let e = if sh.err.con.contains(&q) { sh.draw("err") } else { FOf::<G>::zero() };
                // constrain(expr - c) with c = value(expr) - e
                let c = sh.carry("const", val - e);
                cs.constrain(lc - c);
                sh.con_vals.push(val - c);
                let terms: Vec<(VK, usize, FOf<G>)> = handles.iter().zip(dense.iter()).map(|(h, co)| { let (k, i) = vkey(h).unwrap(); (k, i, *co) }).collect();
                sh.cons.push((terms, k0 - c));
                sh.handles.push(format!("tree:{}", crate::expr::show(&tree)));
            }
            Op::Msg(s) => {
                cs.transcript().append_message(b"app-data", s.as_bytes());
            }
            Op::Chal => {
                let c = cs.role_chal();
                sh.chals.push(c);
            }
        }
        let ml = cs.multipliers_len();
        sh.len_trace.push(ml);
    }
}

thread_local! {
    static EXT_LOG: RefCell<Vec<u8>> = RefCell::new(Vec::new());
}
/// every byte the caller's RNG handed out during the most recent `prove_shape`
pub fn ext_log() -> Vec<u8> {
    EXT_LOG.with(|l| l.borrow().clone())
}
/// The caller's external randomness; all output goes through `fill_bytes` and is logged.
pub struct ExtRng(pub rand_chacha::ChaChaRng);
impl rand_core::RngCore for ExtRng {
    fn next_u32(&mut self) -> u32 {
        rand_core::impls::next_u32_via_fill(self)
    }
    fn next_u64(&mut self) -> u64 {
        rand_core::impls::next_u64_via_fill(self)
    }
    fn fill_bytes(&mut self, d: &mut [u8]) {
        self.0.fill_bytes(d);
        EXT_LOG.with(|l| l.borrow_mut().extend_from_slice(d));
    }
    fn try_fill_bytes(&mut self, d: &mut [u8]) -> Result<(), rand_core::Error> {
        self.fill_bytes(d);
        Ok(())
    }
}
impl rand_core::CryptoRng for ExtRng {}

pub struct AlphaRng(pub rand_chacha::ChaChaRng);
impl rand_core::RngCore for AlphaRng {
    fn next_u32(&mut self) -> u32 {
        self.0.next_u32()
    }
    fn next_u64(&mut self) -> u64 {
        self.0.next_u64()
    }
    fn fill_bytes(&mut self, d: &mut [u8]) {
        self.0.fill_bytes(d)
    }
    fn try_fill_bytes(&mut self, d: &mut [u8]) -> Result<(), rand_core::Error> {
        self.0.try_fill_bytes(d)
    }
}
impl rand_core::CryptoRng for AlphaRng {}

pub fn new_shared<G: AffineRepr>(shape: &Shape, err: &ErrPlan, src: Box<dyn Vals<FOf<G>>>) -> Rc<RefCell<Shared<G>>> {
    let seed = match shape.coef {
        Coef::Mixed(s) => s,
        _ => 0,
    };
    Rc::new(RefCell::new(Shared {
        src,
        tape: vec![],
        pos: 0,
        recording: true,
        is_prover: true,
        coef: shape.coef.clone(),
        coef_rng: rand_chacha::ChaChaRng::seed_from_u64(seed),
        lc_width: shape.lc_width,
        literal_witness: shape.literal_witness,
        zero_witness: shape.zero_witness,
        ahead: None,
        lit_count: 0,
        closure_runs: vec![],
        closure_runs_prover: vec![],
        err: err.clone(),
        vars: vec![],
        v: vec![],
        v_blinding: vec![],
        commitments: vec![],
        verifier_commitments: vec![],
        con_vals: vec![],
        n_explicit_con: 0,
        cons: vec![],
        gates: vec![],
        pending: None,
        chals: vec![],
        handles: vec![],
        len_trace: vec![],
        errors: vec![],
        dev_draw: None,
        dev_all: Default::default(),
        dev_delta: None,
        kind_count: Default::default(),
        extra_commitment: None,
    }))
}

/// Prover side: build the circuit of `shape` and prove.
pub fn prove_shape<G: AffineRepr>(
    shape: &Shape,
    shr: &Rc<RefCell<Shared<G>>>,
    pc: &PedersenGens<G>,
    bp: &BulletproofGens<G>,
    ext_seed: u64,
) -> (Result<R1CSProof<G>, R1CSError>, Transcript)
where
    G: 'static,
{
    let mut pt = Transcript::new(b"verif-shape");
    pt.append_message(b"label", shape.label.as_bytes());
    if let Some(m) = &shape.pre_msg {
        pt.append_message(b"pre", m.as_bytes());
    }
    let res = {
        let mut prover = Prover::new(pc, &mut pt);
        let at = shape.register_at.unwrap_or(shape.phase1.len()).min(shape.phase1.len());
        run_ops(&mut prover, &shape.phase1[..at], shr, false);
        for (cj, ops) in shape.phase2.iter().enumerate() {
            let ops = ops.clone();
            let sh2 = shr.clone();
            prover
                .specify_randomized_constraints(move |rcs| {
                    sh2.borrow_mut().closure_runs.push(cj);
                    run_ops(rcs, &ops, &sh2, true);
                    Ok(())
                })
                .unwrap();
        }
        run_ops(&mut prover, &shape.phase1[at..], shr, false);
        EXT_LOG.with(|l| l.borrow_mut().clear());
        let mut ext = ExtRng(rand_chacha::ChaChaRng::seed_from_u64(ext_seed));
        prover.prove_and_return_transcript(&mut ext, bp).map(|(p, _t)| p)
    };
    (res, pt)
}

/// Switch the shared state from the prover pass to the verifier pass.
/// true when a role ran every registered closure exactly once, in registration order
pub fn closures_as_registered(shape: &Shape, runs: &[usize]) -> bool {
    runs.iter().copied().eq(0..shape.phase2.len())
}

pub fn rewind_for_verifier<G: AffineRepr>(shr: &Rc<RefCell<Shared<G>>>) {
    let sh = &mut *shr.borrow_mut();
    sh.recording = false;
    sh.pos = 0;
    if sh.is_prover {
        sh.closure_runs_prover = std::mem::take(&mut sh.closure_runs);
    } else {
        sh.closure_runs.clear();
    }
    sh.is_prover = false;
    let seed = match sh.coef {
        Coef::Mixed(s) => s,
        _ => 0,
    };
    sh.coef_rng = rand_chacha::ChaChaRng::seed_from_u64(seed);
    sh.vars.clear();
    sh.v.clear();
    sh.con_vals.clear();
    sh.cons.clear();
    sh.n_explicit_con = 0;
    sh.gates.clear();
    sh.pending = None;
    sh.chals.clear();
    sh.kind_count.clear();
    sh.handles.clear();
    sh.len_trace.clear();
    if sh.verifier_commitments.is_empty() {
        sh.verifier_commitments = sh.commitments.clone();
    }
}

struct NoVals;
impl<F> Vals<F> for NoVals {
    fn fresh(&mut self, _kind: &str) -> F {
        panic!("a forked (replaying) state never draws fresh values")
    }
}

/// An independent verifier-side copy of the shared state (same tape, same commitments): needed when
/// several verifiers of the same statement are alive at once (batch verification), because the
/// randomized-phase closures only run inside `verify` / `batch_verify`.
pub fn fork_for_verifier<G: AffineRepr + 'static>(shape: &Shape, shr: &Rc<RefCell<Shared<G>>>) -> Rc<RefCell<Shared<G>>> {
    let f = new_shared::<G>(shape, &Default::default(), Box::new(NoVals));
    {
        let src = shr.borrow();
        let mut d = f.borrow_mut();
        d.tape = src.tape.clone();
        d.err = src.err.clone();
        d.commitments = src.commitments.clone();
        d.verifier_commitments = if src.verifier_commitments.is_empty() { src.commitments.clone() } else { src.verifier_commitments.clone() };
        d.v_blinding = src.v_blinding.clone();
        d.extra_commitment = src.extra_commitment;
        d.dev_draw = src.dev_draw.clone();
        d.dev_all = src.dev_all.clone();
        d.dev_delta = src.dev_delta;
    }
    rewind_for_verifier(&f);
    f
}

pub struct PreparedVerifier<'t, G: AffineRepr> {
    pub verifier: Verifier<G, &'t mut Transcript>,
}

pub fn new_verifier_transcript(shape: &Shape) -> Transcript {
    let mut vt = Transcript::new(b"verif-shape");
    vt.append_message(b"label", shape.verifier_label.as_ref().unwrap_or(&shape.label).as_bytes());
    let pre = match &shape.verifier_pre_msg {
        Some(m) if m.is_empty() => None,
        Some(m) => Some(m.clone()),
        None => shape.pre_msg.clone(),
    };
    if let Some(m) = &pre {
        vt.append_message(b"pre", m.as_bytes());
    }
    vt
}

/// Verifier side: rebuild the circuit (replaying the prover's tape).
pub fn build_verifier<'t, G: AffineRepr + 'static>(
    shape: &Shape,
    shr: &Rc<RefCell<Shared<G>>>,
    vt: &'t mut Transcript,
) -> Verifier<G, &'t mut Transcript> {
    let mut verifier = Verifier::new(vt);
    let at = shape.register_at.unwrap_or(shape.phase1.len()).min(shape.phase1.len());
    run_ops(&mut verifier, &shape.phase1[..at], shr, false);
    for (cj, ops) in shape.phase2.iter().enumerate() {
        let ops = ops.clone();
        let sh2 = shr.clone();
        verifier
            .specify_randomized_constraints(move |rcs| {
                sh2.borrow_mut().closure_runs.push(cj);
                run_ops(rcs, &ops, &sh2, true);
                Ok(())
            })
            .unwrap();
    }
    run_ops(&mut verifier, &shape.phase1[at..], shr, false);
    verifier
}

/// Pedersen bases of an R1CS scenario: the crate's default pair for half of the (name, seed) combinations, an
/// independent pair of points for the other half -- the same choice for a symbolic run and its native replay.
/// With the default pair `pc.B` coincides with the curve's standard generator, so code that reaches for
/// `G::generator()` instead of the bases it was given would go unnoticed.
pub fn pc_for<G: AffineRepr>(name: &str, seed: u64) -> PedersenGens<G> {
    let mut h: u64 = 0xcbf29ce484222325;
    for b in name.bytes() {
        h ^= b as u64;
        h = h.wrapping_mul(0x100000001b3);
    }
    h ^= seed.wrapping_mul(0x9e3779b97f4a7c15);
    h ^= h >> 29;
    if std::env::var("VERIF_DEFAULT_PC").is_ok() || (h >> 7) & 1 == 0 {
        PedersenGens::default()
    } else {
        use ark_std::UniformRand;
        let mut rng = rand_chacha::ChaChaRng::seed_from_u64(h);
        PedersenGens { B: G::Group::rand(&mut rng).into(), B_blinding: G::Group::rand(&mut rng).into() }
    }
}

pub fn field_inv<F: Field>(x: F) -> F {
    x.inverse().expect("nonzero")
}
