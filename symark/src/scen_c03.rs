//! C03: the verifier's combined check against the unbatched relations, for an arbitrary proof
//! object (every proof point an independent symbol, every proof scalar a free variable).
#![allow(non_snake_case)]
use crate::arena::{self};
use crate::field::{Inner, SymF};
use crate::group::{Base, SymA, SymP};
use crate::job::*;
use crate::oracle::{self, Chals, ProofParts};
use crate::r1cs::*;
use crate::scen_r1cs::*;
use ark_bulletproofs::r1cs::*;
use ark_bulletproofs::verif_hooks::InnerProductProof;
use ark_bulletproofs::{BulletproofGens, PedersenGens};
use ark_ec::{AffineRepr, CurveGroup};
use ark_ff::UniformRand;
use rand_core::SeedableRng;

pub const POINT_NAMES: [&str; 11] = ["A_I1", "A_O1", "S1", "A_I2", "A_O2", "S2", "T_1", "T_3", "T_4", "T_5", "T_6"];

pub struct OpaqueProof<C: Base>
where
    C::ScalarField: Inner,
{
    pub parts: ProofParts<SymA<C>>,
    pub proof: R1CSProof<SymA<C>>,
}

/// A proof object made of fresh independent points and free scalars.  `identity_at` puts the
/// identity at one point position (0..11 = named points, 11+2j = L_j, 12+2j = R_j).
pub fn opaque_proof<C: Base>(rng: &mut rand_chacha::ChaChaRng, vals: &mut dyn Vals<SymF<C::ScalarField>>, rounds_l: usize, rounds_r: usize, identity_at: Option<usize>, tag: &str) -> OpaqueProof<C>
where
    C::ScalarField: Inner,
{
    let mut fresh = |name: String, pos: usize| -> SymA<C> {
        if identity_at == Some(pos) {
            return SymA::<C>::zero();
        }
        let p = SymA::concrete(C::Group::rand(rng).into_affine());
        p.name_basis(&name);
        p
    };
    let mut points = [SymA::<C>::zero(); 11];
    for k in 0..11 {
        points[k] = fresh(format!("{}{}", POINT_NAMES[k], tag), k);
    }
    let L: Vec<SymA<C>> = (0..rounds_l).map(|j| fresh(format!("L{}{}", j, tag), 11 + 2 * j)).collect();
    let R: Vec<SymA<C>> = (0..rounds_r).map(|j| fresh(format!("R{}{}", j, tag), 12 + 2 * j)).collect();
    let scalars = [vals.fresh("p_tx"), vals.fresh("p_txb"), vals.fresh("p_eb")];
    let a = vals.fresh("p_a");
    let b = vals.fresh("p_b");
    let ipp = InnerProductProof::verif_from_parts(L.clone(), R.clone(), a, b);
    let proof = R1CSProof::verif_from_parts(points, scalars, ipp);
    OpaqueProof { parts: ProofParts { points, scalars, L, R, a, b }, proof }
}

pub fn to_oracle_chals<F: Copy>(vc: &VerifierChals<F>) -> Chals<F> {
    Chals { y: vc.y, z: vc.z, u: vc.u, x: vc.x, w: vc.w, ipp: vc.ipp.clone(), r: vc.r }
}

pub fn job_c03<C: Base + 'static>(shape: &Shape, seed: u64, curve: &str, torsion: Option<Vec<C>>) -> Job
where
    C::ScalarField: Inner,
{
    arena::reset();
    arena::set_ctx("setup");
    let mut job = Job { property: "C03".into(), scenario: format!("C03:{}:{}", shape.name, curve), curve: curve.into(), seed, shape: shape_json(shape), ..Default::default() };
    let padded = shape.padded();
    let (n1, n2) = shape.gates();
    let n = n1 + n2;
    let m = shape.commits();
    let k = padded.trailing_zeros() as usize;
    job.params = serde_json::json!({"gates": [n1, n2], "padded": padded, "commitments": m, "rounds": k, "proof": "every point a fresh independent symbol, every scalar a free variable"});
    let pc = pc_for::<SymA<C>>(&shape.name, seed);
    let bp = BulletproofGens::<SymA<C>>::new(padded, 1);
    let bases = name_bases(&pc, &bp, padded);
    let _ = bases;
    let mut rng = rand_chacha::ChaChaRng::seed_from_u64(seed ^ 0xc03);
    let shr = new_shared::<SymA<C>>(shape, &Default::default(), Box::new(SymVals::<C::ScalarField>::new(seed)));
    {
        let mut sh = shr.borrow_mut();
        sh.is_prover = false;
        let commit_ops: Vec<&Op> = shape.phase1.iter().filter(|o| matches!(o, Op::Commit | Op::CommitZero | Op::CommitDup)).collect();
        for j in 0..m {
            // a repeated commitment (`CommitDup`) is the same point as the first one
            if matches!(commit_ops.get(j), Some(Op::CommitDup)) && j > 0 {
                let first = sh.verifier_commitments[0];
                sh.verifier_commitments.push(first);
                continue;
            }
            let p = SymA::concrete(C::Group::rand(&mut rng).into_affine());
            p.name_basis(&format!("V{}", j));
            sh.verifier_commitments.push(p);
        }
    }
    let mut pvals = SymVals::<C::ScalarField>::new(seed ^ 0x77);
    let op = opaque_proof::<C>(&mut rng, &mut pvals, k, k, None, "");
    arena::set_ctx("verify");
    let v_from = merlin::vlog::len();
    let mut vt = new_verifier_transcript(shape);
    let verifier = build_verifier(shape, &shr, &mut vt);
    let res = verifier.verify(&op.proof, &pc, &bp);
    arena::set_ctx("post");
    // the step from the identity in r to "accepts exactly when both relations hold" needs r to be drawn after every
    // element of the proof object has been absorbed: no absorption on the verifier's transcript may follow the squeeze of r
    if matches!(res, Ok(()) | Err(R1CSError::VerificationError)) {
        let log = merlin::vlog::since(0);
        let vobj = first_new_obj(&log, v_from);
        let r_pos = log.iter().enumerate().skip(v_from).filter(|(_, e)| e.op == "challenge" && e.label == b"r").map(|(i, _)| i).last();
        // the transcript state r depends on: a fork of the verifier's transcript (position of the fork) or the transcript itself
        let fork_pos = log.iter().enumerate().skip(v_from).filter(|(_, e)| e.op == "clone" && e.obj == vobj).map(|(i, _)| i).last();
        let state_pos = match (r_pos, fork_pos) {
            (Some(r), Some(f)) if f < r => Some(f),
            (Some(r), _) => Some(r),
            _ => None,
        };
        let last_append = log.iter().enumerate().skip(v_from).filter(|(_, e)| e.obj == vobj && e.op == "append").map(|(i, _)| i).last();
        if let Some(sp) = state_pos {
            job.check(
                "the batching challenge r is derived from a transcript state that has absorbed every element of the proof object (no absorption follows it)",
                last_append.map(|a| a < sp).unwrap_or(true),
                format!("state of r at log position {}, last absorption at {:?}", sp, last_append),
            );
        }
    }
    let sh = shr.borrow();
    job.check("builder ran without API errors", sh.errors.is_empty(), format!("{:?}", sh.errors));
    job.check(
        "the verifier ran every registered randomized closure exactly once, in registration order",
        closures_as_registered(shape, &sh.closure_runs),
        format!("verifier ran {:?}, {} registered", sh.closure_runs, shape.phase2.len()),
    );
    job.concrete = serde_json::json!({"verify": format!("{:?}", res)});
    let evs = events_in("verify");
    let vchals = split_verifier_chals(&chals_in::<C::ScalarField>("verify"));
    match (evs.iter().rev().find(|e| e.kind == "pzero"), vchals) {
        (Some(e), Ok(vc)) if matches!(res, Ok(()) | Err(R1CSError::VerificationError)) => {
            let ch = to_oracle_chals(&vc);
            let fl = oracle::flatten(&sh.cons, n, m, ch.z);
            let Gs = bp.share(0).verif_G(padded);
            let Hs = bp.share(0).verif_H(padded);
            let rt = oracle::rel_t(&pc.B, &pc.B_blinding, &sh.verifier_commitments, &op.parts, &fl, &ch, n);
            match oracle::rel_ipp(&pc.B, &pc.B_blinding, &Gs, &Hs, &op.parts, &fl, &ch, n1, n) {
                Ok(ri) => {
                    let want: SymP<C> = ri - rt * ch.r;
                    let items = lin_eq_items("mega_check", &e.lin, &want.lin());
                    job.groups.push(identity_group(
                        "verdict_equals_unbatched_relations",
                        "I",
                        "for every proof object and every challenge value the verifier's combined check equals Rel_ipp - r*Rel_t, where Rel_t is the committed-evaluation relation and Rel_ipp the inner-product opening relation with the generators folded explicitly round by round (coefficient-wise over B, Bblind, G_i, H_i, V_j and all proof points)",
                        items,
                    ));
                    use ark_ff::Zero;
                    job.check("oracle shadow verdict agrees with the verifier's shadow verdict", want.p.is_zero() == res.is_ok(), format!("oracle zero={} verifier={:?}", want.p.is_zero(), res));
                }
                Err(e) => job.inconclusive.push(format!("oracle: {}", e)),
            }
        }
        (_, Err(e)) => job.inconclusive.push(format!("challenge split: {}", e)),
        _ => job.inconclusive.push(format!("no combined-check event (verdict {:?})", res)),
    }
    // a proof object whose mandatory points are non-identity and whose round count matches is judged by the relations
    // alone: the verifier must get as far as the combined check (it may not reject it for any other reason)
    {
        let reached = arena::with(|a| a.chals.iter().any(|c| c.ctx == "verify" && c.label == "r"));
        job.check(
            "an arbitrary proof object with non-identity mandatory points and the right round count reaches the combined check",
            reached && matches!(res, Ok(()) | Err(R1CSError::VerificationError)),
            format!("verdict {:?}, batching challenge squeezed: {}", res, reached),
        );
    }
    drop(sh);
    // clause (a): identity at a mandatory position is rejected before use (enumerated, concrete)
    let mandatory: Vec<usize> = [0usize, 1, 2, 6, 7, 8, 9, 10].iter().copied().chain((0..2 * k).map(|j| 11 + j)).collect();
    for pos in mandatory {
        let shr2 = new_shared::<SymA<C>>(shape, &Default::default(), Box::new(SymVals::<C::ScalarField>::new(seed)));
        {
            let mut sh2 = shr2.borrow_mut();
            sh2.is_prover = false;
            sh2.verifier_commitments = shr.borrow().verifier_commitments.clone();
        }
        let mut pv = SymVals::<C::ScalarField>::new(seed ^ 0x78);
        let op2 = opaque_proof::<C>(&mut rng, &mut pv, k, k, Some(pos), "'");
        arena::set_ctx("verify_identity");
        let before = events_in("verify_identity").len();
        let mut vt = new_verifier_transcript(shape);
        let verifier = build_verifier(shape, &shr2, &mut vt);
        let res = verifier.verify(&op2.proof, &pc, &bp);
        let evs = events_in("verify_identity");
        let last_is_combined = evs.len() > before && evs.last().map(|e| e.lin.len() > 1).unwrap_or(false);
        let name = if pos < 11 { POINT_NAMES[pos].to_string() } else if (pos - 11) % 2 == 0 { format!("L{}", (pos - 11) / 2) } else { format!("R{}", (pos - 11) / 2) };
        job.check(&format!("identity at mandatory point {} is rejected before the combined check", name), matches!(res, Err(R1CSError::VerificationError)) && !last_is_combined, format!("{:?}", res));
    }
    // the identity in a slot that is NOT mandatory (the second-phase commitments) is no reason to reject: the verifier
    // gets as far as the combined check, whatever closures are registered
    for pos in [3usize, 4, 5] {
        let shr2 = new_shared::<SymA<C>>(shape, &Default::default(), Box::new(SymVals::<C::ScalarField>::new(seed)));
        {
            let mut sh2 = shr2.borrow_mut();
            sh2.is_prover = false;
            sh2.verifier_commitments = shr.borrow().verifier_commitments.clone();
        }
        let mut pv = SymVals::<C::ScalarField>::new(seed ^ 0x7a);
        let op2 = opaque_proof::<C>(&mut rng, &mut pv, k, k, Some(pos), "°");
        let ctx = format!("verify_optional_identity{}", pos);
        arena::set_ctx(&ctx);
        let mut vt = new_verifier_transcript(shape);
        let verifier = build_verifier(shape, &shr2, &mut vt);
        let res = verifier.verify(&op2.proof, &pc, &bp);
        let squeezed_r = arena::with(|a| a.chals.iter().any(|c| c.ctx == ctx && c.label == "r"));
        job.check(&format!("the identity at the optional point {} does not stop the verifier before the combined check", POINT_NAMES[pos]), squeezed_r && matches!(res, Ok(()) | Err(R1CSError::VerificationError)), format!("{:?}, reached the combined check: {}", res, squeezed_r));
    }
    // a round count that does not match the padded size is rejected before the combined check
    for kk in 0..=(k + 2) {
        if kk == k {
            continue;
        }
        let shr2 = new_shared::<SymA<C>>(shape, &Default::default(), Box::new(SymVals::<C::ScalarField>::new(seed)));
        {
            let mut sh2 = shr2.borrow_mut();
            sh2.is_prover = false;
            sh2.verifier_commitments = shr.borrow().verifier_commitments.clone();
        }
        let mut pv = SymVals::<C::ScalarField>::new(seed ^ 0x79);
        let op2 = opaque_proof::<C>(&mut rng, &mut pv, kk, kk, None, "''");
        let ctx = format!("verify_rounds{}", kk);
        arena::set_ctx(&ctx);
        let mut vt = new_verifier_transcript(shape);
        let verifier = build_verifier(shape, &shr2, &mut vt);
        let res = verifier.verify(&op2.proof, &pc, &bp);
        let squeezed_r = arena::with(|a| a.chals.iter().any(|c| c.ctx == ctx && c.label == "r"));
        job.check(&format!("a proof with {} inner-product rounds (padded size {}) is rejected before the combined check", kk, padded), matches!(res, Err(R1CSError::VerificationError)) && !squeezed_r, format!("{:?}, reached the combined check: {}", res, squeezed_r));
    }
    arena::set_ctx("post");
    arena::with(|a| {
        if !a.opaque.is_empty() {
            job.inconclusive.push(format!("opaque constants in the encoding: {:?}", &a.opaque[..a.opaque.len().min(3)]));
        }
    });
    job.path_conditions = describe_events(&events_in("verify"));
    job.stats = stats();
    // native differential run against the reference prover / unbatched verifier on this curve
    // (adversarial reference provers included; concrete, reported as structural checks)
    {
        for (name, ok) in crate::replay::diff_native::<C>(shape, seed, torsion.clone()) {
            job.check(&format!("reference differential: {}", name), ok, String::new());
        }
    }
    job.replay = serde_json::json!({"kind": "c03", "shape": shape_json(shape), "seed": seed});
    job
}
