//! Native replays: the same scenarios on a plain curve (no carriers), with values taken from a
//! solver model where available and random otherwise.  A replay REPRODUCES when the real code,
//! run natively, shows the wrong verdict / a wrong value.
#![allow(non_snake_case)]
use crate::job::PlainVals;
use crate::r1cs::Vals;
use crate::scen_c10::{fold_residual, IppCase};
use ark_bulletproofs::verif_hooks::InnerProductProof;
use ark_bulletproofs::{BulletproofGens, PedersenGens};
use ark_ec::{AffineRepr, CurveGroup, VariableBaseMSM};
use ark_ff::{One, PrimeField, UniformRand, Zero};
use merlin::Transcript;
use rand_core::SeedableRng;
use std::collections::HashMap;

pub type Checks = Vec<(String, bool)>;

fn pat_vec<F: PrimeField>(pat: &str, n: usize, vals: &mut dyn Vals<F>, kind: &str) -> Vec<F> {
    let p: Vec<char> = pat.chars().collect();
    (0..n)
        .map(|i| match p[i % p.len()] {
            '0' => F::zero(),
            '1' => F::one(),
            _ => vals.fresh(kind),
        })
        .collect()
}

pub fn c10_native<G: AffineRepr>(case: &IppCase, seed: u64, model: HashMap<String, String>) -> Checks {
    let mut out: Checks = vec![];
    let n = 1usize << case.k;
    let mut rng = rand_chacha::ChaChaRng::seed_from_u64(seed ^ 0xc10);
    let bp = BulletproofGens::<G>::new(n, 1);
    let Gs = bp.share(0).verif_G(n);
    let Hs = bp.share(0).verif_H(n);
    let Q: G = G::Group::rand(&mut rng).into_affine();
    let mut vals = PlainVals::<G::ScalarField>::new(model, seed);
    let gf: Vec<G::ScalarField> = if case.g_factors == "unit" { vec![G::ScalarField::one(); n] } else { (0..n).map(|_| vals.fresh("gf")).collect() };
    let hf: Vec<G::ScalarField> = if case.h_factors == "unit" { vec![G::ScalarField::one(); n] } else { (0..n).map(|_| vals.fresh("hf")).collect() };
    let a = pat_vec(&case.a_pat, n, &mut vals, "a");
    let b = pat_vec(&case.b_pat, n, &mut vals, "b");
    let c: G::ScalarField = a.iter().zip(b.iter()).map(|(x, y)| *x * *y).sum();
    let mut bases: Vec<G> = vec![];
    let mut scal: Vec<G::ScalarField> = vec![];
    for i in 0..n {
        bases.push(Gs[i]);
        scal.push(a[i] * gf[i]);
        bases.push(Hs[i]);
        scal.push(b[i] * hf[i]);
    }
    bases.push(Q);
    scal.push(c);
    let P: G = G::Group::msm(&bases, &scal).unwrap().into_affine();
    let mut pt = Transcript::new(b"ipp-verif");
    let proof = InnerProductProof::create(&mut pt, &Q, &gf, &hf, Gs.clone(), Hs.clone(), a.clone(), b.clone());
    let (L, R, pa, pb) = {
        let (l, r, x, y) = proof.verif_parts();
        (l.to_vec(), r.to_vec(), x, y)
    };
    out.push(("exactly k rounds".into(), L.len() == case.k && R.len() == case.k));
    let mut vt = Transcript::new(b"ipp-verif");
    let res = proof.verify(n, &mut vt, gf.iter(), hf.iter(), &P, &Q, &Gs, &Hs);
    // reference verdict by explicit folding with the same challenges
    let mut ot = Transcript::new(b"ipp-verif");
    let us: Vec<G::ScalarField> = {
        use ark_bulletproofs::verif_hooks::TranscriptProtocol;
        <Transcript as TranscriptProtocol<G>>::innerproduct_domain_sep(&mut ot, n as u64);
        let mut us = vec![];
        for j in 0..L.len().min(R.len()) {
            <Transcript as TranscriptProtocol<G>>::append_point(&mut ot, b"L", &L[j]);
            <Transcript as TranscriptProtocol<G>>::append_point(&mut ot, b"R", &R[j]);
            us.push(<Transcript as TranscriptProtocol<G>>::challenge_scalar(&mut ot, b"u"));
        }
        us
    };
    let degenerate = L.iter().chain(R.iter()).any(|p| p.is_zero());
    if L.len() == case.k && R.len() == case.k {
        let oracle_ok = fold_residual(&P, &Q, &Gs, &Hs, &gf, &hf, &L, &R, pa, pb, &us).is_zero() && !degenerate;
        out.push((format!("verify verdict {:?} equals explicit folding verdict {}", res.is_ok(), oracle_ok), res.is_ok() == oracle_ok));
    }
    match case.mode.as_str() {
        "degenerate" => out.push(("identity cross term rejected".into(), res.is_err())),
        _ if !degenerate => out.push(("honest proof accepted".into(), res.is_ok())),
        _ => {}
    }
    for bad in [0usize, n / 2, 2 * n, n + 1, if n > 2 { n - 1 } else { 3 }] {
        if bad == n {
            continue;
        }
        let mut vt = Transcript::new(b"ipp-verif");
        out.push((format!("claimed length {} with {} rounds rejected", bad, case.k), proof.verif_verification_scalars(bad, &mut vt).is_err()));
    }
    // negative cases on the honest proof (unchanged challenges): wrong P, wrong product, shifted a / b
    if !degenerate && case.mode != "degenerate" {
        let d = G::ScalarField::from(7u64);
        let wrongP: G = (P.into_group() + Q * d).into_affine();
        let mut vt = Transcript::new(b"ipp-verif");
        out.push(("wrong claimed product rejected".into(), proof.verify(n, &mut vt, gf.iter(), hf.iter(), &wrongP, &Q, &Gs, &Hs).is_err()));
        let pa2 = InnerProductProof::verif_from_parts(L.clone(), R.clone(), pa + d, pb);
        let mut vt = Transcript::new(b"ipp-verif");
        out.push(("shifted final scalar a rejected".into(), pa2.verify(n, &mut vt, gf.iter(), hf.iter(), &P, &Q, &Gs, &Hs).is_err()));
        let pb2 = InnerProductProof::verif_from_parts(L.clone(), R.clone(), pa, pb + d);
        let mut vt = Transcript::new(b"ipp-verif");
        out.push(("shifted final scalar b rejected".into(), pb2.verify(n, &mut vt, gf.iter(), hf.iter(), &P, &Q, &Gs, &Hs).is_err()));
    }
    out
}

pub fn c13_native<G: AffineRepr>(variant: &str, seed: u64, model: HashMap<String, String>) -> Checks {
    use ark_bulletproofs::r1cs::Prover;
    use core::str::FromStr;
    let mut out: Checks = vec![];
    let mut rng = rand_chacha::ChaChaRng::seed_from_u64(seed ^ 0xc13);
    let pc = if variant.starts_with("default_bases") {
        PedersenGens::<G>::default()
    } else {
        PedersenGens { B: G::Group::rand(&mut rng).into_affine(), B_blinding: G::Group::rand(&mut rng).into_affine() }
    };
    let mut vals = PlainVals::<G::ScalarField>::new(model, seed);
    let lit = |s: &str| -> G::ScalarField { G::ScalarField::from_str(s).ok().unwrap() };
    let sets: Vec<[G::ScalarField; 5]> = if variant.ends_with("literals") {
        crate::scen_c10::c13_literal_sets().iter().map(|s| [lit(s[0]), lit(s[1]), lit(s[2]), lit(s[3]), lit(s[4])]).collect()
    } else {
        vec![[vals.fresh("v"), vals.fresh("r"), vals.fresh("v"), vals.fresh("r"), vals.fresh("k")]]
    };
    for (i, [v1, r1, v2, r2, k]) in sets.into_iter().enumerate() {
        let refc = |v: G::ScalarField, r: G::ScalarField| -> G::Group { pc.B * v + pc.B_blinding * r };
        out.push((format!("set{}: commit(v1,r1) = v1*B + r1*Bblind", i), pc.commit(v1, r1).into_group() == refc(v1, r1)));
        out.push((format!("set{}: commit(v2,r2) = v2*B + r2*Bblind", i), pc.commit(v2, r2).into_group() == refc(v2, r2)));
        out.push((format!("set{}: homomorphism", i), pc.commit(v1, r1).into_group() + pc.commit(v2, r2).into_group() == pc.commit(v1 + v2, r1 + r2).into_group()));
        out.push((format!("set{}: scaling", i), pc.commit(v1, r1).into_group() * k == pc.commit(k * v1, k * r1).into_group()));
        let mut pt = Transcript::new(b"c13");
        let mut prover = Prover::new(&pc, &mut pt);
        let (V, _) = prover.commit(v1, r1);
        out.push((format!("set{}: Prover::commit = v*B + r*Bblind", i), V.into_group() == refc(v1, r1)));
    }
    out.push(("commit(0,0) is the identity".into(), pc.commit(G::ScalarField::zero(), G::ScalarField::zero()).is_zero()));
    out
}

pub fn c15_native<F: PrimeField>(batch: u64, ntrees: usize, seed: u64, model: HashMap<String, String>) -> Checks {
    use ark_bulletproofs::r1cs::Variable;
    let mut vals = PlainVals::<F>::new(model, seed ^ batch);
    let cases = crate::scen_c15::tree_cases::<F>(batch, ntrees, seed, &mut vals);
    let mut out = vec![];
    for (k, (tree, handles, assignment)) in cases.iter().enumerate() {
        let lc = crate::expr::build(tree, handles);
        let mut got = F::zero();
        for (var, coeff) in lc.verif_terms() {
            let x = match var {
                Variable::One() => F::one(),
                v => handles.iter().position(|h| h == v).map(|i| assignment[i]).unwrap_or(F::zero()),
            };
            got += *coeff * x;
        }
        out.push((format!("tree{} {}", k, crate::expr::show(tree)), got == crate::expr::eval(tree, assignment)));
    }
    out
}

pub fn report(checks: Checks) -> bool {
    let mut wrong = false;
    for (n, ok) in checks.iter() {
        if !*ok {
            println!("native run: WRONG: {}", n);
            wrong = true;
        }
    }
    println!("native run: {} checks, {} wrong", checks.len(), checks.iter().filter(|c| !c.1).count());
    wrong
}
