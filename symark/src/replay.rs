//! Native replays: the same scenarios on a plain curve (no carriers), with values taken from a
//! solver model where available and random otherwise.  A replay REPRODUCES when the real code,
//! run natively, shows the wrong verdict / a wrong value.
#![allow(non_snake_case)]
use crate::job::PlainVals;
use crate::r1cs::Vals;
use crate::scen_c10::{fold_residual, IppCase};
use ark_bulletproofs::verif_hooks::InnerProductProof;
use ark_bulletproofs::{BulletproofGens, PedersenGens};
use ark_ec::{AffineRepr, CurveGroup, VariableBaseMSM};
use ark_ff::{One, PrimeField, UniformRand, Zero};
use merlin::Transcript;
use rand_core::SeedableRng;
use std::collections::HashMap;

pub type Checks = Vec<(String, bool)>;

fn pat_vec<F: PrimeField>(pat: &str, n: usize, vals: &mut dyn Vals<F>, kind: &str) -> Vec<F> {
    let p: Vec<char> = pat.chars().collect();
    (0..n)
        .map(|i| match p[i % p.len()] {
            '0' => F::zero(),
            '1' => F::one(),
            _ => vals.fresh(kind),
        })
        .collect()
}

pub fn c10_native<G: AffineRepr>(case: &IppCase, seed: u64, model: HashMap<String, String>, torsion: Option<Vec<G>>) -> Checks {
    let mut out: Checks = vec![];
    let n = 1usize << case.k;
    let mut rng = rand_chacha::ChaChaRng::seed_from_u64(seed ^ 0xc10);
    let bp = BulletproofGens::<G>::new(n, 1);
    let Gs = bp.share(0).verif_G(n);
    let Hs = bp.share(0).verif_H(n);
    let Q: G = G::Group::rand(&mut rng).into_affine();
    let mut vals = PlainVals::<G::ScalarField>::new(model, seed);
    let gf: Vec<G::ScalarField> = crate::scen_c10::factor_vec(&case.g_factors, n, &mut vals, "gf");
    let hf: Vec<G::ScalarField> = crate::scen_c10::factor_vec(&case.h_factors, n, &mut vals, "hf");
    let a = pat_vec(&case.a_pat, n, &mut vals, "a");
    let b = pat_vec(&case.b_pat, n, &mut vals, "b");
    let c: G::ScalarField = a.iter().zip(b.iter()).map(|(x, y)| *x * *y).sum();
    let mut bases: Vec<G> = vec![];
    let mut scal: Vec<G::ScalarField> = vec![];
    for i in 0..n {
        bases.push(Gs[i]);
        scal.push(a[i] * gf[i]);
        bases.push(Hs[i]);
        scal.push(b[i] * hf[i]);
    }
    bases.push(Q);
    scal.push(c);
    let P: G = G::Group::msm(&bases, &scal).unwrap().into_affine();
    let mut pt = Transcript::new(b"ipp-verif");
    let proof = InnerProductProof::create(&mut pt, &Q, &gf, &hf, Gs.clone(), Hs.clone(), a.clone(), b.clone());
    let (L, R, pa, pb) = {
        let (l, r, x, y) = proof.verif_parts();
        (l.to_vec(), r.to_vec(), x, y)
    };
    out.push(("exactly k rounds".into(), L.len() == case.k && R.len() == case.k));
    let mut vt = Transcript::new(b"ipp-verif");
    let res = proof.verify(n, &mut vt, gf.iter(), hf.iter(), &P, &Q, &Gs, &Hs);
    {
        let (mut fa, mut fb) = ([0u8; 32], [0u8; 32]);
        let (mut p2, mut v2) = (pt.clone(), vt.clone());
        p2.challenge_bytes(b"follow-up", &mut fa);
        v2.challenge_bytes(b"follow-up", &mut fb);
        if res.is_ok() {
            out.push(("after create / verify the two transcripts give the same follow-up challenge".into(), fa == fb));
        }
    }
    // the same factors through iterators that do not know their length (and by value): the verdict may not change
    {
        let mut vt2 = Transcript::new(b"ipp-verif");
        let r2 = proof.verify(n, &mut vt2, gf.iter().filter(|_| true), hf.iter().copied().skip_while(|_| false), &P, &Q, &Gs, &Hs);
        let mut vt3 = Transcript::new(b"ipp-verif");
        let (mut gi, mut hi) = (gf.clone().into_iter(), hf.clone().into_iter());
        let r3 = proof.verify(n, &mut vt3, std::iter::from_fn(move || gi.next()), std::iter::from_fn(move || hi.next()), &P, &Q, &Gs, &Hs);
        out.push((format!("factors handed over through filter / skip_while / from_fn iterators give the same verdict ({:?}, {:?}, {:?})", res.is_ok(), r2.is_ok(), r3.is_ok()), res.is_ok() == r2.is_ok() && res.is_ok() == r3.is_ok()));
    }
    // two openings chained on one running transcript (this one, then a second one of length 2) verify in the same order
    if res.is_ok() {
        let (mut pt2, mut vt2) = (pt.clone(), vt.clone());
        let (g2, h2) = (vec![G::ScalarField::one(); 2], vec![G::ScalarField::one(); 2]);
        let a2 = vec![G::ScalarField::from(3u64), G::ScalarField::from(5u64)];
        let b2 = vec![G::ScalarField::from(7u64), G::ScalarField::from(11u64)];
        let bp2 = BulletproofGens::<G>::new(2, 1);
        let (G2, H2) = (bp2.share(0).verif_G(2), bp2.share(0).verif_H(2));
        let c2: G::ScalarField = a2[0] * b2[0] + a2[1] * b2[1];
        let P2: G = (G2[0] * a2[0] + G2[1] * a2[1] + H2[0] * b2[0] + H2[1] * b2[1] + Q * c2).into_affine();
        let second = InnerProductProof::create(&mut pt2, &Q, &g2, &h2, G2.clone(), H2.clone(), a2, b2);
        let ok2 = second.verify(2, &mut vt2, g2.iter(), h2.iter(), &P2, &Q, &G2, &H2).is_ok();
        out.push(("a second opening created and verified on the same running transcripts is accepted".into(), ok2));
    }
    // reference verdict by explicit folding with the same challenges
    let mut ot = Transcript::new(b"ipp-verif");
    let us: Vec<G::ScalarField> = {
        use ark_bulletproofs::verif_hooks::TranscriptProtocol;
        <Transcript as TranscriptProtocol<G>>::innerproduct_domain_sep(&mut ot, n as u64);
        let mut us = vec![];
        for j in 0..L.len().min(R.len()) {
            <Transcript as TranscriptProtocol<G>>::append_point(&mut ot, b"L", &L[j]);
            <Transcript as TranscriptProtocol<G>>::append_point(&mut ot, b"R", &R[j]);
            us.push(<Transcript as TranscriptProtocol<G>>::challenge_scalar(&mut ot, b"u"));
        }
        us
    };
    let degenerate = L.iter().chain(R.iter()).any(|p| p.is_zero());
    if L.len() == case.k && R.len() == case.k {
        let oracle_ok = fold_residual(&P, &Q, &Gs, &Hs, &gf, &hf, &L, &R, pa, pb, &us).is_zero() && !degenerate;
        out.push((format!("verify verdict {:?} equals explicit folding verdict {}", res.is_ok(), oracle_ok), res.is_ok() == oracle_ok));
    }
    match case.mode.as_str() {
        "degenerate" => out.push(("identity cross term rejected".into(), res.is_err())),
        _ if !degenerate => out.push(("honest proof accepted".into(), res.is_ok())),
        _ => {}
    }
    for bad in [0usize, n / 2, 2 * n, n + 1, if n > 2 { n - 1 } else { 3 }] {
        if bad == n {
            continue;
        }
        let mut vt = Transcript::new(b"ipp-verif");
        out.push((format!("claimed length {} with {} rounds rejected", bad, case.k), proof.verif_verification_scalars(bad, &mut vt).is_err()));
    }
    // one-sided surplus / missing entries in the round lists: an error, never a panic
    {
        let extra: G = G::Group::rand(&mut rng).into_affine();
        for (what, l2, r2) in [
            ("a surplus entry in L only", { let mut l = L.clone(); l.push(extra); l }, R.clone()),
            ("a surplus entry in R only", L.clone(), { let mut r = R.clone(); r.push(extra); r }),
            ("two surplus entries in R only", L.clone(), { let mut r = R.clone(); r.push(extra); r.push(extra); r }),
            ("the last entry of R missing", L.clone(), { let mut r = R.clone(); r.pop(); r }),
            ("the last entry of L missing", { let mut l = L.clone(); l.pop(); l }, R.clone()),
        ] {
            if l2.len() == r2.len() {
                continue;
            }
            let t = InnerProductProof::verif_from_parts(l2, r2, pa, pb);
            let res = std::panic::catch_unwind(std::panic::AssertUnwindSafe(|| {
                let mut vt = Transcript::new(b"ipp-verif");
                let a = t.verify(n, &mut vt, gf.iter(), hf.iter(), &P, &Q, &Gs, &Hs).is_err();
                let mut vt = Transcript::new(b"ipp-verif");
                a && t.verif_verification_scalars(n, &mut vt).is_err()
            }));
            out.push((format!("{}: rejected with an error value (no panic)", what), matches!(res, Ok(true))));
        }
    }
    // an altered scaling factor changes the verdict of the honest proof
    if !degenerate && case.mode != "degenerate" {
        let d = G::ScalarField::from(5u64);
        for pos in [0usize, n / 2, n - 1] {
            let mut g2 = gf.clone();
            g2[pos] += d;
            let mut h2 = hf.clone();
            h2[pos] += d;
            let a_nz = !a[pos].is_zero();
            let b_nz = !b[pos].is_zero();
            if a_nz {
                let mut vt = Transcript::new(b"ipp-verif");
                out.push((format!("G factor {} altered: rejected", pos), proof.verify(n, &mut vt, g2.iter(), hf.iter(), &P, &Q, &Gs, &Hs).is_err()));
            }
            if b_nz {
                let mut vt = Transcript::new(b"ipp-verif");
                out.push((format!("H factor {} altered: rejected", pos), proof.verify(n, &mut vt, gf.iter(), h2.iter(), &P, &Q, &Gs, &Hs).is_err()));
            }
        }
    }
    // a forged last round point that would balance a wrong product if the round challenge did not depend on R
    if !degenerate && case.mode != "degenerate" && case.k >= 1 && us.len() == case.k {
        let uk = us[case.k - 1];
        let mut r2 = R.clone();
        r2[case.k - 1] = (R[case.k - 1].into_group() - Q * (uk * uk)).into_affine();
        let forged = InnerProductProof::verif_from_parts(L.clone(), r2, pa, pb);
        let wrongP: G = (P.into_group() + Q.into_group()).into_affine();
        let mut vt = Transcript::new(b"ipp-verif");
        out.push(("a proof whose last R is shifted by -u_k^2 Q (old challenge) is rejected against P + Q".into(), forged.verify(n, &mut vt, gf.iter(), hf.iter(), &wrongP, &Q, &Gs, &Hs).is_err()));
    }
    // negative cases on the honest proof (unchanged challenges): wrong P, wrong product, shifted a / b
    if !degenerate && case.mode != "degenerate" {
        let d = G::ScalarField::from(7u64);
        let wrongP: G = (P.into_group() + Q * d).into_affine();
        let mut vt = Transcript::new(b"ipp-verif");
        out.push(("wrong claimed product rejected".into(), proof.verify(n, &mut vt, gf.iter(), hf.iter(), &wrongP, &Q, &Gs, &Hs).is_err()));
        let pa2 = InnerProductProof::verif_from_parts(L.clone(), R.clone(), pa + d, pb);
        let mut vt = Transcript::new(b"ipp-verif");
        out.push(("shifted final scalar a rejected".into(), pa2.verify(n, &mut vt, gf.iter(), hf.iter(), &P, &Q, &Gs, &Hs).is_err()));
        let pb2 = InnerProductProof::verif_from_parts(L.clone(), R.clone(), pa, pb + d);
        let mut vt = Transcript::new(b"ipp-verif");
        out.push(("shifted final scalar b rejected".into(), pb2.verify(n, &mut vt, gf.iter(), hf.iter(), &P, &Q, &Gs, &Hs).is_err()));
        // "any other P" on a cofactor curve: P shifted by a small-order point
        for (ti, t) in torsion.iter().flatten().enumerate() {
            let wrongP: G = (P.into_group() + t.into_group()).into_affine();
            let mut vt = Transcript::new(b"ipp-verif");
            out.push((format!("P shifted by small-order point #{} rejected", ti), proof.verify(n, &mut vt, gf.iter(), hf.iter(), &wrongP, &Q, &Gs, &Hs).is_err()));
        }
    }
    out
}

/// s * P by plain double-and-add on the group law only (no scalar-multiplication routine of the curve
/// configuration is involved); the identity base is handled explicitly.
pub fn ref_mul<G: AffineRepr>(P: &G, s: &G::ScalarField) -> G::Group {
    use ark_ff::{BigInteger, PrimeField};
    let mut acc = G::Group::zero();
    if P.is_zero() {
        return acc;
    }
    let base: G::Group = P.into_group();
    for bit in s.into_bigint().to_bits_be() {
        acc = acc + acc;
        if bit {
            acc = acc + base;
        }
    }
    acc
}

/// the Pedersen bases of a C13 variant
pub fn c13_bases<G: AffineRepr>(variant: &str, rng: &mut rand_chacha::ChaChaRng, torsion: &Option<Vec<G>>) -> Option<PedersenGens<G>> {
    let mut rnd = |rng: &mut rand_chacha::ChaChaRng| -> G { G::Group::rand(rng).into_affine() };
    Some(if variant.starts_with("default_bases") {
        PedersenGens::<G>::default()
    } else if variant.starts_with("identity_blinding_base") {
        PedersenGens { B: rnd(rng), B_blinding: G::zero() }
    } else if variant.starts_with("identity_value_base") {
        PedersenGens { B: G::zero(), B_blinding: rnd(rng) }
    } else if variant.starts_with("equal_bases") {
        let b = rnd(rng);
        PedersenGens { B: b, B_blinding: b }
    } else if variant.starts_with("opposite_bases") {
        // two different points with a common coordinate (on short Weierstrass curves -B shares x with B)
        let b = rnd(rng);
        PedersenGens { B: b, B_blinding: (-b.into_group()).into_affine() }
    } else if variant.starts_with("torsion_mirror_bases") {
        // cofactor curves: -(B + T2) with T2 of order 2 is the point (x_B, -y_B) on a twisted Edwards curve
        let t = torsion.as_ref()?;
        let t2 = t.iter().find(|p| !p.is_zero() && (p.into_group() + p.into_group()).is_zero())?;
        let b = rnd(rng);
        PedersenGens { B: b, B_blinding: (-(b.into_group() + t2.into_group())).into_affine() }
    } else if variant.starts_with("torsion_bases") {
        // legal on-curve bases with a small-order component (cofactor curves only)
        let t = torsion.as_ref()?;
        PedersenGens { B: (rnd(rng).into_group() + t[0].into_group()).into_affine(), B_blinding: (rnd(rng).into_group() + t[t.len() - 1].into_group()).into_affine() }
    } else {
        PedersenGens { B: rnd(rng), B_blinding: rnd(rng) }
    })
}

pub fn c13_native<G: AffineRepr>(variant: &str, seed: u64, model: HashMap<String, String>, torsion: Option<Vec<G>>) -> Checks {
    use ark_bulletproofs::r1cs::Prover;
    use core::str::FromStr;
    let mut out: Checks = vec![];
    let mut rng = rand_chacha::ChaChaRng::seed_from_u64(seed ^ 0xc13);
    let pc = match c13_bases::<G>(variant, &mut rng, &torsion) {
        Some(pc) => pc,
        None => return out,
    };
    let mut vals = PlainVals::<G::ScalarField>::new(model, seed);
    let lit = |s: &str| -> G::ScalarField {
        match s.strip_prefix('-') {
            Some(r) => -G::ScalarField::from_str(r).ok().unwrap(),
            None => G::ScalarField::from_str(s).ok().unwrap(),
        }
    };
    let sets: Vec<[G::ScalarField; 5]> = if variant.ends_with("literals") {
        crate::scen_c10::c13_literal_sets().iter().map(|s| [lit(s[0]), lit(s[1]), lit(s[2]), lit(s[3]), lit(s[4])]).collect()
    } else {
        vec![[vals.fresh("v"), vals.fresh("r"), vals.fresh("v"), vals.fresh("r"), vals.fresh("k")]]
    };
    for (i, [v1, r1, v2, r2, k]) in sets.into_iter().enumerate() {
        let refc = |v: G::ScalarField, r: G::ScalarField| -> G::Group { ref_mul(&pc.B, &v) + ref_mul(&pc.B_blinding, &r) };
        out.push((format!("set{}: commit(v1,r1) = v1*B + r1*Bblind", i), pc.commit(v1, r1).into_group() == refc(v1, r1)));
        out.push((format!("set{}: commit(v2,r2) = v2*B + r2*Bblind", i), pc.commit(v2, r2).into_group() == refc(v2, r2)));
        if !variant.starts_with("torsion") {
            out.push((format!("set{}: homomorphism", i), pc.commit(v1, r1).into_group() + pc.commit(v2, r2).into_group() == pc.commit(v1 + v2, r1 + r2).into_group()));
        }
        if !variant.starts_with("torsion") {
            out.push((format!("set{}: scaling", i), pc.commit(v1, r1).into_group() * k == pc.commit(k * v1, k * r1).into_group()));
        }
        let mut pt = Transcript::new(b"c13");
        let mut prover = Prover::new(&pc, &mut pt);
        let (V, _) = prover.commit(v1, r1);
        out.push((format!("set{}: Prover::commit = v*B + r*Bblind", i), V.into_group() == refc(v1, r1)));
        if i == 0 {
            // one prover object committing many pairwise different values, then earlier ones again
            let mut pt2 = Transcript::new(b"c13-many");
            let mut many = Prover::new(&pc, &mut pt2);
            let mut bad = vec![];
            let val = |j: u64| v1 + G::ScalarField::from(j * j + 1);
            for j in 0..150u64 {
                let (V, _) = many.commit(val(j), r1 + G::ScalarField::from(j));
                if V.into_group() != refc(val(j), r1 + G::ScalarField::from(j)) {
                    bad.push(j);
                }
            }
            for j in [0u64, 1, 2, 63, 64, 65, 100, 127, 128, 129] {
                let (V, _) = many.commit(val(j), r2);
                if V.into_group() != refc(val(j), r2) {
                    bad.push(1000 + j);
                }
            }
            out.push((format!("one prover: 150 different commitments and 10 repeated values all equal v*B + r*Bblind (failing: {:?})", &bad[..bad.len().min(5)]), bad.is_empty()));
        }
        let (V2, _) = prover.commit(v1 + G::ScalarField::from(3u64), r1);
        out.push((format!("set{}: second Prover::commit with the same blinding and another value", i), V2.into_group() == refc(v1 + G::ScalarField::from(3u64), r1)));
    }
    out.push(("commit(0,0) is the identity".into(), pc.commit(G::ScalarField::zero(), G::ScalarField::zero()).is_zero()));
    {
        let mut pt = Transcript::new(b"c13");
        let mut prover = Prover::new(&pc, &mut pt);
        let (Vz, _) = prover.commit(G::ScalarField::zero(), G::ScalarField::zero());
        out.push(("Prover::commit(0,0) is the identity".into(), Vz.is_zero()));
    }
    out
}

pub fn c15_native<F: PrimeField>(batch: u64, ntrees: usize, seed: u64, model: HashMap<String, String>) -> Checks {
    use ark_bulletproofs::r1cs::Variable;
    let mut vals = PlainVals::<F>::new(model, seed ^ batch);
    let cases = crate::scen_c15::tree_cases::<F>(batch, ntrees, seed, &mut vals);
    let mut out = vec![];
    for (k, (tree, handles, assignment)) in cases.iter().enumerate() {
        let lc = crate::expr::build(tree, handles);
        let mut got = F::zero();
        for (var, coeff) in lc.verif_terms() {
            let x = match var {
                Variable::One() => F::one(),
                v => handles.iter().position(|h| h == v).map(|i| assignment[i]).unwrap_or(F::zero()),
            };
            got += *coeff * x;
        }
        out.push((format!("tree{} {}", k, crate::expr::show(tree)), got == crate::expr::eval(tree, assignment)));
    }
    out
}

pub fn report(checks: Checks) -> bool {
    let mut wrong = false;
    for (n, ok) in checks.iter() {
        if !*ok {
            println!("native run: WRONG: {}", n);
            wrong = true;
        }
    }
    println!("native run: {} checks, {} wrong", checks.len(), checks.iter().filter(|c| !c.1).count());
    wrong
}

/// C07 on a cofactor curve: a member whose individual residual is a small-order point (proved over bases shifted by
/// a small-order point, verified over the unshifted ones).  Its single verdict is "reject"; a batch holding it may
/// accept only when the random weight happens to annihilate the small-order residual (probability 1/ord per weight
/// stream), so a batch that accepts under ALL of 16 independent weight streams (chance <= 8^-16 on a tree whose
/// batch check tests the weighted sum itself) contradicts "batch accepts iff every member verifies".
pub fn c07_torsion_native<G: AffineRepr + 'static>(seed: u64, torsion: &[G]) -> Checks {
    use crate::r1cs::*;
    use ark_bulletproofs::r1cs::*;
    let mut out: Checks = vec![];
    let shape = Shape::new("one_gate", &[Op::Commit, Op::AllocMul, Op::Con], &[]);
    let pc = crate::r1cs::pc_for::<G>("c07-torsion", seed);
    let bp = BulletproofGens::<G>::new(1, 1);
    for (ti, t) in torsion.iter().enumerate() {
        for which in 0..2 {
            let mut pct = pc;
            if which == 0 {
                pct.B_blinding = (pc.B_blinding.into_group() + t.into_group()).into_affine();
            } else {
                pct.B = (pc.B.into_group() + t.into_group()).into_affine();
            }
            let shr = new_shared::<G>(&shape, &Default::default(), Box::new(PlainVals::<G::ScalarField>::new(HashMap::new(), seed + ti as u64)));
            let (proof, _) = prove_shape(&shape, &shr, &pct, &bp, seed);
            let proof = match proof {
                Ok(p) => p,
                Err(_) => continue,
            };
            // the statement's commitments as the verifier would compute them over the unshifted bases
            rewind_for_verifier(&shr);
            let mut vt = new_verifier_transcript(&shape);
            let single = build_verifier(&shape, &shr, &mut vt).verify(&proof, &pc, &bp).is_ok();
            let mut accepted = 0;
            for ws in 0..16u64 {
                let f = fork_for_verifier(&shape, &shr);
                let mut vt = new_verifier_transcript(&shape);
                let v = build_verifier(&shape, &f, &mut vt);
                let mut wr = rand_chacha::ChaChaRng::seed_from_u64(seed.wrapping_mul(977) ^ ws);
                if batch_verify(&mut wr, vec![(v, &proof)], &pc, &bp).is_ok() {
                    accepted += 1;
                }
            }
            out.push((format!("member proved over {} + small-order point #{}: single verdict accept = {}, batch accepted under {} of 16 weight streams (all 16 only if the single verdict is accept)", if which == 0 { "Bblind" } else { "B" }, ti, single, accepted), single || accepted < 16));
        }
    }
    out
}

/// C07 natively: (a) the all-honest version of the batch must be accepted exactly when every member
/// is; (b) k copies of one honest proof with final scalar b shifted by d_i (from the model, or a
/// fixed library of correlated offsets) must be rejected unless every d_i is zero.
pub fn c07_native<G: AffineRepr + 'static>(case: &crate::scen_c07::BatchCase, seed: u64, model: HashMap<String, String>) -> Checks {
    use crate::r1cs::*;
    use ark_bulletproofs::r1cs::*;
    let mut out: Checks = vec![];
    let k = case.instances.len();
    let maxpad = case.instances.iter().map(|i| i.shape.padded()).max().unwrap_or(1);
    let pc = crate::r1cs::pc_for::<G>(&case.name, seed);
    let bp = BulletproofGens::<G>::new(maxpad, 1);
    // (a)
    let mut shrs = vec![];
    let mut proofs: Vec<R1CSProof<G>> = vec![];
    for (i, inst) in case.instances.iter().enumerate() {
        if inst.kind == "same_proof_other_constant" && i > 0 {
            let f = fork_for_verifier(&inst.shape, &shrs[i - 1]);
            {
                let mut fb = f.borrow_mut();
                fb.dev_draw = Some(("const".into(), 0));
                fb.dev_delta = Some(model.get("delta0").and_then(|s| crate::job::parse_rational::<G::ScalarField>(s)).filter(|d| !d.is_zero()).unwrap_or(G::ScalarField::from(seed + 11)));
            }
            let dup: R1CSProof<G> = proofs[i - 1].clone();
            proofs.push(dup);
            shrs.push(f);
            continue;
        }
        let shr = new_shared::<G>(&inst.shape, &Default::default(), Box::new(PlainVals::<G::ScalarField>::new(HashMap::new(), seed + i as u64)));
        let (p, _) = prove_shape(&inst.shape, &shr, &pc, &bp, seed + i as u64);
        match p {
            Ok(p) => proofs.push(crate::scen_c07::spoil(&p, &inst.kind)),
            Err(_) => {
                out.push((format!("instance {} proves", i), false));
                return out;
            }
        }
        rewind_for_verifier(&shr);
        shrs.push(shr);
    }
    let mut indiv = vec![];
    for (i, inst) in case.instances.iter().enumerate() {
        let mut vt = new_verifier_transcript(&inst.shape);
        let v = build_verifier(&inst.shape, &shrs[i], &mut vt);
        indiv.push(v.verify(&proofs[i], &pc, &bp).is_ok());
        rewind_for_verifier(&shrs[i]);
    }
    let kinds: Vec<String> = case.instances.iter().map(|i| i.kind.clone()).collect();
    let run_batch = |proofs: &Vec<R1CSProof<G>>, shapes: &Vec<Shape>, shrs: &Vec<std::rc::Rc<std::cell::RefCell<Shared<G>>>>| -> bool {
        let mut ts: Vec<Transcript> = shapes.iter().map(|s| new_verifier_transcript(s)).collect();
        let mut insts = vec![];
        for (i, vt) in ts.iter_mut().enumerate() {
            rewind_for_verifier(&shrs[i]);
            let pi = if kinds[i] == "same_proof_other_constant" && i > 0 { i - 1 } else { i };
            insts.push((build_verifier(&shapes[i], &shrs[i], vt), &proofs[pi]));
        }
        let mut rng = rand_chacha::ChaChaRng::seed_from_u64(seed ^ 0xa1fa);
        batch_verify(&mut rng, insts, &pc, &bp).is_ok()
    };
    let shapes: Vec<Shape> = case.instances.iter().map(|i| i.shape.clone()).collect();
    let b_ok = run_batch(&proofs, &shapes, &shrs);
    out.push((format!("batch (members honest unless marked otherwise in the case): batch verdict {} equals conjunction of individual verdicts {:?}", b_ok, indiv), b_ok == indiv.iter().all(|x| *x)));
    // the same list handed over through iterators that do not know their length (size_hint lower bound 0 / too small),
    // and in reverse order
    for mode in 0..3 {
        let mut ts: Vec<Transcript> = shapes.iter().map(|s| new_verifier_transcript(s)).collect();
        let mut insts = vec![];
        for (i, vt) in ts.iter_mut().enumerate() {
            rewind_for_verifier(&shrs[i]);
            let pi = if kinds[i] == "same_proof_other_constant" && i > 0 { i - 1 } else { i };
            insts.push((build_verifier(&shapes[i], &shrs[i], vt), &proofs[pi]));
        }
        let mut rng = rand_chacha::ChaChaRng::seed_from_u64(seed ^ 0xa1fa);
        let ok = match mode {
            0 => batch_verify(&mut rng, insts.into_iter().filter(|_| true), &pc, &bp).is_ok(),
            1 => {
                let mut it = insts.into_iter();
                batch_verify(&mut rng, std::iter::from_fn(move || it.next()), &pc, &bp).is_ok()
            }
            _ => batch_verify(&mut rng, insts.into_iter().rev(), &pc, &bp).is_ok(),
        };
        out.push((format!("the same batch through {}: verdict {} equals the conjunction of the individual verdicts", ["a filtered iterator (size_hint lower bound 0)", "iter::from_fn (no size information)", "a reversed iterator"][mode], ok), ok == indiv.iter().all(|x| *x)));
    }
    // members made by the reference prover with unaccounted / blinded points in the second-phase slots of a one-phase
    // circuit: whatever the verdict, a batch of that one proof agrees with it, and next to an honest member too
    if shapes[0].gates().1 == 0 && indiv.first().copied().unwrap_or(false) {
        use crate::refimpl::{ref_prove, Knob};
        let pad0 = shapes[0].padded().max(1);
        let (Gs, Hs) = (bp.share(0).verif_G(pad0), bp.share(0).verif_H(pad0));
        for knob in [Knob::GarbagePhase2, Knob::BlindedPhase2] {
            let shr = new_shared::<G>(&shapes[0], &Default::default(), Box::new(PlainVals::<G::ScalarField>::new(HashMap::new(), seed + 31)));
            if let Some(p) = ref_prove(&shapes[0], &shr, pc.B, pc.B_blinding, &Gs, &Hs, seed, knob.clone()) {
                rewind_for_verifier(&shr);
                let mut vt = new_verifier_transcript(&shapes[0]);
                let single = build_verifier(&shapes[0], &shr, &mut vt).verify(&p, &pc, &bp).is_ok();
                let f = fork_for_verifier(&shapes[0], &shr);
                let mut vt = new_verifier_transcript(&shapes[0]);
                let v = build_verifier(&shapes[0], &f, &mut vt);
                let mut rng = rand_chacha::ChaChaRng::seed_from_u64(seed ^ 0xa1fb);
                let alone = batch_verify(&mut rng, vec![(v, &p)], &pc, &bp).is_ok();
                let (f1, f2) = (fork_for_verifier(&shapes[0], &shrs[0]), fork_for_verifier(&shapes[0], &shr));
                let (mut t1, mut t2) = (new_verifier_transcript(&shapes[0]), new_verifier_transcript(&shapes[0]));
                let insts = vec![(build_verifier(&shapes[0], &f1, &mut t1), &proofs[0]), (build_verifier(&shapes[0], &f2, &mut t2), &p)];
                let mut rng = rand_chacha::ChaChaRng::seed_from_u64(seed ^ 0xa1fc);
                let pair = batch_verify(&mut rng, insts, &pc, &bp).is_ok();
                out.push((format!("reference prover ({:?}): single verdict {} = batch of that proof {} = batch next to an honest member {}", knob, single, alone, pair), single == alone && single == pair));
            }
        }
    }
    // (b) correlated offsets on copies of the first member's proof
    let mut offset_sets: Vec<Vec<G::ScalarField>> = vec![];
    let from_model: Vec<Option<G::ScalarField>> = (0..k).map(|i| model.get(&format!("d{}", i)).and_then(|s| crate::job::parse_rational::<G::ScalarField>(s))).collect();
    if from_model.iter().all(|x| x.is_some()) && k >= 2 {
        offset_sets.push(from_model.into_iter().map(|x| x.unwrap()).collect());
    }
    let f = |x: i64| -> G::ScalarField { if x < 0 { -G::ScalarField::from((-x) as u64) } else { G::ScalarField::from(x as u64) } };
    offset_sets.push(vec![f(5), f(-5)]);
    offset_sets.push(vec![f(3), f(-6), f(3)]);
    offset_sets.push(vec![f(1), f(-3), f(3), f(-1)]);
    for ds in offset_sets {
        if ds.iter().all(|d| d.is_zero()) {
            continue;
        }
        let kk = ds.len();
        let (pts, scs, ipp) = proofs[0].verif_parts();
        let (l, r, a, b) = ipp.verif_parts();
        let ps: Vec<R1CSProof<G>> = ds.iter().map(|d| R1CSProof::verif_from_parts(pts, scs, InnerProductProof::verif_from_parts(l.to_vec(), r.to_vec(), a, b + d))).collect();
        let shapes0: Vec<Shape> = (0..kk).map(|_| shapes[0].clone()).collect();
        // every copy gets its own replaying state of the same statement
        let shrs0: Vec<_> = (0..kk).map(|_| fork_for_verifier(&shapes[0], &shrs[0])).collect();
        let mut ts: Vec<Transcript> = shapes0.iter().map(|s| new_verifier_transcript(s)).collect();
        let mut insts = vec![];
        for (i, vt) in ts.iter_mut().enumerate() {
            insts.push((build_verifier(&shapes0[i], &shrs0[i], vt), &ps[i]));
        }
        let mut rng = rand_chacha::ChaChaRng::seed_from_u64(seed ^ 0xa1fa);
        let mut ok = batch_verify(&mut rng, insts, &pc, &bp).is_ok();
        // ... and under 24 further weight streams (a weight that degenerates only for some RNG outputs)
        for ws in 0..24u64 {
            let shrs1: Vec<_> = (0..kk).map(|_| fork_for_verifier(&shapes[0], &shrs[0])).collect();
            let mut ts: Vec<Transcript> = shapes0.iter().map(|s| new_verifier_transcript(s)).collect();
            let mut insts = vec![];
            for (i, vt) in ts.iter_mut().enumerate() {
                insts.push((build_verifier(&shapes0[i], &shrs1[i], vt), &ps[i]));
            }
            let mut rng = rand_chacha::ChaChaRng::seed_from_u64(seed.wrapping_mul(131) ^ 0xa200 ^ ws);
            ok |= batch_verify(&mut rng, insts, &pc, &bp).is_ok();
        }
        out.push((format!("batch of {} copies of one proof with correlated offsets on the final scalar is rejected (25 weight streams)", kk), !ok));
    }
    // (c) long batches: 9 and 17 copies of the first member; all honest is accepted, one altered copy at the
    // first, a middle or the last position is rejected
    if indiv.first().copied().unwrap_or(false) {
        let (pts, scs, ipp) = proofs[0].verif_parts();
        let (l, r, a, b) = ipp.verif_parts();
        let altered = R1CSProof::verif_from_parts(pts, scs, InnerProductProof::verif_from_parts(l.to_vec(), r.to_vec(), a, b + G::ScalarField::from(5u64)));
        // an altered member handed over through iterators without size information must still be found
        for (mode, what) in ["a filtered iterator", "iter::from_fn", "a chain of two iterators"].iter().enumerate() {
            for bad in [0usize, 1, 2] {
                let shrs0: Vec<_> = (0..3).map(|_| fork_for_verifier(&shapes[0], &shrs[0])).collect();
                let mut ts: Vec<Transcript> = (0..3).map(|_| new_verifier_transcript(&shapes[0])).collect();
                let mut insts = vec![];
                for (i, vt) in ts.iter_mut().enumerate() {
                    insts.push((build_verifier(&shapes[0], &shrs0[i], vt), if i == bad { &altered } else { &proofs[0] }));
                }
                let mut rng = rand_chacha::ChaChaRng::seed_from_u64(seed ^ 0xa1fd);
                let ok = match mode {
                    0 => batch_verify(&mut rng, insts.into_iter().filter(|_| true), &pc, &bp).is_ok(),
                    1 => {
                        let mut it = insts.into_iter();
                        batch_verify(&mut rng, std::iter::from_fn(move || it.next()), &pc, &bp).is_ok()
                    }
                    _ => {
                        let tail = insts.split_off(1);
                        batch_verify(&mut rng, insts.into_iter().chain(tail.into_iter().skip_while(|_| false)), &pc, &bp).is_ok()
                    }
                };
                out.push((format!("batch of 3 copies through {}, altered member at {}: rejected", what, bad), !ok));
            }
        }
        for kk in [9usize, 17] {
            for bad in [None, Some(0usize), Some(kk / 2), Some(kk - 1)] {
                let shrs0: Vec<_> = (0..kk).map(|_| fork_for_verifier(&shapes[0], &shrs[0])).collect();
                let mut ts: Vec<Transcript> = (0..kk).map(|_| new_verifier_transcript(&shapes[0])).collect();
                let mut insts = vec![];
                for (i, vt) in ts.iter_mut().enumerate() {
                    insts.push((build_verifier(&shapes[0], &shrs0[i], vt), if Some(i) == bad { &altered } else { &proofs[0] }));
                }
                let mut rng = rand_chacha::ChaChaRng::seed_from_u64(seed ^ 0xa1fa);
                let ok = batch_verify(&mut rng, insts, &pc, &bp).is_ok();
                out.push((format!("batch of {} copies, altered member at {:?}: accepted = {}", kk, bad, ok), ok == bad.is_none()));
            }
        }
    }
    out
}

pub fn c06_native<G: AffineRepr + 'static>(shape: &crate::r1cs::Shape, seed: u64) -> Checks {
    merlin::vlog::reset();
    let (arb, arb_v) = crate::scen_c06::arbitrary_proof::<G>(shape, seed);
    let (checks, _raw, _) = crate::scen_c06::observe::<G>(shape, Box::new(PlainVals::<G::ScalarField>::new(HashMap::new(), seed)), seed, &arb, &arb_v);
    checks.into_iter().map(|(n, ok, d)| (format!("{} {}", n, d), ok)).collect()
}

struct ReplayRng {
    bytes: Vec<u8>,
    pos: usize,
    overrun: bool,
}
impl rand_core::RngCore for ReplayRng {
    fn next_u32(&mut self) -> u32 {
        rand_core::impls::next_u32_via_fill(self)
    }
    fn next_u64(&mut self) -> u64 {
        rand_core::impls::next_u64_via_fill(self)
    }
    fn fill_bytes(&mut self, d: &mut [u8]) {
        for b in d.iter_mut() {
            if self.pos < self.bytes.len() {
                *b = self.bytes[self.pos];
                self.pos += 1;
            } else {
                self.overrun = true;
                *b = 0;
            }
        }
    }
    fn try_fill_bytes(&mut self, d: &mut [u8]) -> Result<(), rand_core::Error> {
        self.fill_bytes(d);
        Ok(())
    }
}

/// C09 natively: the prover runs on a plain curve with the logging Merlin; the nonce stream is
/// re-read from the RNG's logged output and every commitment is opened against the witness and
/// that stream (reference draw order of the protocol).
pub fn c09_native<G: AffineRepr + 'static>(shape: &crate::r1cs::Shape, seed: u64) -> Checks {
    use crate::r1cs::*;
    use ark_serialize::CanonicalSerialize;
    merlin::vlog::reset();
    let mut out: Checks = vec![];
    let pad = shape.padded();
    let pc = crate::r1cs::pc_for::<G>(&shape.name, seed);
    let bp = BulletproofGens::<G>::new(pad, 1);
    let shr = new_shared::<G>(shape, &Default::default(), Box::new(PlainVals::<G::ScalarField>::new(HashMap::new(), seed)));
    let p_from = merlin::vlog::len();
    let (proof, _pt) = prove_shape(shape, &shr, &pc, &bp, seed);
    let proof = match proof {
        Ok(p) => p,
        Err(_) => {
            out.push(("prove succeeds".into(), false));
            return out;
        }
    };
    let log = merlin::vlog::since(0);
    let pobj = crate::scen_r1cs::first_new_obj(&log, p_from);
    let sh = shr.borrow();
    let (n1, n2) = shape.gates();
    let n = n1 + n2;
    let m = shape.commits();
    let build: Vec<&merlin::vlog::Event> = log.iter().filter(|e| e.op == "build_rng" && e.obj == pobj).collect();
    out.push(("exactly one transcript RNG is built".into(), build.len() == 1));
    if build.len() != 1 {
        return out;
    }
    let rid = u64::from_le_bytes(build[0].data[..8].try_into().unwrap());
    {
        let main: Vec<&merlin::vlog::Event> = log.iter().filter(|e| e.obj == pobj).collect();
        let bpos = main.iter().position(|e| e.op == "build_rng");
        let mpos = main.iter().position(|e| e.op == "append" && e.label == b"m");
        let apos = main.iter().position(|e| e.op == "append" && e.label == b"A_I1");
        out.push(("the RNG is forked after the commitments and their count are absorbed and before the first message".into(), matches!((bpos, mpos, apos), (Some(b), Some(mm), Some(a)) if mm < b && b < a)));
    }
    let rops: Vec<&merlin::vlog::Event> = log.iter().filter(|e| e.obj == rid).collect();
    let rekeys: Vec<&&merlin::vlog::Event> = rops.iter().filter(|e| e.op == "rekey").collect();
    let mut keyed = rekeys.len() == m;
    for (j, e) in rekeys.iter().enumerate() {
        let mut bytes = vec![];
        if let Some(vb) = sh.v_blinding.get(j) {
            vb.serialize_uncompressed(&mut bytes).unwrap();
        }
        keyed &= e.data == bytes && e.label == b"v_blinding";
    }
    out.push((format!("RNG rekeyed once per commitment with its blinding factor ({} rekeys, {} commitments)", rekeys.len(), m), keyed));
    out.push(("RNG finalized with the caller's randomness".into(), rops.iter().filter(|e| e.op == "finalize" && e.data.len() == 32).count() == 1));
    {
        let ext = crate::r1cs::ext_log();
        let fin: Vec<&&merlin::vlog::Event> = rops.iter().filter(|e| e.op == "finalize").collect();
        out.push((format!("the finalisation bytes are the first 32 bytes handed out by the caller's RNG ({} drawn)", ext.len()), fin.len() == 1 && ext.len() >= 32 && fin[0].data == ext[..32].to_vec()));
    }
    let stream: Vec<u8> = rops.iter().filter(|e| e.op == "rng_fill").flat_map(|e| e.data.clone()).collect();
    let mut rr = ReplayRng { bytes: stream, pos: 0, overrun: false };
    let mut draw = |k: usize| -> Vec<G::ScalarField> { (0..k).map(|_| G::ScalarField::rand(&mut rr)).collect() };
    let b1 = draw(3);
    let sl1 = draw(n1);
    let sr1 = draw(n1);
    let b2 = if n2 > 0 { draw(3) } else { vec![G::ScalarField::zero(); 3] };
    let sl2 = draw(n2);
    let sr2 = draw(n2);
    let tb = draw(5);
    out.push(("the nonce stream is exactly as long as the protocol's draws".into(), !rr.overrun && rr.pos == rr.bytes.len()));
    let gens = bp.share(0);
    let (Gs, Hs) = (gens.verif_G(pad), gens.verif_H(pad));
    let (pts, _scs, _ipp) = proof.verif_parts();
    let open = |lo: usize, hi: usize, which: usize, sl: &[G::ScalarField], sr: &[G::ScalarField], bl: &[G::ScalarField]| -> [G::Group; 3] {
        let _ = which;
        let mut ai: G::Group = pc.B_blinding * bl[0];
        let mut ao: G::Group = pc.B_blinding * bl[1];
        let mut s: G::Group = pc.B_blinding * bl[2];
        for i in lo..hi {
            ai = ai + Gs[i] * sh.gates[i].0 + Hs[i] * sh.gates[i].1;
            ao = ao + Gs[i] * sh.gates[i].2;
            s = s + Gs[i] * sl[i - lo] + Hs[i] * sr[i - lo];
        }
        [ai, ao, s]
    };
    let e1 = open(0, n1, 0, &sl1, &sr1, &b1);
    for k in 0..3 {
        out.push((format!("{} opens to witness/masking part + its own fresh blinding draw", ["A_I1", "A_O1", "S1"][k]), pts[k].into_group() == e1[k]));
    }
    if n2 > 0 {
        let e2 = open(n1, n, 1, &sl2, &sr2, &b2);
        for k in 0..3 {
            out.push((format!("{} opens to witness/masking part + its own fresh blinding draw", ["A_I2", "A_O2", "S2"][k]), pts[3 + k].into_group() == e2[k]));
        }
    } else {
        out.push(("absent second phase: identity placeholders".into(), pts[3].is_zero() && pts[4].is_zero() && pts[5].is_zero()));
    }
    let mut all: Vec<G::ScalarField> = vec![];
    for v in [&b1, &sl1, &sr1, &sl2, &sr2, &tb] {
        all.extend(v.iter().copied());
    }
    if n2 > 0 {
        all.extend(b2.iter().copied());
    }
    let mut sorted = all.clone();
    sorted.sort();
    sorted.dedup();
    out.push(("all nonces are pairwise distinct".into(), sorted.len() == all.len()));
    out
}

/// Differential run against the pinned reference protocol (C03 replay, C18): both provers against
/// both verifiers, plus adversarial reference provers, plus the generator derivation.
pub fn diff_native<G: AffineRepr + 'static>(shape: &crate::r1cs::Shape, seed: u64, torsion: Option<Vec<G>>) -> Checks {
    use crate::r1cs::*;
    use crate::refimpl::*;
    let mut out: Checks = vec![];
    let pad = shape.padded();
    let (n1, n2) = shape.gates();
    let pc = crate::r1cs::pc_for::<G>(&shape.name, seed);
    let bp = BulletproofGens::<G>::new(pad, 1);
    let (Gs, Hs) = (bp.share(0).verif_G(pad), bp.share(0).verif_H(pad));
    let (B, Bb) = (pc.B, pc.B_blinding);
    let fresh = |s: u64| new_shared::<G>(shape, &Default::default(), Box::new(PlainVals::<G::ScalarField>::new(HashMap::new(), s)));
    // implementation's proof
    let shr = fresh(seed);
    let (proof, mut pt) = prove_shape(shape, &shr, &pc, &bp, seed);
    match proof {
        Ok(p) => {
            rewind_for_verifier(&shr);
            let mut vt = new_verifier_transcript(shape);
            let log_from = merlin::vlog::len();
            out.push(("implementation's proof accepted by the implementation".into(), build_verifier(shape, &shr, &mut vt).verify(&p, &pc, &bp).is_ok()));
            // a proof whose two blinding scalars are shifted in a way that cancels in the combined check for the batching
            // challenge of the honest run -- (t_x_blinding - d, e_blinding + r d): both unbatched relations fail, so the
            // implementation must reject it too (it does unless r does not depend on the scalars)
            {
                let log = merlin::vlog::since(log_from);
                let r_chal = log.iter().filter(|e| e.op == "challenge" && e.label == b"r").last().map(|e| {
                    let mut sd = [0u8; 32];
                    sd.copy_from_slice(&e.data);
                    G::ScalarField::rand(&mut rand_chacha::ChaChaRng::from_seed(sd))
                });
                if let Some(rc) = r_chal {
                    let (pts, scs, ipp) = p.verif_parts();
                    let dd = G::ScalarField::from(seed + 5);
                    let forged = ark_bulletproofs::r1cs::R1CSProof::verif_from_parts(pts, [scs[0], scs[1] - dd, scs[2] + rc * dd], ipp.clone());
                    rewind_for_verifier(&shr);
                    let rv = ref_verify(shape, &shr, B, Bb, &Gs, &Hs, &forged);
                    rewind_for_verifier(&shr);
                    let mut vt2 = new_verifier_transcript(shape);
                    let iv = build_verifier(shape, &shr, &mut vt2).verify(&forged, &pc, &bp).is_ok();
                    out.push((format!("blinding scalars shifted by (-d, +r d) with the honest run's batching challenge: reference verdict {} (expected false), implementation's verdict {}", rv, iv), !rv && iv == rv));
                }
            }
            rewind_for_verifier(&shr);
            crate::refimpl::REF_TAIL.with(|t| *t.borrow_mut() = None);
            out.push(("implementation's proof accepted by the reference verifier (unbatched relations, explicit folding, pinned transcript schedule)".into(), ref_verify(shape, &shr, B, Bb, &Gs, &Hs, &p)));
            // the transcripts handed back by the implementation's two roles and by the reference verifier drive the same follow-up challenge
            let (mut tp, mut tv) = ([0u8; 32], [0u8; 32]);
            pt.challenge_bytes(b"verif-tail", &mut tp);
            vt.challenge_bytes(b"verif-tail", &mut tv);
            let tr = crate::refimpl::REF_TAIL.with(|t| *t.borrow());
            out.push(("follow-up challenge: implementation's prover = implementation's verifier = reference verifier".into(), tp == tv && Some(tv) == tr));
        }
        Err(_) => out.push(("implementation proves".into(), false)),
    }
    let mut knobs = vec![Knob::Honest];
    if n2 == 0 {
        knobs.push(Knob::GarbagePhase2);
        knobs.push(Knob::BlindedPhase2);
    }
    if n1 + n2 <= 1 {
        knobs.push(Knob::SurplusRound);
    }
    if n1 == 0 {
        knobs.push(Knob::ZeroBlindPhase1);
    }
    for knob in knobs {
        let shr = fresh(seed + 17);
        match ref_prove(shape, &shr, B, Bb, &Gs, &Hs, seed, knob.clone()) {
            Some(p) => {
                rewind_for_verifier(&shr);
                let rv = ref_verify(shape, &shr, B, Bb, &Gs, &Hs, &p);
                rewind_for_verifier(&shr);
                let mut vt = new_verifier_transcript(shape);
                let iv = build_verifier(shape, &shr, &mut vt).verify(&p, &pc, &bp).is_ok();
                let expect = matches!(knob, Knob::Honest | Knob::BlindedPhase2);
                if knob == Knob::ZeroBlindPhase1 && !(p.verif_parts().0[0].is_zero()) {
                    continue;
                }
                out.push((format!("reference prover ({:?}): reference verifier says {} (expected {})", knob, rv, expect), rv == expect));
                out.push((format!("reference prover ({:?}): implementation's verdict {} equals the reference verdict {}", knob, iv, rv), iv == rv));
            }
            None => {
                if knob == Knob::Honest {
                    out.push(("reference prover ran".into(), false));
                }
            }
        }
    }
    // cofactor curves: an honest prover whose A_I1 carries a small-order component
    if let Some(ts) = &torsion {
        for (ti, t) in ts.iter().enumerate() {
            let shr = fresh(seed + 23 + ti as u64);
            if let Some(p) = ref_prove_shifted(shape, &shr, B, Bb, &Gs, &Hs, seed, Knob::Honest, Some(*t)) {
                rewind_for_verifier(&shr);
                let rv = ref_verify(shape, &shr, B, Bb, &Gs, &Hs, &p);
                rewind_for_verifier(&shr);
                let mut vt = new_verifier_transcript(shape);
                let iv = build_verifier(shape, &shr, &mut vt).verify(&p, &pc, &bp).is_ok();
                // (the defect x*T of the opening relation vanishes when the order of T divides x: both verdicts
                // are then "accept"; what must hold is that the two verdicts coincide)
                out.push((format!("prover with a small-order component (#{}) on A_I1: the implementation's verdict {} equals the unbatched relations' verdict {}", ti, iv, rv), iv == rv));
            }
        }
    }
    // generators of the reference revision
    let parties = 3usize;
    let cap = pad.max(2);
    let gens = BulletproofGens::<G>::new(cap, parties);
    let mut gens_ok = true;
    // the crate's default Pedersen pair (the scenario itself may run on an independent pair, see `pc_for`)
    let dpc = PedersenGens::<G>::default();
    for j in 0..parties {
        let (rg, rh, rb, rbb) = ref_generators::<G>(j as u32, cap);
        gens_ok &= gens.share(j).verif_G(cap) == rg && gens.share(j).verif_H(cap) == rh;
        gens_ok &= rb == dpc.B && rbb == dpc.B_blinding;
    }
    out.push(("generators and Pedersen bases equal the pinned derivation (labels 'G'/'H' || LE32(party), SHA3-512 -> ChaCha20 -> rand point) for parties 0..2".into(), gens_ok));
    out
}
