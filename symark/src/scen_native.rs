//! Concrete, native companions of the Kani harnesses for C08 / C11 / C12 on the real curves
//! (exhaustive over small grids; no symbolic input -- reported as such in the evidence).
#![allow(non_snake_case)]
use crate::job::PlainVals;
use crate::r1cs::*;
use ark_bulletproofs::r1cs::*;
use ark_bulletproofs::verif_hooks::InnerProductProof;
use ark_bulletproofs::{BulletproofGens, PedersenGens};
use ark_ec::{AffineRepr, CurveGroup};
use ark_ff::{PrimeField, UniformRand, Zero};
use ark_serialize::{CanonicalDeserialize, CanonicalSerialize};
use rand_core::SeedableRng;
use std::collections::HashMap;

pub type Checks = Vec<(String, bool)>;

fn catch<T>(f: impl FnOnce() -> T) -> Result<T, String> {
    std::panic::catch_unwind(std::panic::AssertUnwindSafe(f)).map_err(|e| e.downcast_ref::<String>().cloned().or(e.downcast_ref::<&str>().map(|s| s.to_string())).unwrap_or("panic".into()))
}

fn k_of(shape: &Shape) -> usize {
    shape.padded().trailing_zeros() as usize
}

fn circuit(g: usize) -> Shape {
    let mut p1 = vec![Op::Commit];
    for _ in 0..g {
        p1.push(Op::AllocMul);
    }
    p1.push(Op::Con);
    Shape::new(&format!("gates{}", g), &p1, &[])
}

fn honest<G: AffineRepr + 'static>(shape: &Shape, seed: u64, cap: usize) -> Option<(std::rc::Rc<std::cell::RefCell<Shared<G>>>, R1CSProof<G>, PedersenGens<G>, BulletproofGens<G>)> {
    honest_with::<G>(shape, seed, cap, pc_for::<G>(&shape.name, seed))
}

fn honest_with<G: AffineRepr + 'static>(shape: &Shape, seed: u64, cap: usize, pc: PedersenGens<G>) -> Option<(std::rc::Rc<std::cell::RefCell<Shared<G>>>, R1CSProof<G>, PedersenGens<G>, BulletproofGens<G>)> {
    let bp = BulletproofGens::<G>::new(cap, 1);
    let shr = new_shared::<G>(shape, &Default::default(), Box::new(PlainVals::<G::ScalarField>::new(HashMap::new(), seed)));
    let (p, _) = prove_shape(shape, &shr, &pc, &bp, seed);
    p.ok().map(|p| (shr, p, pc, bp))
}

/// C08: every (|L|,|R|) pair of a grid, identity points and zero scalars at every position, against
/// circuits of 0..=4 gates, through verify and batch_verify; arbitrary / truncated / inflated byte
/// strings through from_bytes.  Nothing may panic; decoding failures are FormatError.
pub fn c08_native<G: AffineRepr + 'static>(seed: u64, maxlen: usize) -> Checks {
    let mut out: Checks = vec![];
    let mut rng = rand_chacha::ChaChaRng::seed_from_u64(seed ^ 0xc08);
    let mut bad = 0usize;
    let mut total = 0usize;
    let mut first = String::new();
    let mut shapes: Vec<Shape> = (0..=4usize).map(circuit).collect();
    // gate counts that grow past a power of two in the randomized phase (the batch verifier sizes its
    // tables from the gate count, which is only final after the closures ran)
    shapes.push(Shape::new("two_plus_two_phase2", &[Op::Commit, Op::AllocMul, Op::AllocMul, Op::Con], &[&[Op::Chal, Op::AllocMul, Op::AllocMul, Op::Con]]));
    shapes.push(Shape::new("zero_plus_three_phase2", &[Op::Commit], &[&[Op::Chal, Op::AllocMul, Op::AllocMul, Op::AllocMul, Op::Con]]));
    for (g, shape) in shapes.into_iter().enumerate() {
        let pad = shape.padded();
        let (shr, proof, pc, bp) = match honest::<G>(&shape, seed, pad) {
            Some(x) => x,
            None => {
                out.push((format!("honest proof for {} gates", g), false));
                continue;
            }
        };
        let (pts, scs, ipp) = proof.verif_parts();
        let (_l, _r, a, b) = ipp.verif_parts();
        for nl in 0..=maxlen {
            for nr in 0..=maxlen {
                for variant in 0..4 {
                    // 0: random points; 1: identity in L; 2: identity in R / in a named point; 3: zero scalars
                    let mut l: Vec<G> = (0..nl).map(|_| G::Group::rand(&mut rng).into_affine()).collect();
                    let mut r: Vec<G> = (0..nr).map(|_| G::Group::rand(&mut rng).into_affine()).collect();
                    let (mut p2, mut s2, mut a2, mut b2) = (pts, scs, a, b);
                    match variant {
                        1 => {
                            if let Some(x) = l.first_mut() {
                                *x = G::zero();
                            }
                        }
                        2 => {
                            if let Some(x) = r.last_mut() {
                                *x = G::zero();
                            }
                            p2[(nl + nr) % 11] = G::zero();
                        }
                        3 => {
                            s2 = [G::ScalarField::zero(); 3];
                            a2 = G::ScalarField::zero();
                            b2 = G::ScalarField::zero();
                        }
                        _ => {}
                    }
                    let hostile = R1CSProof::verif_from_parts(p2, s2, InnerProductProof::verif_from_parts(l, r, a2, b2));
                    total += 2;
                    rewind_for_verifier(&shr);
                    let r1 = catch(|| {
                        let mut vt = new_verifier_transcript(&shape);
                        build_verifier(&shape, &shr, &mut vt).verify(&hostile, &pc, &bp).is_ok()
                    });
                    rewind_for_verifier(&shr);
                    let r2 = catch(|| {
                        let mut vt = new_verifier_transcript(&shape);
                        let v = build_verifier(&shape, &shr, &mut vt);
                        let mut wr = rand_chacha::ChaChaRng::seed_from_u64(seed);
                        batch_verify(&mut wr, vec![(v, &hostile)], &pc, &bp).is_ok()
                    });
                    for (which, r) in [("verify", &r1), ("batch_verify", &r2)] {
                        if let Err(e) = r {
                            bad += 1;
                            if first.is_empty() {
                                first = format!("{} panicked for {} gates, |L|={}, |R|={}, variant {}: {}", which, g, nl, nr, variant, e);
                            }
                        }
                    }
                    // through the decoders as well (from_bytes and the derived trait decoder); whatever decodes is verified
                    if let Ok(bytes) = hostile.to_bytes() {
                        total += 1;
                        let r4 = catch(|| {
                            if let Ok(p) = R1CSProof::<G>::deserialize_compressed(&bytes[..]) {
                                rewind_for_verifier(&shr);
                                let mut vt = new_verifier_transcript(&shape);
                                let _ = build_verifier(&shape, &shr, &mut vt).verify(&p, &pc, &bp);
                                rewind_for_verifier(&shr);
                                let mut vt = new_verifier_transcript(&shape);
                                let v = build_verifier(&shape, &shr, &mut vt);
                                let mut wr = rand_chacha::ChaChaRng::seed_from_u64(seed);
                                let _ = batch_verify(&mut wr, vec![(v, &p)], &pc, &bp);
                            }
                        });
                        if let Err(e) = r4 {
                            bad += 1;
                            if first.is_empty() {
                                first = format!("a hostile proof decoded through the trait decoder panicked in verification (|L|={}, |R|={}): {}", nl, nr, e);
                            }
                        }
                        let r3 = catch(|| R1CSProof::<G>::from_bytes(&bytes).is_ok());
                        if r3.is_err() {
                            bad += 1;
                            if first.is_empty() {
                                first = format!("from_bytes panicked on a re-encoded hostile proof (|L|={}, |R|={})", nl, nr);
                            }
                        }
                    }
                }
            }
        }
        // the right number of rounds, one named point slot replaced by the identity / by another point: the
        // slots the verifier never tests against the identity (second-phase commitments) included
        for slot in 0..11usize {
            for ident in [true, false] {
                let mut p2 = pts;
                p2[slot] = if ident { G::zero() } else { G::Group::rand(&mut rng).into_affine() };
                let hostile = R1CSProof::verif_from_parts(p2, scs, ipp.clone());
                total += 2;
                rewind_for_verifier(&shr);
                let r1 = catch(|| {
                    let mut vt = new_verifier_transcript(&shape);
                    build_verifier(&shape, &shr, &mut vt).verify(&hostile, &pc, &bp).is_ok()
                });
                rewind_for_verifier(&shr);
                let r2 = catch(|| {
                    let mut vt = new_verifier_transcript(&shape);
                    let v = build_verifier(&shape, &shr, &mut vt);
                    let mut wr = rand_chacha::ChaChaRng::seed_from_u64(seed);
                    batch_verify(&mut wr, vec![(v, &hostile)], &pc, &bp).is_ok()
                });
                for (which, r) in [("verify", &r1), ("batch_verify", &r2)] {
                    if let Err(e) = r {
                        bad += 1;
                        if first.is_empty() {
                            first = format!("{} panicked for {} gates with point slot {} replaced by {}: {}", which, g, slot, if ident { "the identity" } else { "another point" }, e);
                        }
                    }
                }
            }
        }
        // generator sets of every capacity around the padded size: an error or a verdict, never a panic
        for cap in 0..=(2 * pad + 1) {
            let small = BulletproofGens::<G>::new(cap, 1);
            total += 2;
            rewind_for_verifier(&shr);
            let r1 = catch(|| {
                let mut vt = new_verifier_transcript(&shape);
                build_verifier(&shape, &shr, &mut vt).verify(&proof, &pc, &small).is_ok()
            });
            rewind_for_verifier(&shr);
            let r2 = catch(|| {
                let mut vt = new_verifier_transcript(&shape);
                let v = build_verifier(&shape, &shr, &mut vt);
                let mut wr = rand_chacha::ChaChaRng::seed_from_u64(seed);
                batch_verify(&mut wr, vec![(v, &proof)], &pc, &small).is_ok()
            });
            for (which, r) in [("verify", &r1), ("batch_verify", &r2)] {
                match r {
                    Err(e) => {
                        bad += 1;
                        if first.is_empty() {
                            first = format!("{} panicked for {} gates with generator capacity {}: {}", which, g, cap, e);
                        }
                    }
                    Ok(ok) => {
                        if *ok != (cap >= pad) {
                            bad += 1;
                            if first.is_empty() {
                                first = format!("{} with generator capacity {} for padded size {}: accepted = {}", which, cap, pad, ok);
                            }
                        }
                    }
                }
            }
        }
        // list lengths around the guard of the shift `1 << |L|`
        if g <= 1 {
            for big in [31usize, 32, 33, 63, 64, 65] {
                for (bl, br) in [(big, big), (big, 0), (0, big)] {
                    let l: Vec<G> = (0..bl).map(|_| pts[0]).collect();
                    let r: Vec<G> = (0..br).map(|_| pts[1]).collect();
                    let hostile = R1CSProof::verif_from_parts(pts, scs, InnerProductProof::verif_from_parts(l, r, a, b));
                    total += 2;
                    rewind_for_verifier(&shr);
                    let r1 = catch(|| {
                        let mut vt = new_verifier_transcript(&shape);
                        build_verifier(&shape, &shr, &mut vt).verify(&hostile, &pc, &bp).is_ok()
                    });
                    rewind_for_verifier(&shr);
                    let r2 = catch(|| {
                        let mut vt = new_verifier_transcript(&shape);
                        let v = build_verifier(&shape, &shr, &mut vt);
                        let mut wr = rand_chacha::ChaChaRng::seed_from_u64(seed);
                        batch_verify(&mut wr, vec![(v, &hostile)], &pc, &bp).is_ok()
                    });
                    for (which, r) in [("verify", &r1), ("batch_verify", &r2)] {
                        match r {
                            Err(e) => {
                                bad += 1;
                                if first.is_empty() {
                                    first = format!("{} panicked for {} gates, |L|={}, |R|={}: {}", which, g, bl, br, e);
                                }
                            }
                            Ok(true) => {
                                bad += 1;
                                if first.is_empty() {
                                    first = format!("{} ACCEPTED a proof with |L|={}, |R|={} for {} gates", which, bl, br, g);
                                }
                            }
                            _ => {}
                        }
                    }
                }
            }
        }
        // byte strings: every strict prefix, inflated length prefixes, random bytes
        let bytes = proof.to_bytes().unwrap();
        let psz = pts[0].serialized_size(ark_serialize::Compress::Yes);
        let ssz = scs[0].serialized_size(ark_serialize::Compress::Yes);
        let off_l = 11 * psz + 3 * ssz;
        let mut cases: Vec<Vec<u8>> = (0..bytes.len()).map(|c| bytes[..c].to_vec()).collect();
        let mut prefixes: Vec<u64> = vec![u64::MAX, u64::MAX - 1, 1u64 << 63, 1u64 << 40, 1u64 << 20, (bytes.len() as u64) + 1];
        for top in 0..=255u64 {
            prefixes.push((top << 56) | 0x0123_4567_89ab_cd);
        }
        // counts whose product with the point size wraps around 2^64 to a small offset
        for d in 0..6u64 {
            let q = (u128::pow(2, 64) / psz as u128) as u64;
            prefixes.push(q.wrapping_add(d));
            prefixes.push(q.wrapping_sub(d));
            prefixes.push(((u128::pow(2, 64) * (d as u128 + 1) + 7) / psz as u128) as u64);
        }
        // (the encodings with inflated counts are decoded in the child process with a limited address space, see
        // `c08_child`: a decoder that allocates from the claimed count aborts the process, which no in-process guard catches)
        let _ = (&prefixes, off_l);
        for _ in 0..32 {
            use rand_core::RngCore;
            let mut b2 = vec![0u8; bytes.len()];
            rng.fill_bytes(&mut b2);
            cases.push(b2);
        }
        for c in cases {
            total += 1;
            let r = catch(|| R1CSProof::<G>::from_bytes(&c));
            match r {
                Ok(Ok(_)) | Ok(Err(R1CSError::FormatError)) => {}
                Ok(Err(e)) => {
                    bad += 1;
                    if first.is_empty() {
                        first = format!("from_bytes returned {:?} instead of FormatError for {} bytes", e, c.len());
                    }
                }
                Err(e) => {
                    bad += 1;
                    if first.is_empty() {
                        first = format!("from_bytes panicked on {} bytes: {}", c.len(), e);
                    }
                }
            }
        }
    }
    out.push((format!("{} hostile proofs / byte strings: none panics, decoding failures are FormatError {}", total, first), bad == 0));
    // honest batches whose members have different sizes, in every order (ascending, descending, largest in the middle)
    {
        let sizes = [1usize, 2, 5, 3, 9, 4];
        let common = pc_for::<G>("mixed-size-batch", seed);
        let members: Vec<_> = sizes.iter().filter_map(|g| { let sh = circuit(*g); honest_with::<G>(&sh, seed, 16, common).map(|x| (sh, x)) }).collect();
        let orders: Vec<Vec<usize>> = vec![vec![0, 1, 2], vec![2, 1, 0], vec![4, 0], vec![4, 2, 5, 0], vec![0, 4, 1], vec![3, 4, 5, 2, 1, 0]];
        let mut failed = vec![];
        if members.len() == sizes.len() {
            let pc = members[0].1 .2;
            let bp = BulletproofGens::<G>::new(16, 1);
            for ord in orders {
                let r = catch(|| {
                    let mut ts: Vec<merlin::Transcript> = ord.iter().map(|i| new_verifier_transcript(&members[*i].0)).collect();
                    let forks: Vec<_> = ord.iter().map(|i| fork_for_verifier(&members[*i].0, &members[*i].1 .0)).collect();
                    let mut insts = vec![];
                    for (k, vt) in ts.iter_mut().enumerate() {
                        insts.push((build_verifier(&members[ord[k]].0, &forks[k], vt), &members[ord[k]].1 .1));
                    }
                    let mut wr = rand_chacha::ChaChaRng::seed_from_u64(seed);
                    batch_verify(&mut wr, insts, &pc, &bp).is_ok()
                });
                if !matches!(r, Ok(true)) {
                    failed.push(format!("{:?} -> {:?}", ord.iter().map(|i| sizes[*i]).collect::<Vec<_>>(), r));
                }
            }
        } else {
            failed.push("honest members".into());
        }
        out.push((format!("honest batches of mixed sizes in ascending / descending / mixed order are accepted without panic {:?}", failed), failed.is_empty()));
    }
    // the empty batch
    {
        let pc = PedersenGens::<G>::default();
        let bp = BulletproofGens::<G>::new(1, 1);
        let r = catch(|| {
            let mut wr = rand_chacha::ChaChaRng::seed_from_u64(seed);
            let none: Vec<(Verifier<G, &mut merlin::Transcript>, &R1CSProof<G>)> = vec![];
            batch_verify(&mut wr, none, &pc, &bp).is_ok()
        });
        out.push((format!("batch verification of an empty list returns (no panic): {:?}", r), r.is_ok()));
    }
    out
}

/// C08, memory clause (run in a child process whose address space is limited by the parent): proofs whose
/// two round lists are long (k entries each, k up to 31) are decoded and verified against small circuits;
/// every call must return -- an allocation proportional to 2^k instead of to the input aborts the child.
pub fn c08_child<G: AffineRepr + 'static>(seed: u64) -> bool {
    let mut rng = rand_chacha::ChaChaRng::seed_from_u64(seed ^ 0xc08c);
    let mut all = true;
    for g in [0usize, 1, 2] {
        let shape = circuit(g);
        let pad = shape.padded();
        let (shr, proof, pc, bp) = match honest::<G>(&shape, seed, pad) {
            Some(x) => x,
            None => return false,
        };
        let (pts, scs, ipp) = proof.verif_parts();
        // encodings whose list counts are inflated (huge, wrapping around 2^64 when multiplied by the point size, every top byte)
        {
            let bytes = proof.to_bytes().unwrap();
            let psz = pts[0].serialized_size(ark_serialize::Compress::Yes);
            let ssz = scs[0].serialized_size(ark_serialize::Compress::Yes);
            let off_l = 11 * psz + 3 * ssz;
            let mut counts: Vec<u64> = vec![u64::MAX, u64::MAX - 1, 1u64 << 63, 1u64 << 62, 1u64 << 57, 1u64 << 40, 1u64 << 32, (1u64 << 32) - 1, 1u64 << 28, 1u64 << 24, 1u64 << 20, (bytes.len() as u64) + 1];
            for top in 0..=255u64 {
                counts.push((top << 56) | 0x0123_4567_89ab_cd);
            }
            for d in 0..6u64 {
                let q = (u128::pow(2, 64) / psz as u128) as u64;
                counts.push(q.wrapping_add(d));
                counts.push(q.wrapping_sub(d));
                counts.push(((u128::pow(2, 64) * (d as u128 + 1) + 7) / psz as u128) as u64);
            }
            let mut bad = 0usize;
            let mut n = 0usize;
            for huge in counts {
                for off in [off_l, off_l + 8 + k_of(&shape) * psz] {
                    if off + 8 <= bytes.len() {
                        let mut b2 = bytes.clone();
                        b2[off..off + 8].copy_from_slice(&huge.to_le_bytes());
                        n += 1;
                        match R1CSProof::<G>::from_bytes(&b2) {
                            Ok(_) | Err(R1CSError::FormatError) => {}
                            Err(_) => bad += 1,
                        }
                    }
                }
            }
            println!("c08-child gates={} inflated-count encodings={} wrong-error-kind={}", g, n, bad);
            all &= bad == 0;
        }
        let (_l, _r, a, b) = ipp.verif_parts();
        let fill: G = G::Group::rand(&mut rng).into_affine();
        for k in [5usize, 12, 20, 24, 27, 28, 29, 30, 31] {
            let hostile = R1CSProof::verif_from_parts(pts, scs, InnerProductProof::verif_from_parts(vec![fill; k], vec![fill; k], a, b));
            rewind_for_verifier(&shr);
            let mut vt = new_verifier_transcript(&shape);
            let ok1 = build_verifier(&shape, &shr, &mut vt).verify(&hostile, &pc, &bp).is_ok();
            rewind_for_verifier(&shr);
            let mut vt = new_verifier_transcript(&shape);
            let v = build_verifier(&shape, &shr, &mut vt);
            let mut wr = rand_chacha::ChaChaRng::seed_from_u64(seed);
            let ok2 = batch_verify(&mut wr, vec![(v, &hostile)], &pc, &bp).is_ok();
            let bytes = hostile.to_bytes().unwrap();
            let dec = R1CSProof::<G>::from_bytes(&bytes).is_ok();
            println!("c08-child gates={} k={} verify_ok={} batch_ok={} decodes={}", g, k, ok1, ok2, dec);
            all &= !ok1 && !ok2 && dec;
        }
    }
    all
}

/// C11: size law, round trip, every strict prefix rejected; one non-canonical scalar, one x without a
/// curve point and (cofactor curves) small-order components at every point position are rejected.
pub fn c11_native<G: AffineRepr + 'static>(seed: u64, small_order: Option<Vec<G>>) -> Checks {
    let mut out: Checks = vec![];
    // proof objects with k = 0..31 rounds (whatever circuit they would belong to) round-trip through the encoding
    if let Some((_shr, proof, _pc, _bp)) = honest::<G>(&circuit(1), seed, 1) {
        let (pts, scs, ipp) = proof.verif_parts();
        let (_l, _r, a, b) = ipp.verif_parts();
        let psz = pts[0].serialized_size(ark_serialize::Compress::Yes);
        let ssz = scs[0].serialized_size(ark_serialize::Compress::Yes);
        let mut rr = rand_chacha::ChaChaRng::seed_from_u64(seed ^ 0xc11);
        let mut bad = vec![];
        for k in 0..=31usize {
            let l: Vec<G> = (0..k).map(|_| G::Group::rand(&mut rr).into_affine()).collect();
            let r: Vec<G> = (0..k).map(|_| G::Group::rand(&mut rr).into_affine()).collect();
            let obj = R1CSProof::verif_from_parts(pts, scs, InnerProductProof::verif_from_parts(l, r, a, b));
            let bytes = obj.to_bytes().unwrap();
            let ok = bytes.len() == 11 * psz + 5 * ssz + 16 + 2 * k * psz && matches!(R1CSProof::<G>::from_bytes(&bytes), Ok(p2) if p2.to_bytes().unwrap() == bytes);
            if !ok {
                bad.push(k);
            }
        }
        out.push((format!("proof objects with k = 0..31 rounds: size law and decode(encode) = identity (failing k: {:?})", bad), bad.is_empty()));
    }
    let shapes = vec![circuit(0), circuit(1), circuit(2), circuit(3), circuit(4), circuit(5), Shape::new("two_phase_2_2", &[Op::Commit, Op::AllocMul, Op::AllocMul, Op::Con], &[&[Op::Chal, Op::AllocMul, Op::AllocMul, Op::Con]]), Shape::new("two_phase_1_1", &[Op::Commit, Op::AllocMul], &[&[Op::Chal, Op::AllocMul, Op::Con]])];
    for shape in shapes.iter() {
        let pad = shape.padded();
        let (shr, proof, pc, bp) = match honest::<G>(shape, seed, pad) {
            Some(x) => x,
            None => {
                out.push((format!("honest proof for {}", shape.name), false));
                continue;
            }
        };
        let bytes = proof.to_bytes().unwrap();
        let (pts, scs, _) = proof.verif_parts();
        let psz = pts[0].serialized_size(ark_serialize::Compress::Yes);
        let ssz = scs[0].serialized_size(ark_serialize::Compress::Yes);
        let k = pad.trailing_zeros() as usize;
        let (n1, n2) = shape.gates();
        let want = 11 * psz + 5 * ssz + 16 + 2 * k * psz;
        out.push((format!("{}: encoded length {} = 11 points + 5 scalars + 16 + 2k points with k = log2(padded {}) = {} ({} gates)", shape.name, bytes.len(), pad, k, n1 + n2), bytes.len() == want));
        out.push((format!("{}: encoding is deterministic", shape.name), proof.to_bytes().unwrap() == bytes));
        match R1CSProof::<G>::from_bytes(&bytes) {
            Ok(p2) => {
                out.push((format!("{}: decode(encode) re-encodes to the same bytes", shape.name), p2.to_bytes().unwrap() == bytes));
                rewind_for_verifier(&shr);
                let mut vt = new_verifier_transcript(shape);
                out.push((format!("{}: decoded proof gets the same verdict", shape.name), build_verifier(shape, &shr, &mut vt).verify(&p2, &pc, &bp).is_ok()));
            }
            Err(_) => out.push((format!("{}: own encoding decodes", shape.name), false)),
        }
        // the derived (trait) encoders / decoders are a second door to the same format
        {
            let mut tb = vec![];
            proof.serialize_compressed(&mut tb).unwrap();
            let via_trait = R1CSProof::<G>::deserialize_compressed(&bytes[..]).ok().and_then(|p| p.to_bytes().ok());
            let mut ub = vec![];
            proof.serialize_uncompressed(&mut ub).unwrap();
            let unc = R1CSProof::<G>::deserialize_uncompressed(&ub[..]).ok().and_then(|p| p.to_bytes().ok());
            out.push((format!("{}: serialize_compressed = to_bytes, deserialize_compressed and the uncompressed round trip give the same proof", shape.name), tb == bytes && via_trait.as_ref() == Some(&bytes) && unc.as_ref() == Some(&bytes) && proof.serialized_size(ark_serialize::Compress::Yes) == bytes.len()));
            let bad_trait_prefix = (0..bytes.len()).filter(|c| R1CSProof::<G>::deserialize_compressed(&bytes[..*c]).is_ok()).count();
            out.push((format!("{}: every strict prefix is rejected by the trait decoder too", shape.name), bad_trait_prefix == 0));
        }
        let bad_prefix = (0..bytes.len()).filter(|c| !matches!(R1CSProof::<G>::from_bytes(&bytes[..*c]), Err(R1CSError::FormatError))).count();
        out.push((format!("{}: every strict prefix ({}) is rejected with FormatError", shape.name, bytes.len()), bad_prefix == 0));
        // a scalar not below the modulus, at each of the 5 scalar positions
        let modulus: num_bigint::BigUint = G::ScalarField::MODULUS.into();
        let mut mb = modulus.to_bytes_le();
        mb.resize(ssz, 0);
        let scalar_offsets = [11 * psz, 11 * psz + ssz, 11 * psz + 2 * ssz, bytes.len() - 2 * ssz, bytes.len() - ssz];
        let mut accepted = 0;
        for off in scalar_offsets {
            let mut b2 = bytes.clone();
            b2[off..off + ssz].copy_from_slice(&mb);
            if R1CSProof::<G>::from_bytes(&b2).is_ok() {
                accepted += 1;
            }
        }
        out.push((format!("{}: the modulus itself as a scalar encoding is rejected at all 5 scalar positions", shape.name), accepted == 0));
        // non-canonical encodings that only set spare high bits of the last byte
        let spare = 8 * ssz as u32 - G::ScalarField::MODULUS_BIT_SIZE;
        if spare > 0 {
            let mut acc = 0;
            for off in scalar_offsets {
                for bit in 0..spare {
                    let mut b2 = bytes.clone();
                    b2[off + ssz - 1] |= 0x80u8 >> bit;
                    if !matches!(R1CSProof::<G>::from_bytes(&b2), Err(R1CSError::FormatError)) {
                        acc += 1;
                    }
                }
            }
            out.push((format!("{}: a scalar encoding with a spare high bit set ({} spare bits) is rejected with FormatError at all 5 scalar positions", shape.name, spare), acc == 0));
        }
        // point positions
        let mut point_offsets: Vec<usize> = (0..11).map(|i| i * psz).collect();
        let off_l = 11 * psz + 3 * ssz + 8;
        for j in 0..k {
            point_offsets.push(off_l + j * psz);
            point_offsets.push(off_l + k * psz + 8 + j * psz);
        }
        // an x-coordinate / y-coordinate without a curve point: search a few candidates
        let mut invalid: Option<Vec<u8>> = None;
        let mut rng = rand_chacha::ChaChaRng::seed_from_u64(seed ^ 0xc11);
        for _ in 0..64 {
            use rand_core::RngCore;
            let mut cand = vec![0u8; psz];
            rng.fill_bytes(&mut cand);
            if G::deserialize_compressed(&cand[..]).is_err() {
                invalid = Some(cand);
                break;
            }
        }
        if let Some(inv) = invalid {
            let acc = point_offsets.iter().filter(|off| {
                let mut b2 = bytes.clone();
                b2[**off..**off + psz].copy_from_slice(&inv);
                !matches!(R1CSProof::<G>::from_bytes(&b2), Err(R1CSError::FormatError))
            }).count();
            out.push((format!("{}: an encoding that is not a valid curve point is rejected with FormatError at all {} point positions", shape.name, point_offsets.len()), acc == 0));
        }
        if let Some(torsion) = &small_order {
            let mut acc = 0;
            let mut tried = 0;
            for off in point_offsets.iter() {
                for t in torsion.iter() {
                    if let Ok(p) = G::deserialize_compressed_unchecked(&bytes[*off..*off + psz]) {
                        let q: G = (p.into_group() + t.into_group()).into_affine();
                        let mut enc = vec![];
                        q.serialize_compressed(&mut enc).unwrap();
                        let mut b2 = bytes.clone();
                        b2[*off..*off + psz].copy_from_slice(&enc);
                        tried += 1;
                        if !matches!(R1CSProof::<G>::from_bytes(&b2), Err(R1CSError::FormatError)) {
                            acc += 1;
                        }
                    }
                }
            }
            out.push((format!("{}: a point with a small-order component (outside the prime-order subgroup) is rejected with FormatError at every point position ({} encodings tried)", shape.name, tried), acc == 0 && tried > 0));
            // small-order components on two positions that cancel in the sum of all points
            let mut acc2 = 0;
            let mut tried2 = 0;
            let shift = |bytes: &Vec<u8>, off: usize, t: G::Group| -> Option<Vec<u8>> {
                let p = G::deserialize_compressed_unchecked(&bytes[off..off + psz]).ok()?;
                let q: G = (p.into_group() + t).into_affine();
                let mut enc = vec![];
                q.serialize_compressed(&mut enc).ok()?;
                let mut b2 = bytes.clone();
                b2[off..off + psz].copy_from_slice(&enc);
                Some(b2)
            };
            for t in torsion.iter() {
                for w in point_offsets.windows(2) {
                    if let Some(b1) = shift(&bytes, w[0], t.into_group()) {
                        if let Some(b2) = shift(&b1, w[1], -t.into_group()) {
                            tried2 += 1;
                            if R1CSProof::<G>::from_bytes(&b2).is_ok() {
                                acc2 += 1;
                            }
                        }
                    }
                }
            }
            out.push((format!("{}: small-order components on two neighbouring point positions that cancel in the sum are rejected ({} encodings tried)", shape.name, tried2), acc2 == 0 && tried2 > 0));
            // encodings whose two lists have different counts, with a point outside the subgroup in the surplus slot of the
            // longer list (and in a common slot): rejected at decoding, whatever the verifier would say later
            {
                let (pts, scs, ipp) = proof.verif_parts();
                let (l, r, a, b) = ipp.verif_parts();
                let mut acc3 = 0;
                let mut tried3 = 0;
                for t in torsion.iter() {
                    let bad: G = (pts[0].into_group() + t.into_group()).into_affine();
                    for (dl, dr) in [(1usize, 0usize), (0, 1), (2, 0), (0, 2)] {
                        let (mut l2, mut r2) = (l.to_vec(), r.to_vec());
                        for _ in 0..dl {
                            l2.push(bad);
                        }
                        for _ in 0..dr {
                            r2.push(bad);
                        }
                        let obj = R1CSProof::verif_from_parts(pts, scs, InnerProductProof::verif_from_parts(l2, r2, a, b));
                        if let Ok(enc) = obj.to_bytes() {
                            tried3 += 1;
                            if !matches!(R1CSProof::<G>::from_bytes(&enc), Err(R1CSError::FormatError)) {
                                acc3 += 1;
                            }
                        }
                    }
                }
                out.push((format!("{}: a point outside the subgroup in the surplus slot of the longer of two unequal round lists is rejected with FormatError ({} encodings tried)", shape.name, tried3), acc3 == 0 && tried3 > 0));
            }
        }
    }
    out
}

/// C12: generators are a fixed function of (curve, party, index): every capacity history (any order)
/// equals the direct construction, also after a serialisation round trip; aggregated views are
/// party-major; G/H/parties/bases pairwise distinct, non-identity, equal to the pinned derivation
/// (also beyond party 255).
pub fn c12_native<G: AffineRepr + 'static>(maxcap: usize) -> Checks {
    let mut out: Checks = vec![];
    let parties = 2usize;
    let mut bad = vec![];
    let mut count = 0;
    for c1 in 0..=maxcap {
        for c2 in 0..=maxcap {
            for c3 in 0..=maxcap {
                count += 1;
                let mut g = BulletproofGens::<G>::new(c1, parties);
                g.increase_capacity(c2);
                g.increase_capacity(c3);
                let m = c1.max(c2).max(c3);
                let direct = BulletproofGens::<G>::new(m, parties);
                let mut ok = g.gens_capacity == m;
                for j in 0..parties {
                    ok &= g.share(j).verif_G(m) == direct.share(j).verif_G(m) && g.share(j).verif_H(m) == direct.share(j).verif_H(m);
                    ok &= g.share(j).verif_G(m).len() == m;
                }
                // serialisation round trip
                let mut bytes = vec![];
                g.serialize_compressed(&mut bytes).unwrap();
                if let Ok(mut g2) = BulletproofGens::<G>::deserialize_compressed(&bytes[..]) {
                    for j in 0..parties {
                        ok &= g2.share(j).verif_G(m) == direct.share(j).verif_G(m) && g2.share(j).verif_H(m) == direct.share(j).verif_H(m);
                    }
                    // a decoded object grows like a fresh one
                    g2.increase_capacity(m + 2);
                    let bigger = BulletproofGens::<G>::new(m + 2, parties);
                    for j in 0..parties {
                        ok &= g2.share(j).verif_G(m + 2) == bigger.share(j).verif_G(m + 2) && g2.share(j).verif_H(m + 2) == bigger.share(j).verif_H(m + 2);
                    }
                } else {
                    ok = false;
                }
                if !ok {
                    bad.push((c1, c2, c3));
                }
            }
        }
    }
    out.push((format!("all {} capacity histories new(c1); increase(c2); increase(c3) with c in 0..={} (any order) equal new(max) element-wise, also after a serialisation round trip {:?}", count, maxcap, &bad[..bad.len().min(3)]), bad.is_empty()));
    // clone and clone_from into objects with a history of their own
    {
        let mut bad = vec![];
        for (sc, sp) in [(4usize, 3usize), (3, 2), (1, 1), (0, 2), (maxcap, 3)] {
            let source = BulletproofGens::<G>::new(sc, sp);
            let same = |x: &BulletproofGens<G>| -> bool {
                x.gens_capacity == sc && x.party_capacity == sp && (0..sp).all(|j| x.share(j).verif_G(sc) == source.share(j).verif_G(sc) && x.share(j).verif_H(sc) == source.share(j).verif_H(sc))
            };
            if !catch(|| same(&source.clone())).unwrap_or(false) {
                bad.push(format!("clone of new({},{})", sc, sp));
            }
            for (tc, tp) in [(0usize, 1usize), (2, 1), (4, 1), (1, 2), (5, 4), (sc, sp)] {
                let r = catch(|| {
                    let mut target = BulletproofGens::<G>::new(tc, tp);
                    target.clone_from(&source);
                    let ok1 = same(&target);
                    // and the object behaves like a fresh one afterwards
                    target.increase_capacity(sc + 2);
                    let fresh = BulletproofGens::<G>::new(sc + 2, sp);
                    ok1 && (0..sp).all(|j| target.share(j).verif_G(sc + 2) == fresh.share(j).verif_G(sc + 2) && target.share(j).verif_H(sc + 2) == fresh.share(j).verif_H(sc + 2))
                });
                if !r.unwrap_or(false) {
                    bad.push(format!("new({},{}).clone_from(new({},{}))", tc, tp, sc, sp));
                }
            }
        }
        out.push((format!("clone() and clone_from() into objects of other capacities / party counts give the source's generators (and a later increase_capacity those of a fresh object) {:?}", &bad[..bad.len().min(3)]), bad.is_empty()));
    }
    // views
    let gens = BulletproofGens::<G>::new(maxcap, 3);
    let mut views_ok = true;
    for n in 0..=maxcap {
        for m in 0..=3usize {
            let want_g: Vec<G> = (0..m).flat_map(|j| gens.share(j).verif_G(n)).collect();
            let want_h: Vec<G> = (0..m).flat_map(|j| gens.share(j).verif_H(n)).collect();
            let got_g = catch(|| gens.G(n, m).cloned().collect::<Vec<G>>());
            let got_h = catch(|| gens.H(n, m).cloned().collect::<Vec<G>>());
            views_ok &= got_g == Ok(want_g) && got_h == Ok(want_h);
        }
    }
    out.push((format!("aggregated views G(n,m), H(n,m) for n in 0..={}, m in 0..=3 list the first n generators of the first m parties in party-major order", maxcap), views_ok));
    // the same views through positional iterator adaptors (nth / skip / step_by / last / count), also on a
    // partially consumed iterator
    let mut adaptors_ok = true;
    let mut first_bad = String::new();
    for n in 0..=maxcap {
        for m in 0..=3usize {
            let want: Vec<G> = (0..m).flat_map(|j| gens.share(j).verif_G(n)).collect();
            for pre in 0..=want.len().min(3) {
                for k in 0..=want.len() {
                    let r = catch(|| {
                        let mut it = gens.G(n, m);
                        for _ in 0..pre {
                            it.next();
                        }
                        let a = it.nth(k).cloned();
                        let rest: Vec<G> = it.cloned().collect();
                        (a, rest)
                    });
                    let exp_a = want.get(pre + k).cloned();
                    let exp_rest: Vec<G> = want.iter().skip(pre + k + 1).cloned().collect();
                    if r != Ok((exp_a, exp_rest)) {
                        adaptors_ok = false;
                        if first_bad.is_empty() {
                            first_bad = format!("G({},{}): {} x next() then nth({})", n, m, pre, k);
                        }
                    }
                }
            }
            // internal-iteration consumers (fold / for_each / count / last / max_by_key / position / all) on a view that was
            // first advanced from outside, and through map / cloned / chain / peekable / zip / take
            for pre in 0..=want.len().min(n + 1) {
                let tail: Vec<G> = want.iter().skip(pre).cloned().collect();
                let adv = |it: &mut dyn Iterator<Item = &G>| {
                    for _ in 0..pre {
                        it.next();
                    }
                };
                let r = catch(|| {
                    let mut v1 = vec![];
                    let mut it = gens.G(n, m);
                    adv(&mut it);
                    it.for_each(|p| v1.push(*p));
                    let mut it = gens.G(n, m);
                    adv(&mut it);
                    let v2 = it.fold(vec![], |mut acc: Vec<G>, p| { acc.push(*p); acc });
                    let mut it = gens.G(n, m);
                    adv(&mut it);
                    let c = it.count();
                    let mut it = gens.G(n, m);
                    adv(&mut it);
                    let l = it.last().cloned();
                    let mut it = gens.G(n, m);
                    adv(&mut it);
                    let v3: Vec<G> = it.map(|p| *p).chain(std::iter::empty()).collect();
                    let mut it = gens.G(n, m).peekable();
                    for _ in 0..pre {
                        it.next();
                    }
                    let pk = it.peek().map(|p| **p);
                    let v4 = it.fold(vec![], |mut acc: Vec<G>, p| { acc.push(*p); acc });
                    let mut it = gens.G(n, m);
                    adv(&mut it);
                    let pos = it.position(|_| false);
                    let v5: Vec<G> = gens.G(n, m).skip(pre).cloned().collect();
                    let c5 = gens.G(n, m).skip(pre).count();
                    let v6: Vec<G> = gens.G(n, m).zip(gens.H(n, m)).skip(pre).map(|(g, _)| *g).collect();
                    (v1, v2, c, l, v3, pk, v4, pos, v5, c5, v6)
                });
                let good = match &r {
                    Ok((v1, v2, c, l, v3, pk, v4, pos, v5, c5, v6)) => *v1 == tail && *v2 == tail && *c == tail.len() && *l == tail.last().cloned() && *v3 == tail && *pk == tail.first().cloned() && *v4 == tail && pos.is_none() && *v5 == tail && *c5 == tail.len() && *v6 == tail,
                    Err(_) => false,
                };
                if !good {
                    adaptors_ok = false;
                    if first_bad.is_empty() {
                        first_bad = format!("G({},{}): {} x next() then for_each / fold / count / last / map / peekable / position / skip / zip", n, m, pre);
                    }
                }
            }
            let sk = catch(|| gens.H(n, m).skip(2).step_by(2).cloned().collect::<Vec<G>>());
            let want_h: Vec<G> = (0..m).flat_map(|j| gens.share(j).verif_H(n)).collect();
            let exp: Vec<G> = want_h.iter().skip(2).step_by(2).cloned().collect();
            if sk != Ok(exp) || catch(|| gens.H(n, m).count()) != Ok(want_h.len()) || catch(|| gens.H(n, m).last().cloned()) != Ok(want_h.last().cloned()) {
                adaptors_ok = false;
                if first_bad.is_empty() {
                    first_bad = format!("H({},{}): skip/step_by/count/last", n, m);
                }
            }
        }
    }
    out.push((format!("the aggregated views behave the same through nth / skip / step_by / count / last, also when partially consumed {}", first_bad), adaptors_ok));
    // distinctness, non-identity, pinned derivation (parties 0..2 and 255..257)
    let pc = PedersenGens::<G>::default();
    let big = BulletproofGens::<G>::new(4, 258);
    let mut all: Vec<G> = vec![pc.B, pc.B_blinding];
    let mut derivation_ok = true;
    for j in [0usize, 1, 2, 255, 256, 257] {
        let (rg, rh, rb, rbb) = crate::refimpl::ref_generators::<G>(j as u32, 4);
        derivation_ok &= big.share(j).verif_G(4) == rg && big.share(j).verif_H(4) == rh && rb == pc.B && rbb == pc.B_blinding;
        all.extend(big.share(j).verif_G(4));
        all.extend(big.share(j).verif_H(4));
    }
    out.push(("generators of parties 0,1,2,255,256,257 and the Pedersen bases equal the pinned derivation".into(), derivation_ok));
    let mut enc: Vec<Vec<u8>> = all.iter().map(|p| { let mut b = vec![]; p.serialize_compressed(&mut b).unwrap(); b }).collect();
    let total = enc.len();
    enc.sort();
    enc.dedup();
    out.push((format!("{} generators (G, H of six parties, both Pedersen bases) are pairwise distinct and none is the identity", total), enc.len() == total && all.iter().all(|p| !p.is_zero())));
    // prime-order subgroup membership
    let order_ok = all.iter().all(|p| p.mul_bigint(G::ScalarField::MODULUS).is_zero());
    out.push(("every generator has order dividing the scalar-field modulus (prime-order subgroup)".into(), order_ok));
    out
}
