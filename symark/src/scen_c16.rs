//! C16 (Engine S part): prover and verifier driven by the same call sequence return identical
//! handles and gate counts, call by call, in both phases -- exhaustively over all call sequences
//! up to a length bound (concrete enumeration on any group; the nondeterministic-sequence
//! version is the Kani harness).
#![allow(non_snake_case)]
use crate::r1cs::*;
use ark_bulletproofs::r1cs::*;
use ark_bulletproofs::{BulletproofGens, PedersenGens};
use ark_ec::AffineRepr;
use merlin::Transcript;
use rand_core::SeedableRng;

const ALPHA1: [Op; 6] = [Op::Commit, Op::CommitDup, Op::Alloc, Op::AllocMul, Op::Mul, Op::Con];
const ALPHA2: [Op; 4] = [Op::Alloc, Op::AllocMul, Op::Mul, Op::Con];

fn sequences(alpha: &[Op], max: usize) -> Vec<Vec<Op>> {
    let mut out = vec![vec![]];
    let mut frontier = vec![vec![]];
    for _ in 0..max {
        let mut next = vec![];
        for s in frontier.iter() {
            for o in alpha {
                let mut t: Vec<Op> = s.clone();
                t.push(o.clone());
                next.push(t);
            }
        }
        out.extend(next.iter().cloned());
        frontier = next;
    }
    out
}

/// reference bookkeeping (from the trait documentation): handles and gate count per call
fn expected(ops1: &[Op], ops2: &[Op]) -> (Vec<String>, Vec<usize>) {
    let (mut h, mut lens) = (vec![], vec![]);
    let (mut n, mut m) = (0usize, 0usize);
    let mut pending: Option<usize> = None;
    for (phase, ops) in [(1, ops1), (2, ops2)] {
        if phase == 2 {
            pending = None; // an unpaired allocation is closed at the end of the phase
        }
        for o in ops.iter() {
            match o {
                Op::Commit | Op::CommitDup => {
                    h.push(format!("C{}", m));
                    m += 1;
                }
                Op::Alloc => match pending {
                    None => {
                        h.push(format!("L{}", n));
                        pending = Some(n);
                        n += 1;
                    }
                    Some(i) => {
                        h.push(format!("R{}", i));
                        pending = None;
                    }
                },
                Op::AllocMul | Op::Mul => {
                    h.push(format!("L{},R{},O{}", n, n, n));
                    n += 1;
                }
                _ => {}
            }
            lens.push(n);
        }
    }
    (h, lens)
}

pub fn enumerate<G: AffineRepr + 'static>(max1: usize, max2: usize, seed: u64, mk_vals: impl Fn(u64) -> Box<dyn Vals<FOf<G>>>) -> (usize, Vec<(String, bool)>) {
    enumerate_part::<G>(max1, max2, seed, mk_vals, false, 0, 1)
}

pub fn enumerate_opt<G: AffineRepr + 'static>(max1: usize, max2: usize, seed: u64, mk_vals: impl Fn(u64) -> Box<dyn Vals<FOf<G>>>, stop_at_first: bool) -> (usize, Vec<(String, bool)>) {
    enumerate_part::<G>(max1, max2, seed, mk_vals, stop_at_first, 0, 1)
}

/// `part` of `nparts`: the (first-phase, second-phase) sequence pairs are dealt round-robin to the parts
pub fn enumerate_part<G: AffineRepr + 'static>(max1: usize, max2: usize, seed: u64, mk_vals: impl Fn(u64) -> Box<dyn Vals<FOf<G>>>, stop_at_first: bool, part: usize, nparts: usize) -> (usize, Vec<(String, bool)>) {
    let mut out = vec![];
    let pc = pc_for::<G>("c16-enumeration", seed | 1);
    let bp = BulletproofGens::<G>::new(16, 1);
    let s1 = sequences(&ALPHA1, max1);
    let s2 = sequences(&ALPHA2, max2);
    let mut count = 0usize;
    let mut pair_index = 0usize;
    for a in s1.iter() {
        for b in s2.iter() {
            pair_index += 1;
            if pair_index % nparts != part {
                continue;
            }
            count += 1;
            // the second-phase calls are made by one closure, and also split over two closures at every
            // position (the pairing state of single allocations carries over between closures)
            // ... and the closure is registered after all first-phase calls, or (one closure) after any prefix
            // of them: registration is bookkeeping, it must not touch the pairing state
            let n_split = if b.len() >= 2 { b.len() - 1 } else { 0 };
            let n_reg = if b.is_empty() || a.len() > 3 { 0 } else { a.len() }; // registration positions only for <= 3 first-phase calls
            for variant in 0..=(n_split + n_reg) {
            let (split, reg) = if variant <= n_split { (variant, None) } else { (0, Some(variant - n_split - 1)) };
            let p2: Vec<&[Op]> = if b.is_empty() { vec![] } else if split == 0 { vec![b.as_slice()] } else { vec![&b[..split], &b[split..]] };
            // witness modes: symbolic / random values; (first variant only) all zero; the literals 0, 1, -1, 2, ...
            for wmode in 0..(if variant == 0 { 3 } else { 1 }) {
            let mut shape = Shape::new("seq", a, &p2);
            shape.register_at = reg;
            shape.zero_witness = wmode == 1;
            shape.literal_witness = wmode == 2;
            let (want_h, want_l) = expected(a, b);
            crate::arena::reset();
            let shr = new_shared::<G>(&shape, &Default::default(), mk_vals(seed));
            let (proof, _) = prove_shape(&shape, &shr, &pc, &bp, seed);
            let (ph, pl, perr) = {
                let sh = shr.borrow();
                (sh.handles.clone(), sh.len_trace.clone(), sh.errors.clone())
            };
            let name = format!("{:?} / {:?}", a, b);
            let mut ok = perr.is_empty() && ph == want_h && pl == want_l;
            let mut detail = String::new();
            if !ok {
                detail = format!("prover handles {:?} lens {:?}, expected {:?} {:?} {:?}", ph, pl, want_h, want_l, perr);
            }
            match proof {
                Ok(p) => {
                    rewind_for_verifier(&shr);
                    let mut vt = new_verifier_transcript(&shape);
                    let res = build_verifier(&shape, &shr, &mut vt).verify(&p, &pc, &bp);
                    let sh = shr.borrow();
                    if sh.handles != want_h || sh.len_trace != want_l || !sh.errors.is_empty() {
                        ok = false;
                        detail += &format!(" verifier handles {:?} lens {:?}", sh.handles, sh.len_trace);
                    }
                    if res.is_err() {
                        ok = false;
                        detail += " honest proof rejected";
                    }
                }
                Err(e) => {
                    ok = false;
                    detail += &format!(" prove: {:?}", e);
                }
            }
            if !ok {
                out.push((format!("{} (closures split at {}, registered after {:?} first-phase calls, witness mode {}): {}", name, split, reg, ["values", "all zero", "literals 0, 1, -1, 2, ..."][wmode], detail), false));
                if stop_at_first {
                    return (count, out);
                }
            }
            }
            }
        }
    }
    // missing assignment: an error, not a wrong variable, and no counter moves
    if part == 0 {
        let mut t = Transcript::new(b"c16");
        let mut prover = Prover::new(&pc, &mut t);
        let before = prover.multipliers_len();
        let r1 = prover.allocate(None);
        let r2 = prover.allocate_multiplier(None);
        let after = prover.multipliers_len();
        out.push(("prover: a missing assignment gives MissingAssignment and leaves the gate count unchanged".into(), matches!(r1, Err(R1CSError::MissingAssignment)) && matches!(r2, Err(R1CSError::MissingAssignment)) && before == after));
        // and the pairing state is untouched: the next allocation opens gate 0
        let r3 = prover.allocate(Some(FOf::<G>::from(3u64)));
        out.push(("prover: after a failed allocation the next allocation is MultiplierLeft(0)".into(), matches!(r3, Ok(Variable::MultiplierLeft(0)))));
        // with a gate half open: still an error, the gate stays open, the next assignment closes it
        let len1 = prover.multipliers_len();
        let r4 = prover.allocate(None);
        let len2 = prover.multipliers_len();
        let r5 = prover.allocate(Some(FOf::<G>::from(5u64)));
        out.push(("prover: a missing assignment while a gate is half open gives MissingAssignment, moves nothing, and the next allocation is MultiplierRight(0)".into(), matches!(r4, Err(R1CSError::MissingAssignment)) && len1 == len2 && matches!(r5, Ok(Variable::MultiplierRight(0)))));
        // in the randomized phase: the error the closure propagates is what `prove` returns
        for which in 0..3 {
            let mut t = Transcript::new(b"c16");
            let mut prover = Prover::new(&pc, &mut t);
            let _ = prover.allocate_multiplier(Some((FOf::<G>::from(2u64), FOf::<G>::from(3u64))));
            if which == 2 {
                prover.specify_randomized_constraints(|rcs| rcs.allocate(Some(FOf::<G>::from(4u64))).map(|_| ())).unwrap();
            }
            prover
                .specify_randomized_constraints(move |rcs| {
                    if which == 1 {
                        rcs.allocate_multiplier(None).map(|_| ())
                    } else {
                        rcs.allocate(None).map(|_| ())
                    }
                })
                .unwrap();
            let mut ext = rand_chacha::ChaChaRng::seed_from_u64(seed);
            let r = prover.prove(&mut ext, &bp);
            out.push((format!("prover: a missing assignment inside a randomized closure ({}) makes prove return MissingAssignment: {:?}", ["allocate", "allocate_multiplier", "allocate in the second of two closures"][which], r.as_ref().err()), matches!(r, Err(R1CSError::MissingAssignment))));
        }
    }
    out.push((format!("all {} call sequences give reference handles and gate counts on both roles", count), out.iter().all(|c| c.1)));
    (count, out)
}
