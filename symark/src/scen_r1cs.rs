//! C01 / C02 / C15(pipeline) / C17(S-part): run the real prover and verifier on the carriers
//! and characterise the verifier's combined check.
#![allow(non_snake_case)]
use crate::arena::{self, Lin};
use crate::field::{Inner, SymF};
use crate::group::{Base, SymA};
use crate::job::*;
use crate::r1cs::*;
use ark_bulletproofs::r1cs::*;
use ark_bulletproofs::{BulletproofGens, PedersenGens};
use ark_ec::AffineRepr;
use ark_ff::{Field, One, Zero};
use rand_core::SeedableRng;
use std::collections::BTreeMap;

pub struct Bases {
    pub B: u32,
    pub Bb: u32,
    pub G: Vec<u32>,
    pub H: Vec<u32>,
}

pub fn name_bases<C: Base>(pc: &PedersenGens<SymA<C>>, bp: &BulletproofGens<SymA<C>>, n: usize) -> Bases
where
    C::ScalarField: Inner,
{
    let B = pc.B.name_basis("B");
    let Bb = pc.B_blinding.name_basis("Bblind");
    let g = bp.share(0).verif_G(n);
    let h = bp.share(0).verif_H(n);
    let G = g.iter().enumerate().map(|(i, p)| p.name_basis(&format!("G{}", i))).collect();
    let H = h.iter().enumerate().map(|(i, p)| p.name_basis(&format!("H{}", i))).collect();
    Bases { B, Bb, G, H }
}

/// Challenges squeezed during `ctx`, in order: (label, SymF)
pub fn chals_in<F0: Inner>(ctx: &str) -> Vec<(String, SymF<F0>)> {
    arena::with(|a| {
        a.chals
            .iter()
            .filter(|c| c.ctx == ctx)
            .map(|c| {
                let mut l = [0u64; 4];
                l.copy_from_slice(&c.limbs);
                let v = F0::from_bigint(ark_ff::BigInt::<4>(l)).unwrap();
                (c.label.clone(), SymF::from_tid(v, c.tid))
            })
            .collect()
    })
}

pub struct VerifierChals<F> {
    pub phase2: Vec<F>,
    pub y: F,
    pub z: F,
    pub u: F,
    pub x: F,
    pub w: F,
    pub ipp: Vec<F>,
    pub r: F,
}

/// Split the verifier's challenge sequence by the protocol's label order.
pub fn split_verifier_chals<F: Copy>(cs: &[(String, F)]) -> Result<VerifierChals<F>, String> {
    let labels: Vec<&str> = cs.iter().map(|c| c.0.as_str()).collect();
    let iy = labels.iter().position(|l| *l == "y").ok_or("no y challenge")?;
    if labels.len() < iy + 6 {
        return Err(format!("challenge sequence too short: {:?}", labels));
    }
    let want = ["y", "z", "u", "x", "w"];
    for (k, w) in want.iter().enumerate() {
        if labels[iy + k] != *w {
            return Err(format!("unexpected challenge order: {:?}", labels));
        }
    }
    let last = labels.len() - 1;
    if labels[last] != "r" {
        return Err(format!("last challenge is not r: {:?}", labels));
    }
    for l in &labels[iy + 5..last] {
        if *l != "u" {
            return Err(format!("unexpected challenge in the inner-product rounds: {:?}", labels));
        }
    }
    Ok(VerifierChals {
        phase2: cs[..iy].iter().map(|c| c.1).collect(),
        y: cs[iy].1,
        z: cs[iy + 1].1,
        u: cs[iy + 2].1,
        x: cs[iy + 3].1,
        w: cs[iy + 4].1,
        ipp: cs[iy + 5..last].iter().map(|c| c.1).collect(),
        r: cs[last].1,
    })
}

/// Events of context `ctx`.
pub fn events_in(ctx: &str) -> Vec<arena::Event> {
    arena::with(|a| a.events.iter().filter(|e| e.ctx == ctx).cloned().collect())
}

pub fn describe_events(evs: &[arena::Event]) -> Vec<String> {
    arena::with(|a| {
        evs.iter()
            .map(|e| match e.kind {
                "pzero" | "peq" => format!(
                    "{}:{} point test over [{}] -> {}",
                    e.ctx,
                    e.kind,
                    e.lin.keys().map(|k| a.basis_names[*k as usize].clone()).collect::<Vec<_>>().join(","),
                    e.outcome
                ),
                _ => format!("{}:{} {} -> {}", e.ctx, e.kind, a.show(e.term, 2), e.outcome),
            })
            .collect()
    })
}

pub struct R1csRun<C: Base>
where
    C::ScalarField: Inner,
{
    pub shr: std::rc::Rc<std::cell::RefCell<Shared<SymA<C>>>>,
    pub proof: Result<R1CSProof<SymA<C>>, R1CSError>,
    pub verdict: Option<Result<(), R1CSError>>,
    pub bases: Bases,
    pub pc: PedersenGens<SymA<C>>,
    pub residual: Option<Lin>,
    pub vchals: Option<VerifierChals<SymF<C::ScalarField>>>,
    pub prover_tail: Option<[u8; 32]>,
    pub verifier_tail: Option<[u8; 32]>,
    /// merlin operation log of the whole run and the object ids of the two main transcripts
    pub log: Vec<merlin::vlog::Event>,
    pub prover_obj: u64,
    pub verifier_obj: u64,
    pub bp_gens: BulletproofGens<SymA<C>>,
}

/// id of the first transcript created at or after log position `from`
pub fn first_new_obj(log: &[merlin::vlog::Event], from: usize) -> u64 {
    log[from.min(log.len())..].iter().find(|e| e.op == "new").map(|e| e.obj).unwrap_or(0)
}

/// Run prover and verifier of `shape` on the carriers.  `cap_p`/`cap_v` = generator capacities.
pub fn run_sym<C: Base + 'static>(shape: &Shape, err: &ErrPlan, seed: u64, cap_p: usize, cap_v: usize) -> R1csRun<C>
where
    C::ScalarField: Inner,
{
    arena::reset();
    arena::set_ctx("setup");
    let pc = pc_for::<SymA<C>>(&shape.name, seed);
    let bp_p = BulletproofGens::<SymA<C>>::new(cap_p, 1);
    let bp_v = BulletproofGens::<SymA<C>>::new(cap_v, 1);
    let bases = name_bases(&pc, if cap_p >= cap_v { &bp_p } else { &bp_v }, cap_p.max(cap_v));
    let shr = new_shared::<SymA<C>>(shape, err, Box::new(SymVals::<C::ScalarField>::new(seed)));
    arena::set_ctx("prove");
    let p_from = merlin::vlog::len();
    let mut v_from = p_from;
    let (proof, mut pt) = prove_shape(shape, &shr, &pc, &bp_p, seed);
    let mut prover_tail = None;
    let mut verdict = None;
    let mut residual = None;
    let mut vchals = None;
    let mut verifier_tail = None;
    if let Ok(p) = &proof {
        arena::set_ctx("tail");
        let mut t = [0u8; 32];
        pt.challenge_bytes(b"verif-tail", &mut t);
        prover_tail = Some(t);
        rewind_for_verifier(&shr);
        arena::set_ctx("verify");
        v_from = merlin::vlog::len();
        let mut vt = new_verifier_transcript(shape);
        let verifier = build_verifier(shape, &shr, &mut vt);
        let res = verifier.verify_and_return_transcript(p, &pc, &bp_v).map(|_| ());
        arena::set_ctx("tail");
        let mut t = [0u8; 32];
        vt.challenge_bytes(b"verif-tail", &mut t);
        verifier_tail = Some(t);
        // the combined check is the last point zero-test of the verify context
        let evs = events_in("verify");
        vchals = split_verifier_chals(&chals_in::<C::ScalarField>("verify")).ok();
        let r_pos = arena::with(|a| a.chals.iter().filter(|c| c.ctx == "verify" && c.label == "r").map(|c| c.merlin_pos).last());
        if let (Some(e), Some(rp)) = (evs.iter().rev().find(|e| e.kind == "pzero"), r_pos) {
            // only a zero-test made after the last challenge is the combined check
            if matches!(res, Ok(()) | Err(R1CSError::VerificationError)) && e.merlin_pos >= rp {
                residual = Some(e.lin.clone());
            }
        }
        verdict = Some(res);
    }
    arena::set_ctx("post");
    let log = merlin::vlog::since(0);
    let prover_obj = first_new_obj(&log, p_from);
    let verifier_obj = if v_from > p_from { first_new_obj(&log, v_from) } else { 0 };
    let bp_gens = if cap_p >= cap_v { bp_p } else { bp_v };
    R1csRun { shr, proof, verdict, bases, pc, residual, vchals, prover_tail, verifier_tail, log, prover_obj, verifier_obj, bp_gens }
}

/// Reference value of the combined check for a proof made by the honest proving procedure from
/// an arbitrary assignment (written from the protocol, not from the repo):
///   residual = - r x^2 ( sum_q z^{q+1} val_q  +  sum_i y^i (aL_i aR_i - aO_i) ) * B
pub fn oracle_residual_b<F: Field>(ch_r: F, x: F, y: F, z: F, con_vals: &[F], gates: &[(F, F, F)]) -> F {
    let mut acc = F::zero();
    let mut zp = z;
    for v in con_vals {
        acc += zp * v;
        zp *= z;
    }
    let mut yp = F::one();
    for (l, r, o) in gates {
        acc += yp * (*l * r - o);
        yp *= y;
    }
    -(ch_r * x * x * acc)
}

pub fn shape_json(s: &Shape) -> serde_json::Value {
    serde_json::to_value(s).unwrap()
}

/// C01 (err empty) and C02 (err non-empty): characterise the combined check.
pub fn job_completeness_soundness<C: Base + 'static>(prop: &str, shape: &Shape, err: &ErrPlan, seed: u64, cap_p: usize, cap_v: usize, curve: &str) -> Job
where
    C::ScalarField: Inner,
{
    let run = run_sym::<C>(shape, err, seed, cap_p, cap_v);
    let mut job = Job { property: prop.into(), scenario: format!("{}:{}", prop, shape.name), curve: curve.into(), seed, shape: shape_json(shape), ..Default::default() };
    // an error plan can be vacuous for a skeleton (e.g. an error on the output of a gate that is never
    // completed): what counts is whether the tracked assignment violates anything
    let honest = {
        let sh = run.shr.borrow();
        sh.con_vals.iter().all(|v| v.v.is_zero()) && sh.gates.iter().all(|(l, r, o)| (l.v * r.v - o.v).is_zero())
    };
    job.params = serde_json::json!({"cap_prover": cap_p, "cap_verifier": cap_v, "err_plan": err, "gates": shape.gates(), "padded": shape.padded(), "commitments": shape.commits()});
    let sh = run.shr.borrow();
    job.check("builder ran without API errors", sh.errors.is_empty(), format!("{:?}", sh.errors));
    if run.proof.is_ok() {
        job.check(
            "both roles ran every registered randomized closure exactly once, in registration order",
            closures_as_registered(shape, &sh.closure_runs_prover) && (run.verdict.is_none() || closures_as_registered(shape, &sh.closure_runs)),
            format!("prover ran {:?}, verifier ran {:?}, {} registered", sh.closure_runs_prover, sh.closure_runs, shape.phase2.len()),
        );
    }
    job.check("prove returns Ok", run.proof.is_ok(), format!("{:?}", run.proof.as_ref().err()));
    let concrete_ok = matches!(run.verdict, Some(Ok(())));
    job.concrete = serde_json::json!({"prove_ok": run.proof.is_ok(), "verify_ok": concrete_ok, "expected_verify_ok": honest});
    job.check(
        "concrete verdict on the shadow curve agrees with the expectation",
        run.proof.is_ok() && concrete_ok == honest,
        format!("verify -> {:?}, expected ok={}", run.verdict, honest),
    );
    job.check(
        "prover and verifier transcripts give the same follow-up challenge",
        run.prover_tail.is_some() && run.prover_tail == run.verifier_tail,
        String::new(),
    );
    match (&run.residual, &run.vchals) {
        (Some(res), Some(vc)) => {
            let want_b = oracle_residual_b(vc.r, vc.x, vc.y, vc.z, &sh.con_vals, &sh.gates);
            let mut want: Lin = BTreeMap::new();
            if want_b.id != 0 || !want_b.v.is_zero() {
                want.insert(run.bases.B, want_b.tid());
            }
            let items = lin_eq_items("mega_check", res, &want);
            let claim = if honest {
                "every coefficient of the verifier's combined check (over B, Bblind, G_i, H_i) is identically 0 for all witness values, coefficients, blindings, prover nonces and challenges: the honest proof is accepted"
            } else {
                "the combined check equals -r x^2 (sum_q z^(q+1) err_q + sum_i y^i (aL_i aR_i - aO_i)) B and 0 on every other basis: it vanishes only if the (y,z)-polynomial of the violations vanishes"
            };
            job.groups.push(identity_group("residual_characterisation", "I", claim, items));
            if !honest {
                // fallback (R): only used when the characterisation fails; finds error values the
                // implementation accepts for every value of the challenges
                let errs: Vec<u32> = arena::with(|a| (0..a.terms.len() as u32).filter(|t| a.var_name(*t).map(|n| n.starts_with("err") || n.starts_with("gerr")).unwrap_or(false)).collect());
                match rejection_query_group("accepted_violation_search", "residual_characterisation", res, &errs, "no assignment with a non-zero error makes the combined check vanish for all challenge values (over the reals; used only to find counterexamples / avoid false alarms)") {
                    Ok(g) => job.groups.push(g),
                    Err(e) => job.inconclusive.push(format!("late-variable expansion failed: {}", e)),
                }
            }
            // shadow cross-check of the oracle value itself
            let shadow_b = arena::with(|_a| want_b.v);
            job.check("oracle shadow value is zero iff honest", shadow_b.is_zero() == honest, String::new());
        }
        (Some(res), None) if honest => {
            // the verifier's challenge sequence is not the expected y, z, u, x, w, u*, r: acceptance of the honest
            // proof needs no oracle (every coefficient must vanish); the schedule itself is C06's / C18's subject
            let items = lin_eq_items("mega_check", res, &BTreeMap::new());
            job.groups.push(identity_group("residual_characterisation", "I", "every coefficient of the verifier's combined check is identically 0: the honest proof is accepted (challenge sequence not in the reference order, no oracle used)", items));
        }
        (Some(res), None) => {
            // no challenge split, so no characterisation: search directly for violations the implementation accepts
            // for every value of its challenges (sat + native reproduction = violation; unsat proves nothing here)
            let errs: Vec<u32> = arena::with(|a| (0..a.terms.len() as u32).filter(|t| a.var_name(*t).map(|n| n.starts_with("err") || n.starts_with("gerr")).unwrap_or(false)).collect());
            match rejection_query_group("accepted_violation_search", "", res, &errs, "no assignment with a non-zero error makes the combined check vanish for all challenge values (challenge sequence not in the reference order: search only)") {
                Ok(mut g) => {
                    g.only_if_failed = None;
                    job.groups.push(g);
                }
                Err(e) => job.inconclusive.push(format!("late-variable expansion failed: {}", e)),
            }
            job.inconclusive.push(format!("the verifier's challenge sequence is not y, z, u, x, w, u*, r: rejection cannot be characterised (verdict {:?})", run.verdict));
        }
        _ => {
            job.inconclusive.push(format!("no combined-check event / challenge split available (verdict {:?})", run.verdict));
        }
    }
    let mut evs = events_in("prove");
    evs.extend(events_in("verify"));
    job.path_conditions = describe_events(&evs);
    arena::with(|a| {
        if !a.opaque.is_empty() {
            job.inconclusive.push(format!("opaque constants in the encoding: {:?}", &a.opaque[..a.opaque.len().min(3)]));
        }
    });
    job.stats = stats();
    job.replay = replay_json(shape, err, seed, cap_p, cap_v);
    job
}

/// Native replay on a plain curve with values from a solver model: returns (prove_ok, verify_ok).
pub fn replay_plain<G: AffineRepr + 'static>(shape: &Shape, err: &ErrPlan, seed: u64, cap_p: usize, cap_v: usize, model: std::collections::HashMap<String, String>) -> (bool, bool, usize)
where
    Shape: std::panic::RefUnwindSafe,
{
    let r = std::panic::catch_unwind(move || replay_plain_inner::<G>(shape, err, seed, cap_p, cap_v, model));
    r.unwrap_or((false, false, 1))
}

fn replay_plain_inner<G: AffineRepr + 'static>(shape: &Shape, err: &ErrPlan, seed: u64, cap_p: usize, cap_v: usize, model: std::collections::HashMap<String, String>) -> (bool, bool, usize) {
    let pc = pc_for::<G>(&shape.name, seed);
    let bp_p = BulletproofGens::<G>::new(cap_p, 1);
    let bp_v = BulletproofGens::<G>::new(cap_v, 1);
    let vals = PlainVals::<FOf<G>>::new(model, seed);
    let shr = new_shared::<G>(shape, err, Box::new(vals));
    let (proof, mut pt) = prove_shape(shape, &shr, &pc, &bp_p, seed);
    let proof = match proof {
        Ok(p) => p,
        Err(_) => return (false, false, 0),
    };
    rewind_for_verifier(&shr);
    let mut vt = new_verifier_transcript(shape);
    let verifier = build_verifier(shape, &shr, &mut vt);
    let ok = verifier.verify(&proof, &pc, &bp_v).is_ok();
    // 5 = the proof is accepted but the transcripts the two roles hand back drive different follow-up challenges
    if ok {
        let (mut tp, mut tv) = ([0u8; 32], [0u8; 32]);
        pt.challenge_bytes(b"verif-tail", &mut tp);
        vt.challenge_bytes(b"verif-tail", &mut tv);
        if tp != tv {
            return (true, ok, 5);
        }
    }
    // 2 = the tracked assignment violates something (the proof must be rejected), 3 = it is satisfying
    let sh = shr.borrow();
    let honest = sh.con_vals.iter().all(|v| v.is_zero()) && sh.gates.iter().all(|(l, r, o)| (*l * *r - *o).is_zero());
    // 4 = a role did not run the registered closures as registered (part of the program was dropped or reordered)
    if !(closures_as_registered(shape, &sh.closure_runs_prover) && closures_as_registered(shape, &sh.closure_runs)) {
        return (true, ok, 4);
    }
    (true, ok, if honest { 3 } else { 2 })
}

pub fn replay_json(shape: &Shape, err: &ErrPlan, seed: u64, cap_p: usize, cap_v: usize) -> serde_json::Value {
    let honest = err.con.is_empty() && err.gate.is_empty();
    serde_json::json!({"kind": "r1cs", "shape": shape_json(shape), "err": err, "cap_prover": cap_p, "cap_verifier": cap_v, "seed": seed, "expect_verify_ok": honest})
}

/// C02, concrete companion beyond the symbolic bound: (1) circuits with several hundred constraints in which two
/// NEIGHBOURING rows are violated by opposite amounts (+e, -e) -- accepted only if the two rows share a weight; the
/// pair is placed around every power of two up to 512 and at a few other positions; (2) the proof made from a
/// violating assignment as the first / middle / last member of a batch whose other members are honest.
pub fn c02_native_companion<G: AffineRepr + 'static>(seed: u64) -> Vec<(String, bool)> {
    use crate::r1cs::Op;
    let mut out = vec![];
    let n_rows = 530usize;
    let mut p1 = vec![Op::Commit, Op::Commit];
    p1.extend(vec![Op::ConCommitted; n_rows]);
    let mut wide = Shape::new("wide_constraints_only", &p1, &[]);
    wide.lc_width = 2;
    let mut accepted = vec![];
    let mut tried = 0;
    for p in [0usize, 1, 2, 3, 6, 7, 14, 15, 16, 30, 31, 32, 62, 63, 64, 126, 127, 128, 254, 255, 256, 257, 300, 510, 511, 512, 513, 528] {
        let err = ErrPlan { con: vec![p, p + 1], gate: vec![] };
        let mut model = std::collections::HashMap::new();
        model.insert("err0".to_string(), "5".to_string());
        model.insert("err1".to_string(), "-5".to_string());
        let (p_ok, v_ok, hon) = replay_plain::<G>(&wide, &err, seed, 1, 1, model);
        tried += 1;
        if !p_ok || v_ok || hon != 2 {
            accepted.push(format!("rows {} and {} (prove_ok {}, verify_ok {}, state {})", p, p + 1, p_ok, v_ok, hon));
        }
    }
    out.push((format!("{} constraints, rows p and p+1 violated by +5 and -5 for {} positions p around the powers of two: every proof is rejected (accepted: {:?})", n_rows, tried, &accepted[..accepted.len().min(3)]), accepted.is_empty()));
    // the same with a gate row pair: two-phase circuit with many multiply gates is out of reach here; gates are covered symbolically
    // (2) batches
    {
        let shape = Shape::new("batch_member", &[Op::Commit, Op::AllocMul, Op::Con, Op::ConCommitted], &[]);
        let pad = shape.padded();
        let pc = pc_for::<G>("c02-batch", seed);
        let bp = BulletproofGens::<G>::new(pad, 1);
        let mk = |err: &ErrPlan, s: u64| {
            let shr = new_shared::<G>(&shape, err, Box::new(PlainVals::<FOf<G>>::new(Default::default(), s)));
            let (p, _) = prove_shape(&shape, &shr, &pc, &bp, s);
            (shr, p)
        };
        let (h_shr, h_proof) = mk(&Default::default(), seed);
        let mut bad = vec![];
        for (what, err) in [("a violated linear constraint", ErrPlan { con: vec![1], gate: vec![] }), ("a violated gate", ErrPlan { con: vec![], gate: vec![(0, 2)] })] {
            let (v_shr, v_proof) = mk(&err, seed + 1);
            if let (Ok(hp), Ok(vp)) = (&h_proof, &v_proof) {
                for (len, at) in [(1usize, 0usize), (2, 0), (2, 1), (3, 1), (3, 2), (5, 4)] {
                    let forks: Vec<_> = (0..len).map(|i| fork_for_verifier(&shape, if i == at { &v_shr } else { &h_shr })).collect();
                    let mut ts: Vec<merlin::Transcript> = (0..len).map(|_| new_verifier_transcript(&shape)).collect();
                    let mut insts = vec![];
                    for (i, vt) in ts.iter_mut().enumerate() {
                        insts.push((build_verifier(&shape, &forks[i], vt), if i == at { vp } else { hp }));
                    }
                    let mut wr = rand_chacha::ChaChaRng::seed_from_u64(seed ^ 0xc02b);
                    if batch_verify(&mut wr, insts, &pc, &bp).is_ok() {
                        bad.push(format!("{} as member {} of {}", what, at, len));
                    }
                }
            } else {
                bad.push("prove".into());
            }
        }
        out.push((format!("the proof made from a violating assignment is rejected as the first / middle / last member of batches of 1..5 (accepted: {:?})", bad), bad.is_empty()));
    }
    out
}
