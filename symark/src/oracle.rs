//! Reference relations written from the Bulletproofs R1CS protocol description (Bünz et al.,
//! dalek's protocol notes), NOT from the repository's code: unbatched verification relations
//! with explicit round-by-round folding of the generators, and the honest prover's messages.
//! Generic over the group, so the same code yields terms (on the carriers) or values (replay).
#![allow(non_snake_case)]
use crate::r1cs::VK;
use ark_ec::AffineRepr;
use ark_ff::{Field, One, Zero};

pub type Cons<F> = [(Vec<(VK, usize, F)>, F)];

pub struct Flat<F> {
    pub wL: Vec<F>,
    pub wR: Vec<F>,
    pub wO: Vec<F>,
    pub wV: Vec<F>,
    pub wc: F,
}

/// Constraint q is  sum coeff*var + c = 0  and gets weight z^(q+1).  In the paper's form
/// W_L aL + W_R aR + W_O aO = W_V v + c  this means  W_V = -coeff_V  and  c_paper = -c.
pub fn flatten<F: Field>(cons: &Cons<F>, n: usize, m: usize, z: F) -> Flat<F> {
    let mut f = Flat { wL: vec![F::zero(); n], wR: vec![F::zero(); n], wO: vec![F::zero(); n], wV: vec![F::zero(); m], wc: F::zero() };
    let mut zp = z;
    for (terms, c) in cons.iter() {
        for (k, i, coeff) in terms.iter() {
            match k {
                VK::L => f.wL[*i] += zp * coeff,
                VK::R => f.wR[*i] += zp * coeff,
                VK::O => f.wO[*i] += zp * coeff,
                VK::C => f.wV[*i] -= zp * coeff,
            }
        }
        f.wc -= zp * c;
        zp *= z;
    }
    f
}

pub struct Chals<F> {
    pub y: F,
    pub z: F,
    pub u: F,
    pub x: F,
    pub w: F,
    pub ipp: Vec<F>,
    pub r: F,
}

pub struct ProofParts<G: AffineRepr> {
    /// A_I1, A_O1, S1, A_I2, A_O2, S2, T_1, T_3, T_4, T_5, T_6
    pub points: [G; 11],
    /// t_x, t_x_blinding, e_blinding
    pub scalars: [G::ScalarField; 3],
    pub L: Vec<G>,
    pub R: Vec<G>,
    pub a: G::ScalarField,
    pub b: G::ScalarField,
}

fn powers<F: Field>(x: F, n: usize) -> Vec<F> {
    let mut v = Vec::with_capacity(n);
    let mut p = F::one();
    for _ in 0..n {
        v.push(p);
        p *= x;
    }
    v
}

/// Rel_t := t_x B + t~ B~ - x^2 (wc + delta) B - x^2 sum wV_j V_j - sum_{i in 1,3,4,5,6} x^i T_i
pub fn rel_t<G: AffineRepr>(B: &G, Bb: &G, V: &[G], p: &ProofParts<G>, fl: &Flat<G::ScalarField>, ch: &Chals<G::ScalarField>, n: usize) -> G::Group {
    let x = ch.x;
    let yinv = ch.y.inverse().unwrap();
    let yi = powers(yinv, n);
    let mut delta = G::ScalarField::zero();
    for i in 0..n {
        delta += yi[i] * fl.wR[i] * fl.wL[i];
    }
    let xx = x * x;
    let mut acc: G::Group = *B * (p.scalars[0] - xx * (fl.wc + delta)) + *Bb * p.scalars[1];
    for (j, v) in V.iter().enumerate() {
        acc = acc - *v * (xx * fl.wV[j]);
    }
    let xs = [x, xx * x, xx * xx, xx * xx * x, xx * xx * xx];
    for k in 0..5 {
        acc = acc - p.points[6 + k] * xs[k];
    }
    acc
}

/// Rel_ipp with the generator vectors folded explicitly round by round:
///   P := x A_I1 + x^2 A_O1 + x^3 S1 + u (x A_I2 + x^2 A_O2 + x^3 S2) - e~ B~
///        + <x y^-n o wR, G'> + <y^-n o (x wL + wO) - 1, H''>  + t_x w B
///   with G'_i = g_i G_i, H''_i = g_i H_i, g_i = 1 (first phase) or u (second phase, padding);
///   H' = y^-n o H'' is the vector the argument is about, Q = w B;
///   each round: G <- u_j^-1 G_lo + u_j G_hi, H' <- u_j H'_lo + u_j^-1 H'_hi, P <- u_j^2 L_j + P + u_j^-2 R_j;
///   Rel_ipp := P - a G - b H' - a b Q.
pub fn rel_ipp<G: AffineRepr>(B: &G, Bb: &G, Gs: &[G], Hs: &[G], p: &ProofParts<G>, fl: &Flat<G::ScalarField>, ch: &Chals<G::ScalarField>, n1: usize, n: usize) -> Result<G::Group, String> {
    let padded = n.next_power_of_two();
    if Gs.len() != padded || Hs.len() != padded {
        return Err("generator count".into());
    }
    if p.L.len() != p.R.len() || (1usize << p.L.len()) != padded || ch.ipp.len() != p.L.len() {
        return Err("round count".into());
    }
    let (x, u, w) = (ch.x, ch.u, ch.w);
    let one = G::ScalarField::one();
    let yinv = ch.y.inverse().unwrap();
    let yi = powers(yinv, padded);
    let g: Vec<G::ScalarField> = (0..padded).map(|i| if i < n1 { one } else { u }).collect();
    let xx = x * x;
    let mut P: G::Group = p.points[0] * x + p.points[1] * xx + p.points[2] * (xx * x);
    P = P + (p.points[3] * x + p.points[4] * xx + p.points[5] * (xx * x)) * u;
    P = P - *Bb * p.scalars[2];
    P = P + *B * (p.scalars[0] * w);
    // working generator vectors
    let mut Gv: Vec<G::Group> = (0..padded).map(|i| Gs[i] * g[i]).collect();
    let mut Hv: Vec<G::Group> = (0..padded).map(|i| Hs[i] * (g[i] * yi[i])).collect();
    for i in 0..padded {
        let wr = if i < n { fl.wR[i] } else { G::ScalarField::zero() };
        let wl = if i < n { fl.wL[i] } else { G::ScalarField::zero() };
        let wo = if i < n { fl.wO[i] } else { G::ScalarField::zero() };
        P = P + Gv[i] * (x * yi[i] * wr);
        // <y^-n o (x wL + wO), H''> - <1, H''>   with H'' = g_i H_i
        P = P + Hs[i] * (g[i] * (yi[i] * (x * wl + wo) - one));
    }
    let mut len = padded;
    for (j, uj) in ch.ipp.iter().enumerate() {
        let ui = uj.inverse().unwrap();
        len /= 2;
        let (mut Gn, mut Hn) = (Vec::with_capacity(len), Vec::with_capacity(len));
        for i in 0..len {
            Gn.push(Gv[i] * ui + Gv[len + i] * *uj);
            Hn.push(Hv[i] * *uj + Hv[len + i] * ui);
        }
        Gv = Gn;
        Hv = Hn;
        P = P + p.L[j] * (*uj * *uj) + p.R[j] * (ui * ui);
    }
    let Q: G::Group = *B * w;
    Ok(P - Gv[0] * p.a - Hv[0] * p.b - Q * (p.a * p.b))
}

/// Honest prover messages (protocol description): returns the coefficients t_1..t_6 of
/// t(X) = <l(X), r(X)> with
///   l(X) = (aL + y^-n o wR) X + aO X^2 + sL X^3,
///   r(X) = (wO - y^n) + (y^n o aR + wL) X + (y^n o sR) X^3        (rows i < n)
pub fn t_coeffs<F: Field>(aL: &[F], aR: &[F], aO: &[F], sL: &[F], sR: &[F], fl: &Flat<F>, y: F) -> [F; 7] {
    let n = aL.len();
    let yp = powers(y, n);
    let yi = powers(y.inverse().unwrap(), n);
    let mut t = [F::zero(); 7];
    for i in 0..n {
        let l = [F::zero(), aL[i] + yi[i] * fl.wR[i], aO[i], sL[i]];
        let r = [fl.wO[i] - yp[i], yp[i] * aR[i] + fl.wL[i], F::zero(), yp[i] * sR[i]];
        for a in 0..4 {
            for b in 0..4 {
                t[a + b] += l[a] * r[b];
            }
        }
    }
    t
}
