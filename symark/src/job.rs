//! Output format: one JSON "job" per scenario, consumed by the python driver which runs the
//! solver on every obligation group and writes the evidence.
use crate::arena::{self, Lin};
use crate::field::{Inner, SymF};
use crate::r1cs::Vals;
use ark_ff::{PrimeField, UniformRand};
use rand_core::SeedableRng;
use serde::Serialize;
use std::collections::HashMap;

#[derive(Serialize, Clone, Debug)]
pub struct Item {
    pub name: String,
    pub lhs: String,
    pub rhs: String,
}

#[derive(Serialize, Clone, Debug)]
pub struct Group {
    pub name: String,
    /// "I" identity, "C" rejection certificate (an identity on a detecting coefficient)
    pub form: String,
    pub preamble: String,
    pub items: Vec<Item>,
    pub vars: Vec<String>,
    pub n_inverses: usize,
    pub n_terms: usize,
    /// statement in words of what `unsat` means
    pub claim: String,
    /// form "R" only: run this group only when the named group of the same job came back `sat`
    pub only_if_failed: Option<String>,
    /// form "R" only: additional assertions (raw SMT-LIB)
    pub extra_asserts: Vec<String>,
    /// largest total degree (in the late variables) of a monomial of the expanded residual
    pub late_degree: i32,
    /// form "U": self-contained queries (uninterpreted-function / integer logic), each with the
    /// verdict it must get
    pub raw: Vec<RawQuery>,
    /// pairs that were already the same term after hash-consing (no solver call needed)
    #[serde(default)]
    pub n_syntactic: usize,
}

#[derive(Serialize, Clone, Debug)]
pub struct RawQuery {
    pub name: String,
    pub smt: String,
    pub expect: String,
}

pub fn raw_group(name: &str, claim: &str, raw: Vec<RawQuery>) -> Group {
    Group { name: name.to_string(), form: "U".into(), preamble: String::new(), items: vec![], vars: vec![], n_inverses: 0, n_terms: 0, claim: claim.to_string(), only_if_failed: None, extra_asserts: vec![], late_degree: 0, raw, n_syntactic: 0 }
}

#[derive(Serialize, Clone, Debug)]
pub struct Structural {
    pub name: String,
    pub ok: bool,
    pub detail: String,
}

#[derive(Serialize, Clone, Debug, Default)]
pub struct Job {
    pub property: String,
    pub scenario: String,
    pub curve: String,
    pub seed: u64,
    pub shape: serde_json::Value,
    pub params: serde_json::Value,
    /// concrete (shadow) outcomes and what they were expected to be
    pub concrete: serde_json::Value,
    pub structural: Vec<Structural>,
    pub groups: Vec<Group>,
    pub stats: serde_json::Value,
    pub path_conditions: Vec<String>,
    /// set when the encoder met something it does not understand: the run is inconclusive
    pub inconclusive: Vec<String>,
    pub replay: serde_json::Value,
}

impl Job {
    pub fn check(&mut self, name: &str, ok: bool, detail: String) {
        self.structural.push(Structural { name: name.to_string(), ok, detail });
    }
}

pub fn t(id: u32) -> String {
    format!("t{}", id)
}

/// Variables that occur under an inverse (challenges y, u_j, ...).
fn inverted_vars(a: &arena::Arena, roots: &[u32]) -> std::collections::HashSet<u32> {
    let mut late = std::collections::HashSet::new();
    for t in a.reach(roots) {
        if let arena::Term::Inv(x) = &a.terms[t as usize] {
            for v in a.reach(&[*x]) {
                if let arena::Term::Var(_) = &a.terms[v as usize] {
                    late.insert(v);
                }
            }
        }
    }
    late
}

/// Build an identity group: every `(name, lhs, rhs)` must hold for all values.
///
/// Pre-processing (pure ring rewriting, no decision): each difference lhs - rhs is written as a
/// Laurent polynomial in the variables that occur under an inverse; Laurent monomials are linearly
/// independent over the polynomial ring in the other variables, so the identity holds (wherever the
/// inverses exist) iff every coefficient -- an inverse-free polynomial -- is identically zero.  The
/// solver decides those coefficient identities.  If the expansion is not possible the original pairs
/// with inverse side-constraints are used.
pub fn identity_group(name: &str, form: &str, claim: &str, items: Vec<(String, u32, u32)>) -> Group {
    let expanded: Option<Vec<(String, u32, u32)>> = arena::with(|a| {
        let mut roots = vec![];
        for (_, l, r) in items.iter() {
            if l != r {
                roots.push(*l);
                roots.push(*r);
            }
        }
        let late = inverted_vars(a, &roots);
        if late.is_empty() {
            return None;
        }
        let lit0 = a.lit0;
        let mut ex = crate::expand::Expander::new(a, late);
        let mut out = vec![];
        for (n, l, r) in items.iter() {
            if l == r {
                out.push((n.clone(), *l, *r));
                continue;
            }
            let d = ex.a.sub(*l, *r);
            let p = match ex.expand(d) {
                Ok(p) => p,
                Err(_) => return None,
            };
            if p.is_empty() {
                out.push((n.clone(), lit0, lit0));
            }
            for (m, c) in p.iter() {
                out.push((format!("{} @ {}", n, ex.show_mono(m)), *c, lit0));
            }
        }
        Some(out)
    });
    let n_orig = items.len();
    let mut g = identity_group_raw(name, form, claim, expanded.clone().unwrap_or(items));
    if expanded.is_some() {
        g.claim = format!("{} [{} identities split into inverse-free coefficient identities by Laurent expansion in the inverted challenges]", g.claim, n_orig);
    }
    g
}

pub fn identity_group_raw(name: &str, form: &str, claim: &str, items: Vec<(String, u32, u32)>) -> Group {
    arena::with(|a| {
        // trivially identical pairs are dropped (hash-consing already proved them equal)
        let kept: Vec<&(String, u32, u32)> = items.iter().filter(|(_, l, r)| l != r).collect();
        let mut roots = vec![];
        for (_, l, r) in kept.iter() {
            roots.push(*l);
            roots.push(*r);
        }
        let (pre, vars, ninv) = a.smt_preamble(&roots);
        let n_terms = a.reach(&roots).len();
        Group {
            name: name.to_string(),
            form: form.to_string(),
            preamble: pre,
            items: kept.iter().map(|(n, l, r)| Item { name: n.clone(), lhs: t(*l), rhs: t(*r) }).collect(),
            vars,
            n_inverses: ninv,
            n_terms,
            claim: format!("{} [{} of {} pairs syntactically identical after hash-consing]", claim, items.len() - kept.len(), items.len()),
            only_if_failed: None,
            extra_asserts: vec![],
            late_degree: 0,
            raw: vec![],
            n_syntactic: items.len() - kept.len(),
        }
    })
}

/// Obligations "lin == expected" coefficient by coefficient over the union of bases.
pub fn lin_eq_items(prefix: &str, got: &Lin, want: &Lin) -> Vec<(String, u32, u32)> {
    arena::with(|a| {
        let mut keys: Vec<u32> = got.keys().chain(want.keys()).copied().collect();
        keys.sort();
        keys.dedup();
        keys.iter()
            .map(|k| {
                let l = got.get(k).copied().unwrap_or(a.lit0);
                let r = want.get(k).copied().unwrap_or(a.lit0);
                (format!("{}[{}]", prefix, a.basis_names[*k as usize]), l, r)
            })
            .collect()
    })
}

pub struct SymVals<F0: Inner> {
    pub rng: rand_chacha::ChaChaRng,
    _p: core::marker::PhantomData<F0>,
}
impl<F0: Inner> SymVals<F0> {
    pub fn new(seed: u64) -> Self {
        SymVals { rng: rand_chacha::ChaChaRng::seed_from_u64(seed ^ 0x5eed), _p: Default::default() }
    }
}
impl<F0: Inner> Vals<SymF<F0>> for SymVals<F0> {
    fn fresh(&mut self, kind: &str) -> SymF<F0> {
        SymF::var(F0::rand(&mut self.rng), kind)
    }
}

/// Replay source: values by variable name from a solver model (rationals p/q), random otherwise.
pub struct PlainVals<F: PrimeField> {
    pub model: HashMap<String, String>,
    pub counters: HashMap<String, usize>,
    pub rng: rand_chacha::ChaChaRng,
    pub used_model: usize,
    _p: core::marker::PhantomData<F>,
}
impl<F: PrimeField> PlainVals<F> {
    pub fn new(model: HashMap<String, String>, seed: u64) -> Self {
        PlainVals { model, counters: HashMap::new(), rng: rand_chacha::ChaChaRng::seed_from_u64(seed ^ 0x5eed), used_model: 0, _p: Default::default() }
    }
}
pub fn parse_rational<F: PrimeField>(s: &str) -> Option<F> {
    use core::str::FromStr;
    let s = s.trim();
    let (neg, s) = if let Some(r) = s.strip_prefix('-') { (true, r) } else { (false, s) };
    let (p, q) = match s.split_once('/') {
        Some((p, q)) => (p, q),
        None => (s, "1"),
    };
    let big = |d: &str| -> Option<F> {
        let n = num_bigint::BigUint::from_str(d).ok()?;
        Some(F::from(n))
    };
    let (p, q) = (big(p)?, big(q)?);
    let qi = q.inverse()?;
    let v = p * qi;
    Some(if neg { -v } else { v })
}
impl<F: PrimeField> Vals<F> for PlainVals<F> {
    fn fresh(&mut self, kind: &str) -> F {
        let c = self.counters.entry(kind.to_string()).or_insert(0);
        let name = format!("{}{}", kind, *c);
        *c += 1;
        // keep the random stream aligned with the symbolic run whether or not a model value is used
        let r = F::rand(&mut self.rng);
        if let Some(v) = self.model.get(&name).and_then(|s| parse_rational::<F>(s)) {
            self.used_model += 1;
            return v;
        }
        r
    }
}

pub fn stats() -> serde_json::Value {
    arena::with(|a| {
        serde_json::json!({
            "terms": a.terms.len(), "points": a.points.len(), "bases": a.basis_names.len(),
            "events": a.events.len(), "challenges": a.chals.len(), "rng_draws": a.rng_draws.len(),
            "opaque_constants": a.opaque.len(),
        })
    })
}

/// All challenge variables squeezed so far (the "late" randomness).
pub fn challenge_vars() -> std::collections::HashSet<u32> {
    arena::with(|a| a.chals.iter().map(|c| c.tid).collect())
}

/// Expand every coefficient of `lin` as a Laurent polynomial in `late`; returns
/// (basis, monomial text, coefficient term) triples and the maximal late degree.
pub fn expand_lin(lin: &Lin, late: &std::collections::HashSet<u32>) -> Result<(Vec<(u32, crate::expand::Mono, String, u32)>, i32), String> {
    arena::with(|a| {
        let mut ex = crate::expand::Expander::new(a, late.clone());
        let mut out = vec![];
        let mut deg = 0;
        for (b, t) in lin.iter() {
            let p = ex.expand(*t)?;
            for (m, c) in p.iter() {
                deg = deg.max(crate::expand::Expander::degree(m));
                out.push((*b, m.clone(), ex.show_mono(m), *c));
            }
        }
        Ok((out, deg))
    })
}

/// Form (R): "there are early values, with at least one of `nonzero` non-zero, for which the
/// combined check vanishes for every value of the late randomness".  Expected `unsat`; a `sat`
/// model is a candidate accepted violation and is replayed natively.
pub fn rejection_query_group(name: &str, only_if_failed: &str, residual: &Lin, nonzero: &[u32], claim: &str) -> Result<Group, String> {
    // the late randomness: every challenge AND every nonce the prover drew from the transcript-bound RNG -- the party
    // choosing the error values / deviations controls neither, so a counter-model may not depend on particular nonces
    let mut late = challenge_vars();
    late.extend(arena::with(|a| a.rng_draws.iter().map(|d| d.0).collect::<Vec<u32>>()));
    for nz in nonzero {
        late.remove(nz);
    }
    let (coefs, deg) = expand_lin(residual, &late)?;
    arena::with(|a| {
        let mut roots: Vec<u32> = coefs.iter().map(|c| c.3).collect();
        roots.extend_from_slice(nonzero);
        let (pre, vars, ninv) = a.smt_preamble(&roots);
        let n_terms = a.reach(&roots).len();
        let items = coefs.iter().map(|(b, _m, ms, c)| Item { name: format!("[{}]{}", a.basis_names[*b as usize], ms), lhs: t(*c), rhs: "0.0".to_string() }).collect();
        let mut extra = vec![];
        if !nonzero.is_empty() {
            extra.push(format!("(assert (or {}))", nonzero.iter().map(|e| format!("(not (= t{} 0.0))", e)).collect::<Vec<_>>().join(" ")));
        }
        Ok(Group { name: name.to_string(), form: "R".into(), preamble: pre, items, vars, n_inverses: ninv, n_terms, claim: claim.to_string(), only_if_failed: Some(only_if_failed.to_string()), extra_asserts: extra, late_degree: deg, raw: vec![], n_syntactic: 0 })
    })
}
