use crate::arena::A;
use crate::field::{Inner, SymF};
use ark_ec::{AffineRepr, CurveConfig, CurveGroup, Group, ScalarMul, VariableBaseMSM};
use ark_ff::{BigInt, PrimeField};
use ark_serialize::*;
use ark_std::rand::{distributions::{Distribution, Standard}, Rng};
use core::fmt;
use core::hash::{Hash, Hasher};
use core::iter::Sum;
use core::marker::PhantomData;
use core::ops::*;
use num_traits::Zero;
use std::collections::BTreeMap;
use zeroize::Zeroize;

pub trait Base: AffineRepr where Self::ScalarField: Inner {}
impl<C: AffineRepr> Base for C where C::ScalarField: Inner {}

pub struct SymCfg<C>(PhantomData<C>);
impl<C: Base> CurveConfig for SymCfg<C> where C::ScalarField: Inner {
    type BaseField = C::BaseField;
    type ScalarField = SymF<C::ScalarField>;
    const COFACTOR: &'static [u64] = <C::Config as CurveConfig>::COFACTOR;
    const COFACTOR_INV: Self::ScalarField = SymF::lit(<C::Config as CurveConfig>::COFACTOR_INV);
}

/// Affine wrapper. id 0 = concrete point (identity or lazily a basis symbol)
pub struct SymA<C: Base> where C::ScalarField: Inner { pub p: C, pub id: u32 }
/// Projective wrapper
pub struct SymP<C: Base> where C::ScalarField: Inner { pub p: C::Group, pub id: u32 }

macro_rules! common {
    ($T:ident, $inner:ty) => {
        impl<C: Base> Copy for $T<C> where C::ScalarField: Inner {}
        impl<C: Base> Clone for $T<C> where C::ScalarField: Inner { fn clone(&self) -> Self { *self } }
        impl<C: Base> fmt::Debug for $T<C> where C::ScalarField: Inner { fn fmt(&self, f: &mut fmt::Formatter<'_>) -> fmt::Result { write!(f, "{:?}#{}", self.p, self.id) } }
        impl<C: Base> fmt::Display for $T<C> where C::ScalarField: Inner { fn fmt(&self, f: &mut fmt::Formatter<'_>) -> fmt::Result { write!(f, "{}#{}", self.p, self.id) } }
        impl<C: Base> PartialEq for $T<C> where C::ScalarField: Inner { fn eq(&self, o: &Self) -> bool {
            let r = self.p == o.p;
            if self.id != 0 || o.id != 0 {
                let (m, n) = (self.lin(), o.lin());
                let pos = merlin::vlog::len();
                A.with(|a| { let mut a = a.borrow_mut(); let d = a.padd(&m, &n, true); let ctx = a.ctx.clone(); a.events.push(crate::arena::Event { kind: "peq", ctx, lin: d, term: 0, outcome: r, merlin_pos: pos }); });
            }
            r
        } }
        impl<C: Base> Eq for $T<C> where C::ScalarField: Inner {}
        impl<C: Base> Hash for $T<C> where C::ScalarField: Inner { fn hash<H: Hasher>(&self, h: &mut H) { Hash::hash(&self.p, h) } }
        impl<C: Base> Default for $T<C> where C::ScalarField: Inner { fn default() -> Self { $T { p: <$inner>::default(), id: 0 } } }
        impl<C: Base> Zeroize for $T<C> where C::ScalarField: Inner { fn zeroize(&mut self) { self.p.zeroize(); self.id = 0; } }
        impl<C: Base> CanonicalSerialize for $T<C> where C::ScalarField: Inner {
            fn serialize_with_mode<W: Write>(&self, mut w: W, c: Compress) -> Result<(), SerializationError> {
                let mut buf = Vec::new();
                self.p.serialize_with_mode(&mut buf, c)?;
                let m = self.lin();
                A.with(|a| a.borrow_mut().ser_log.push((buf.clone(), crate::arena::SerObj::Point(m))));
                w.write_all(&buf).map_err(SerializationError::IoError)
            }
            fn serialized_size(&self, c: Compress) -> usize { self.p.serialized_size(c) }
        }
        impl<C: Base> Valid for $T<C> where C::ScalarField: Inner { fn check(&self) -> Result<(), SerializationError> { self.p.check() } }
        impl<C: Base> CanonicalDeserialize for $T<C> where C::ScalarField: Inner {
            fn deserialize_with_mode<R: Read>(r: R, c: Compress, v: Validate) -> Result<Self, SerializationError> { <$inner>::deserialize_with_mode(r, c, v).map(|p| $T { p, id: 0 }) }
        }
        impl<C: Base> Distribution<$T<C>> for Standard where C::ScalarField: Inner {
            fn sample<R: Rng + ?Sized>(&self, rng: &mut R) -> $T<C> { let p: $inner = <$inner as ark_ff::UniformRand>::rand(rng); $T { p, id: 0 } }
        }
    };
}
common!(SymA, C);
common!(SymP, C::Group);

fn affine_bytes<C: AffineRepr>(p: &C) -> Vec<u8> { let mut b = Vec::new(); p.serialize_uncompressed(&mut b).unwrap(); b }

impl<C: Base> SymA<C> where C::ScalarField: Inner {
    /// wrap a concrete point: it becomes an independent basis symbol on first use
    pub fn concrete(p: C) -> Self { SymA { p, id: 0 } }
    /// name the basis symbol of a concrete point (for readable evidence)
    pub fn name_basis(&self, name: &str) -> u32 {
        let bytes = affine_bytes(&self.p);
        A.with(|a| { let mut a = a.borrow_mut(); let b = a.basis_for(bytes); a.name_basis(b, name); b })
    }
    pub fn lin(&self) -> BTreeMap<u32, u32> {
        if self.id != 0 { return A.with(|a| a.borrow().points[self.id as usize].clone()); }
        if self.p.is_zero() { return BTreeMap::new(); }
        let bytes = affine_bytes(&self.p);
        A.with(|a| { let mut a = a.borrow_mut(); let b = a.basis_for(bytes); let one = a.lit1; let mut m = BTreeMap::new(); m.insert(b, one); m })
    }
}
impl<C: Base> SymP<C> where C::ScalarField: Inner {
    pub fn lin(&self) -> BTreeMap<u32, u32> { let a: SymA<C> = (*self).into(); a.lin() }
    fn mk(p: C::Group, m: BTreeMap<u32, u32>) -> Self { let id = A.with(|a| a.borrow_mut().new_point(m)); SymP { p, id } }
    fn scale(&self, s: &SymF<C::ScalarField>) -> Self {
        let m = self.lin(); let t = s.tid();
        let r = A.with(|a| a.borrow_mut().pscale(&m, t));
        Self::mk(self.p * s.v, r)
    }
    fn comb(&self, o: &Self, neg: bool) -> Self {
        let (m, n) = (self.lin(), o.lin());
        let r = A.with(|a| a.borrow_mut().padd(&m, &n, neg));
        Self::mk(if neg { self.p - o.p } else { self.p + o.p }, r)
    }
}
fn scalar_from_limbs<C: Base>(limbs: &[u64]) -> SymF<C::ScalarField> where C::ScalarField: Inner {
    let mut l = [0u64; 4];
    for (i, x) in limbs.iter().enumerate().take(4) { l[i] = *x; }
    let v = C::ScalarField::from_bigint(BigInt::<4>(l)).expect("scalar limbs < modulus");
    let id = A.with(|a| a.borrow().val2id.get(&l.to_vec()).copied().unwrap_or(0));
    SymF { v, id }
}

impl<C: Base> From<SymP<C>> for SymA<C> where C::ScalarField: Inner { fn from(g: SymP<C>) -> Self { SymA { p: g.p.into(), id: g.id } } }
impl<C: Base> From<SymA<C>> for SymP<C> where C::ScalarField: Inner { fn from(g: SymA<C>) -> Self { SymP { p: g.p.into(), id: g.id } } }

// ---- projective arithmetic
impl<C: Base> Zero for SymP<C> where C::ScalarField: Inner {
    fn zero() -> Self { SymP { p: C::Group::zero(), id: 0 } }
    fn is_zero(&self) -> bool {
        let r = self.p.is_zero();
        let m = self.lin();
        let pos = merlin::vlog::len();
        A.with(|a| { let mut a = a.borrow_mut(); let ctx = a.ctx.clone(); a.events.push(crate::arena::Event { kind: "pzero", ctx, lin: m, term: 0, outcome: r, merlin_pos: pos }); });
        r
    }
}
impl<C: Base> Neg for SymP<C> where C::ScalarField: Inner { type Output = Self; fn neg(self) -> Self { Self::zero().comb(&self, true) } }
impl<C: Base> Neg for SymA<C> where C::ScalarField: Inner { type Output = Self; fn neg(self) -> Self { (-SymP::from(self)).into() } }
macro_rules! padd {
    ($tr:ident, $m:ident, $tra:ident, $ma:ident, $neg:expr) => {
        impl<'a, C: Base> $tr<&'a SymP<C>> for SymP<C> where C::ScalarField: Inner { type Output = Self; fn $m(self, o: &Self) -> Self { self.comb(o, $neg) } }
        impl<C: Base> $tr<SymP<C>> for SymP<C> where C::ScalarField: Inner { type Output = Self; fn $m(self, o: Self) -> Self { self.comb(&o, $neg) } }
        impl<'a, C: Base> $tra<&'a SymP<C>> for SymP<C> where C::ScalarField: Inner { fn $ma(&mut self, o: &Self) { *self = self.comb(o, $neg); } }
        impl<C: Base> $tra<SymP<C>> for SymP<C> where C::ScalarField: Inner { fn $ma(&mut self, o: Self) { *self = self.comb(&o, $neg); } }
        impl<'a, C: Base> $tr<&'a SymA<C>> for SymP<C> where C::ScalarField: Inner { type Output = Self; fn $m(self, o: &SymA<C>) -> Self { self.comb(&(*o).into(), $neg) } }
        impl<C: Base> $tr<SymA<C>> for SymP<C> where C::ScalarField: Inner { type Output = Self; fn $m(self, o: SymA<C>) -> Self { self.comb(&o.into(), $neg) } }
        impl<'a, C: Base> $tra<&'a SymA<C>> for SymP<C> where C::ScalarField: Inner { fn $ma(&mut self, o: &SymA<C>) { *self = self.comb(&(*o).into(), $neg); } }
        impl<C: Base> $tra<SymA<C>> for SymP<C> where C::ScalarField: Inner { fn $ma(&mut self, o: SymA<C>) { *self = self.comb(&o.into(), $neg); } }
    };
}
padd!(Add, add, AddAssign, add_assign, false);
padd!(Sub, sub, SubAssign, sub_assign, true);
impl<C: Base> Mul<SymF<C::ScalarField>> for SymP<C> where C::ScalarField: Inner { type Output = Self; fn mul(self, s: SymF<C::ScalarField>) -> Self { self.scale(&s) } }
impl<'a, C: Base> Mul<&'a SymF<C::ScalarField>> for SymP<C> where C::ScalarField: Inner { type Output = Self; fn mul(self, s: &SymF<C::ScalarField>) -> Self { self.scale(s) } }
impl<C: Base> MulAssign<SymF<C::ScalarField>> for SymP<C> where C::ScalarField: Inner { fn mul_assign(&mut self, s: SymF<C::ScalarField>) { *self = self.scale(&s); } }
impl<'a, C: Base> MulAssign<&'a SymF<C::ScalarField>> for SymP<C> where C::ScalarField: Inner { fn mul_assign(&mut self, s: &SymF<C::ScalarField>) { *self = self.scale(s); } }
impl<C: Base> Sum<SymP<C>> for SymP<C> where C::ScalarField: Inner { fn sum<I: Iterator<Item = Self>>(it: I) -> Self { it.fold(Self::zero(), |a, b| a + b) } }
impl<'a, C: Base> Sum<&'a SymP<C>> for SymP<C> where C::ScalarField: Inner { fn sum<I: Iterator<Item = &'a Self>>(it: I) -> Self { it.fold(Self::zero(), |a, b| a + b) } }
impl<C: Base> Sum<SymA<C>> for SymP<C> where C::ScalarField: Inner { fn sum<I: Iterator<Item = SymA<C>>>(it: I) -> Self { it.fold(Self::zero(), |a, b| a + b) } }
impl<'a, C: Base> Sum<&'a SymA<C>> for SymP<C> where C::ScalarField: Inner { fn sum<I: Iterator<Item = &'a SymA<C>>>(it: I) -> Self { it.fold(Self::zero(), |a, b| a + b) } }

impl<C: Base> Group for SymP<C> where C::ScalarField: Inner {
    type ScalarField = SymF<C::ScalarField>;
    fn generator() -> Self { SymP { p: C::Group::generator(), id: 0 } }
    fn double_in_place(&mut self) -> &mut Self { *self = self.comb(&*self, false); self }
    fn mul_bigint(&self, other: impl AsRef<[u64]>) -> Self { let s = scalar_from_limbs::<C>(other.as_ref()); self.scale(&s) }
}
impl<C: Base> ScalarMul for SymP<C> where C::ScalarField: Inner {
    type MulBase = SymA<C>;
    const NEGATION_IS_CHEAP: bool = true;
    fn batch_convert_to_mul_base(bases: &[Self]) -> Vec<SymA<C>> { bases.iter().map(|b| (*b).into()).collect() }
}
impl<C: Base> VariableBaseMSM for SymP<C> where C::ScalarField: Inner {
    fn msm_unchecked(bases: &[SymA<C>], scalars: &[SymF<C::ScalarField>]) -> Self {
        let n = bases.len().min(scalars.len());
        let ib: Vec<C> = bases[..n].iter().map(|b| b.p).collect();
        let is: Vec<C::ScalarField> = scalars[..n].iter().map(|s| s.v).collect();
        let p = <C::Group as VariableBaseMSM>::msm_unchecked(&ib, &is);
        let mut m = BTreeMap::new();
        for i in 0..n {
            let bl = bases[i].lin(); let t = scalars[i].tid();
            m = A.with(|a| { let mut a = a.borrow_mut(); let sc = a.pscale(&bl, t); a.padd(&m, &sc, false) });
        }
        Self::mk(p, m)
    }
}
impl<C: Base> CurveGroup for SymP<C> where C::ScalarField: Inner {
    type Config = SymCfg<C>;
    type BaseField = C::BaseField;
    type Affine = SymA<C>;
    type FullGroup = SymA<C>;
    fn normalize_batch(v: &[Self]) -> Vec<SymA<C>> { v.iter().map(|b| (*b).into()).collect() }
}

// ---- affine
impl<C: Base> Add<SymA<C>> for SymA<C> where C::ScalarField: Inner { type Output = SymP<C>; fn add(self, o: Self) -> SymP<C> { SymP::from(self) + o } }
impl<'a, C: Base> Add<&'a SymA<C>> for SymA<C> where C::ScalarField: Inner { type Output = SymP<C>; fn add(self, o: &Self) -> SymP<C> { SymP::from(self) + *o } }
impl<C: Base> Add<SymP<C>> for SymA<C> where C::ScalarField: Inner { type Output = SymP<C>; fn add(self, o: SymP<C>) -> SymP<C> { SymP::from(self) + o } }
impl<'a, C: Base> Add<&'a SymP<C>> for SymA<C> where C::ScalarField: Inner { type Output = SymP<C>; fn add(self, o: &SymP<C>) -> SymP<C> { SymP::from(self) + *o } }
impl<C: Base> Mul<SymF<C::ScalarField>> for SymA<C> where C::ScalarField: Inner { type Output = SymP<C>; fn mul(self, s: SymF<C::ScalarField>) -> SymP<C> { SymP::from(self).scale(&s) } }
impl<'a, C: Base> Mul<&'a SymF<C::ScalarField>> for SymA<C> where C::ScalarField: Inner { type Output = SymP<C>; fn mul(self, s: &SymF<C::ScalarField>) -> SymP<C> { SymP::from(self).scale(s) } }

impl<C: Base> AffineRepr for SymA<C> where C::ScalarField: Inner {
    type Config = SymCfg<C>;
    type ScalarField = SymF<C::ScalarField>;
    type BaseField = C::BaseField;
    type Group = SymP<C>;
    fn xy(&self) -> Option<(&Self::BaseField, &Self::BaseField)> { self.p.xy() }
    fn zero() -> Self { SymA { p: C::zero(), id: 0 } }
    fn is_zero(&self) -> bool {
        let r = self.p.is_zero();
        let m = self.lin();
        let pos = merlin::vlog::len();
        A.with(|a| { let mut a = a.borrow_mut(); let ctx = a.ctx.clone(); a.events.push(crate::arena::Event { kind: "pzero", ctx, lin: m, term: 0, outcome: r, merlin_pos: pos }); });
        r
    }
    fn generator() -> Self { SymA { p: C::generator(), id: 0 } }
    fn from_random_bytes(b: &[u8]) -> Option<Self> { C::from_random_bytes(b).map(|p| SymA { p, id: 0 }) }
    fn mul_bigint(&self, by: impl AsRef<[u64]>) -> SymP<C> { let s = scalar_from_limbs::<C>(by.as_ref()); SymP::from(*self).scale(&s) }
    fn clear_cofactor(&self) -> Self { SymA { p: self.p.clear_cofactor(), id: self.id } }
    fn mul_by_cofactor_to_group(&self) -> SymP<C> { SymP { p: self.p.mul_by_cofactor_to_group(), id: self.id } }
}
