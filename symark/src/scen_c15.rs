//! C15: denotation of linear-combination expressions built with the real operators.
use crate::arena;
use crate::field::{Inner, SymF};
use crate::group::Base;
use crate::job::*;
use crate::r1cs::Vals;
use ark_bulletproofs::r1cs::Variable;
use ark_ff::{One, Zero};
use rand::Rng;
use rand_core::SeedableRng;

pub fn tree_cases<F: ark_ff::PrimeField>(batch: u64, ntrees: usize, seed: u64, vals: &mut dyn Vals<F>) -> Vec<(crate::expr::E<F>, Vec<Variable<F>>, Vec<F>)> {
    let mut rng = rand_chacha::ChaChaRng::seed_from_u64(seed.wrapping_mul(7919) ^ batch ^ 0xc15);
    let handles: Vec<Variable<F>> = vec![Variable::Committed(0), Variable::Committed(1), Variable::MultiplierLeft(0), Variable::MultiplierRight(0), Variable::MultiplierOutput(0), Variable::MultiplierLeft(1)];
    let mut out = vec![];
    for t in 0..ntrees {
        let nv = 1 + (t % handles.len());
        let depth = t % 4;
        let assignment: Vec<F> = (0..nv).map(|_| vals.fresh("x")).collect();
        let tree = {
            let mut coef = |r: &mut rand_chacha::ChaChaRng| -> F {
                match r.gen_range(0..8u32) {
                    0 => F::zero(),
                    1 | 2 => F::one(),
                    3 => -F::one(),
                    4 => F::from(3u64),
                    _ => vals.fresh("c"),
                }
            };
            crate::expr::random_tree::<F>(&mut rng, nv, depth, &mut coef)
        };
        out.push((tree, handles[..nv].to_vec(), assignment));
    }
    out
}

pub fn job_c15_denotation<C: Base + 'static>(batch: u64, ntrees: usize, seed: u64, curve: &str) -> Job
where
    C::ScalarField: Inner,
{
    arena::reset();
    arena::set_ctx("c15");
    let mut job = Job { property: "C15".into(), scenario: format!("C15:denotation{}:{}", batch, curve), curve: curve.into(), seed, ..Default::default() };
    let mut vals = SymVals::<C::ScalarField>::new(seed ^ batch);
    let cases = tree_cases::<SymF<C::ScalarField>>(batch, ntrees, seed, &mut vals);
    let mut items = vec![];
    let mut shapes = vec![];
    let mut shadow_ok = true;
    for (k, (tree, handles, assignment)) in cases.iter().enumerate() {
        let lc = crate::expr::build(tree, handles);
        // denotation of the combination the real operators built
        let mut got = SymF::<C::ScalarField>::zero();
        for (var, coeff) in lc.verif_terms() {
            let x = match var {
                Variable::One() => SymF::one(),
                v => {
                    let idx = handles.iter().position(|h| h == v);
                    match idx {
                        Some(i) => assignment[i],
                        None => {
                            job.inconclusive.push(format!("tree {}: term on an unknown variable", k));
                            SymF::zero()
                        }
                    }
                }
            };
            got += *coeff * x;
        }
        let want = crate::expr::eval(tree, assignment);
        shadow_ok &= got.v == want.v;
        items.push((format!("tree{}: {}", k, crate::expr::show(tree)), got.tid(), want.tid()));
        if shapes.len() < 6 {
            shapes.push(crate::expr::show(tree));
        }
    }
    job.shape = serde_json::json!({"trees": ntrees, "examples": shapes});
    job.check("denotations agree on the shadow field", shadow_ok, String::new());
    job.groups.push(identity_group("lc_denotation", "I", "for every expression tree of the batch, sum(coeff*value) over the terms of the LinearCombination built by the real operators equals the value the tree spells, for all coefficient and variable values", items));
    arena::with(|a| {
        if !a.opaque.is_empty() {
            job.inconclusive.push(format!("opaque constants: {:?}", &a.opaque[..a.opaque.len().min(3)]));
        }
    });
    job.stats = stats();
    job.replay = serde_json::json!({"kind": "c15", "batch": batch, "ntrees": ntrees, "seed": seed});
    job
}
