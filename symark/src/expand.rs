//! Partial expansion of a term as a Laurent polynomial in a set of "late" variables (challenges,
//! batch weights).  Only the late-variable structure is expanded; coefficients stay DAG terms
//! over the remaining ("early") variables, so that the solver -- not this code -- decides what
//! the coefficients are equal to.  Pure ring rewriting: valid in every commutative ring in which
//! the inverted late monomials are units.
use crate::arena::{Arena, Term};
use std::collections::{BTreeMap, HashMap, HashSet};
use std::rc::Rc;

pub type Mono = Vec<(u32, i32)>; // (late variable term id, exponent != 0), sorted by id
pub type Poly = BTreeMap<Mono, u32>; // monomial -> coefficient term id (never lit0)

fn mono_mul(a: &Mono, b: &Mono) -> Mono {
    let mut out: Mono = Vec::with_capacity(a.len() + b.len());
    let (mut i, mut j) = (0, 0);
    while i < a.len() || j < b.len() {
        if j >= b.len() || (i < a.len() && a[i].0 < b[j].0) {
            out.push(a[i]);
            i += 1;
        } else if i >= a.len() || b[j].0 < a[i].0 {
            out.push(b[j]);
            j += 1;
        } else {
            let e = a[i].1 + b[j].1;
            if e != 0 {
                out.push((a[i].0, e));
            }
            i += 1;
            j += 1;
        }
    }
    out
}

pub struct Expander<'a> {
    pub a: &'a mut Arena,
    pub late: HashSet<u32>,
    memo: HashMap<u32, Rc<Poly>>,
    pub max_monos: usize,
}

impl<'a> Expander<'a> {
    pub fn new(a: &'a mut Arena, late: HashSet<u32>) -> Self {
        Expander { a, late, memo: HashMap::new(), max_monos: 200_000 }
    }
    fn constant(&self, t: u32) -> Poly {
        let mut p = Poly::new();
        if t != self.a.lit0 {
            p.insert(vec![], t);
        }
        p
    }
    fn is_const(p: &Poly) -> bool {
        p.is_empty() || (p.len() == 1 && p.keys().next().unwrap().is_empty())
    }
    fn add_into(&mut self, acc: &mut Poly, m: &Mono, c: u32, neg: bool) {
        let cur = acc.get(m).copied().unwrap_or(self.a.lit0);
        let nv = if neg { self.a.sub(cur, c) } else { self.a.add(cur, c) };
        if nv == self.a.lit0 {
            acc.remove(m);
        } else {
            acc.insert(m.clone(), nv);
        }
    }
    pub fn expand(&mut self, t: u32) -> Result<Rc<Poly>, String> {
        if let Some(p) = self.memo.get(&t) {
            return Ok(p.clone());
        }
        let term = self.a.terms[t as usize].clone();
        let p: Poly = match term {
            Term::Var(_) => {
                if self.late.contains(&t) {
                    let mut p = Poly::new();
                    p.insert(vec![(t, 1)], self.a.lit1);
                    p
                } else {
                    self.constant(t)
                }
            }
            Term::Lit(_) => self.constant(t),
            Term::Add(x, y) | Term::Sub(x, y) => {
                let neg = matches!(term, Term::Sub(_, _));
                let px = self.expand(x)?;
                let py = self.expand(y)?;
                if Self::is_const(&px) && Self::is_const(&py) {
                    self.constant(t)
                } else {
                    let mut acc = (*px).clone();
                    for (m, c) in py.iter() {
                        self.add_into(&mut acc, m, *c, neg);
                    }
                    acc
                }
            }
            Term::Neg(x) => {
                let px = self.expand(x)?;
                if Self::is_const(&px) {
                    self.constant(t)
                } else {
                    let mut acc = Poly::new();
                    for (m, c) in px.iter() {
                        let n = self.a.neg(*c);
                        acc.insert(m.clone(), n);
                    }
                    acc
                }
            }
            Term::Mul(x, y) => {
                let px = self.expand(x)?;
                let py = self.expand(y)?;
                if Self::is_const(&px) && Self::is_const(&py) {
                    self.constant(t)
                } else {
                    if px.len() * py.len() > self.max_monos {
                        return Err(format!("expansion too large: {} x {} monomials", px.len(), py.len()));
                    }
                    let mut acc = Poly::new();
                    for (mx, cx) in px.iter() {
                        for (my, cy) in py.iter() {
                            let m = mono_mul(mx, my);
                            let c = self.a.mul(*cx, *cy);
                            self.add_into(&mut acc, &m, c, false);
                        }
                    }
                    acc
                }
            }
            Term::Inv(x) => {
                let px = self.expand(x)?;
                if Self::is_const(&px) {
                    self.constant(t)
                } else if px.len() == 1 {
                    let (m, c) = px.iter().next().unwrap();
                    let mi: Mono = m.iter().map(|(v, e)| (*v, -*e)).collect();
                    let ci = self.a.inv(*c);
                    let mut p = Poly::new();
                    p.insert(mi, ci);
                    p
                } else {
                    return Err(format!("inverse of a non-monomial in the late variables: {}", self.a.show(x, 3)));
                }
            }
        };
        let rc = Rc::new(p);
        self.memo.insert(t, rc.clone());
        Ok(rc)
    }
    pub fn show_mono(&self, m: &Mono) -> String {
        if m.is_empty() {
            return "1".into();
        }
        m.iter()
            .map(|(v, e)| {
                let n = self.a.var_name(*v).unwrap_or("?").to_string();
                if *e == 1 {
                    n
                } else {
                    format!("{}^{}", n, e)
                }
            })
            .collect::<Vec<_>>()
            .join("*")
    }
    pub fn degree(m: &Mono) -> i32 {
        m.iter().map(|(_, e)| e.abs()).sum()
    }
}
