import z3, sys, time
n=int(sys.argv[1]); mode=sys.argv[2]  # mode: div | var
R=z3.Real
def vec(p,n): return [R(f"{p}{i}") for i in range(n)]
a=vec("a",n); b=vec("b",n)
# points: dict basis->coef
def padd(p,q):
    r=dict(p)
    for k,v in q.items(): r[k]=r.get(k,0)+v
    return r
def pmul(s,p): return {k:s*v for k,v in p.items()}
def msm(ss,ps):
    r={}
    for s,p in zip(ss,ps): r=padd(r,pmul(s,p))
    return r
G=[{f"G{i}":z3.RealVal(1)} for i in range(n)]
H=[{f"H{i}":z3.RealVal(1)} for i in range(n)]
Q={"Q":z3.RealVal(1)}
def ip(x,y): return sum(xi*yi for xi,yi in zip(x,y))
P=padd(padd(msm(a,G),msm(b,H)),pmul(ip(a,b),Q))
Ls=[];Rs=[];us=[];uinvs=[]
assump=[]
m=n;k=0
A=a[:];B=b[:];GG=G[:];HH=H[:]
while m!=1:
    m//=2
    aL,aR=A[:m],A[m:]; bL,bR=B[:m],B[m:]; GL,GR=GG[:m],GG[m:]; HL,HR=HH[:m],HH[m:]
    cL=ip(aL,bR); cR=ip(aR,bL)
    L=padd(padd(msm(aL,GR),msm(bR,HL)),pmul(cL,Q))
    Rr=padd(padd(msm(aR,GL),msm(bL,HR)),pmul(cR,Q))
    u=R(f"u{k}")
    if mode=="div":
        ui=1/u; assump.append(u!=0)
    else:
        ui=R(f"ui{k}"); assump.append(u*ui==1)
    k+=1
    Ls.append(L);Rs.append(Rr);us.append(u);uinvs.append(ui)
    A=[aL[i]*u+ui*aR[i] for i in range(m)]
    B=[bL[i]*ui+u*bR[i] for i in range(m)]
    GG=[padd(pmul(ui,GL[i]),pmul(u,GR[i])) for i in range(m)]
    HH=[padd(pmul(u,HL[i]),pmul(ui,HR[i])) for i in range(m)]
af,bf=A[0],B[0]
# verifier s
lg=len(us)
allinv=1
for ui in uinvs: allinv=allinv*ui
usq=[u*u for u in us]; uisq=[ui*ui for ui in uinvs]
s=[allinv]
for i in range(1,n):
    lgi=i.bit_length()-1; kk=1<<lgi
    s.append(s[i-kk]*usq[(lg-1)-lgi])
exp=pmul(af*bf,Q)
exp=padd(exp,msm([af*si for si in s],G))
exp=padd(exp,msm([bf*si for si in reversed(s)],H))
exp=padd(exp,msm([-x for x in usq],Ls))
exp=padd(exp,msm([-x for x in uisq],Rs))
# want exp == P coefficientwise
keys=set(exp)|set(P)
t0=time.time()
tot=0
for key in sorted(keys):
    sol=z3.Solver() if len(sys.argv)<4 else z3.Tactic(sys.argv[3]).solver()
    sol.set("timeout",60000)
    for c in assump: sol.add(c)
    sol.add(exp.get(key,z3.RealVal(0))!=P.get(key,z3.RealVal(0)))
    t=time.time(); r=sol.check(); dt=time.time()-t
    print(key,r,round(dt,2)); sys.stdout.flush()
print("total",time.time()-t0)
