import sympy, itertools
def order(p,a,b):
    # naive count
    sq={}
    for y in range(p): sq.setdefault(y*y%p,[]).append(y)
    n=1
    for x in range(p):
        n+=len(sq.get((x*x*x+a*x+b)%p,[]))
    return n
def primroot(p): return int(sympy.primitive_root(p))
for p in [251, 1021, 4093, 65521]:
    if not sympy.isprime(p): continue
    found=0
    for a in (0,1,2,3,6):
      for b in range(1,60):
        if (4*a**3+27*b*b)%p==0: continue
        n=order(p,a,b)
        if sympy.isprime(n) and n!=p:
            # generator point
            for x in range(p):
                rhs=(x**3+a*x+b)%p
                ys=[y for y in range(p) if y*y%p==rhs]
                if ys: break
            print(dict(p=p,a=a,b=b,r=n,gx=x,gy=ys[0],gen_p=primroot(p),gen_r=primroot(n)))
            found+=1
            if found>=2: break
      if found>=2: break
