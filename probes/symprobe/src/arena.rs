use std::cell::RefCell;
use std::collections::{BTreeMap, HashMap};

#[derive(Clone, Debug, PartialEq, Eq, Hash)]
pub enum Term {
    Var(String),
    Lit(String), // decimal integer, possibly negative
    Add(u32, u32),
    Sub(u32, u32),
    Mul(u32, u32),
    Neg(u32),
    Inv(u32),
}

#[derive(Default)]
pub struct Arena {
    pub terms: Vec<Term>,          // index 0 unused
    pub intern: HashMap<Term, u32>,
    pub points: Vec<BTreeMap<u32, u32>>, // index 0 unused; basis id -> term id
    pub basis: HashMap<Vec<u8>, u32>,
    pub basis_names: Vec<String>,
    pub val2id: HashMap<Vec<u64>, u32>,
    pub chal: HashMap<Vec<u64>, u32>, // concrete bigint limbs -> term id (last registered)
    pub zero_tests: Vec<(BTreeMap<u32, u32>, bool)>,
    pub nvars: u32,
    pub lit0: u32,
    pub lit1: u32,
}

thread_local! { pub static A: RefCell<Arena> = RefCell::new(Arena::new()); }

impl Arena {
    pub fn new() -> Self {
        let mut a = Arena::default();
        a.terms.push(Term::Lit("0".into()));
        a.points.push(BTreeMap::new());
        a.lit0 = a.mk(Term::Lit("0".into()));
        a.lit1 = a.mk(Term::Lit("1".into()));
        a
    }
    pub fn mk(&mut self, t: Term) -> u32 {
        if let Some(&i) = self.intern.get(&t) { return i; }
        let i = self.terms.len() as u32;
        self.terms.push(t.clone());
        self.intern.insert(t, i);
        i
    }
    pub fn add(&mut self, a: u32, b: u32) -> u32 {
        if a == self.lit0 { return b; }
        if b == self.lit0 { return a; }
        self.mk(Term::Add(a, b))
    }
    pub fn sub(&mut self, a: u32, b: u32) -> u32 {
        if b == self.lit0 { return a; }
        if a == self.lit0 { return self.neg(b); }
        if a == b { return self.lit0; }
        self.mk(Term::Sub(a, b))
    }
    pub fn mul(&mut self, a: u32, b: u32) -> u32 {
        if a == self.lit0 || b == self.lit0 { return self.lit0; }
        if a == self.lit1 { return b; }
        if b == self.lit1 { return a; }
        self.mk(Term::Mul(a, b))
    }
    pub fn neg(&mut self, a: u32) -> u32 {
        if a == self.lit0 { return a; }
        if let Term::Neg(x) = self.terms[a as usize] { return x; }
        self.mk(Term::Neg(a))
    }
    pub fn inv(&mut self, a: u32) -> u32 {
        if a == self.lit1 { return a; }
        self.mk(Term::Inv(a))
    }
    pub fn fresh(&mut self, prefix: &str) -> u32 {
        self.nvars += 1;
        let n = format!("{}_{}", prefix, self.nvars);
        self.mk(Term::Var(n))
    }
    pub fn padd(&mut self, p: &BTreeMap<u32, u32>, q: &BTreeMap<u32, u32>, negq: bool) -> BTreeMap<u32, u32> {
        let mut r = p.clone();
        for (k, v) in q.iter() {
            let cur = r.get(k).copied().unwrap_or(self.lit0);
            let nv = if negq { self.sub(cur, *v) } else { self.add(cur, *v) };
            r.insert(*k, nv);
        }
        r
    }
    pub fn pscale(&mut self, p: &BTreeMap<u32, u32>, s: u32) -> BTreeMap<u32, u32> {
        let mut r = BTreeMap::new();
        for (k, v) in p.iter() { let nv = self.mul(*v, s); r.insert(*k, nv); }
        r
    }
    pub fn new_point(&mut self, m: BTreeMap<u32, u32>) -> u32 {
        self.points.push(m);
        (self.points.len() - 1) as u32
    }
    pub fn basis_for(&mut self, bytes: Vec<u8>) -> u32 {
        if let Some(&b) = self.basis.get(&bytes) { return b; }
        let b = self.basis_names.len() as u32;
        self.basis_names.push(format!("P{}", b));
        self.basis.insert(bytes, b);
        b
    }
    /// SMT-LIB for: exists assignment s.t. some coefficient of zero test `idx` is nonzero
    pub fn smt_zero_test(&self, idx: usize) -> String {
        let mut out = String::from("(set-logic ALL)\n");
        let (m, _) = &self.zero_tests[idx];
        // collect reachable terms
        let mut need = vec![false; self.terms.len()];
        let mut stack: Vec<u32> = m.values().copied().collect();
        while let Some(t) = stack.pop() {
            if need[t as usize] { continue; }
            need[t as usize] = true;
            match &self.terms[t as usize] {
                Term::Add(a, b) | Term::Sub(a, b) | Term::Mul(a, b) => { stack.push(*a); stack.push(*b); }
                Term::Neg(a) | Term::Inv(a) => stack.push(*a),
                _ => {}
            }
        }
        let mut asserts = String::new();
        for (i, t) in self.terms.iter().enumerate() {
            if !need[i] { continue; }
            match t {
                Term::Var(n) => out += &format!("(declare-const t{} Real) ; {}\n", i, n),
                Term::Lit(s) => {
                    let lit = if let Some(x) = s.strip_prefix('-') { format!("(- {}.0)", x) } else { format!("{}.0", s) };
                    out += &format!("(define-fun t{} () Real {})\n", i, lit)
                }
                Term::Add(a, b) => out += &format!("(define-fun t{} () Real (+ t{} t{}))\n", i, a, b),
                Term::Sub(a, b) => out += &format!("(define-fun t{} () Real (- t{} t{}))\n", i, a, b),
                Term::Mul(a, b) => out += &format!("(define-fun t{} () Real (* t{} t{}))\n", i, a, b),
                Term::Neg(a) => out += &format!("(define-fun t{} () Real (- t{}))\n", i, a),
                Term::Inv(a) => {
                    out += &format!("(declare-const t{} Real)\n", i);
                    asserts += &format!("(assert (= (* t{} t{}) 1.0))\n", i, a);
                }
            }
        }
        out += &asserts;
        out += "(assert (or";
        for v in m.values() { out += &format!(" (not (= t{} 0.0))", v); }
        out += "))\n(check-sat)\n";
        out
    }
}
