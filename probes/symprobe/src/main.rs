#![allow(non_snake_case)]
mod arena; mod field; mod group;
use ark_bulletproofs::{r1cs::*, BulletproofGens, PedersenGens};
use ark_ff::UniformRand;
use field::SymF; use group::SymA;
use merlin::Transcript;
use rand_core::SeedableRng;

type C = ark_secq256k1::Affine;
type G = SymA<C>;
type F = SymF<ark_secq256k1::Fr>;

struct ExtRng(rand_chacha::ChaChaRng);
impl rand_core::RngCore for ExtRng {
    fn next_u32(&mut self) -> u32 { self.0.next_u32() } fn next_u64(&mut self) -> u64 { self.0.next_u64() }
    fn fill_bytes(&mut self, d: &mut [u8]) { self.0.fill_bytes(d) } fn try_fill_bytes(&mut self, d: &mut [u8]) -> Result<(), rand_core::Error> { self.0.try_fill_bytes(d) }
}
impl rand_core::CryptoRng for ExtRng {}

fn gadget<CS: ConstraintSystem<F>>(cs: &mut CS, v: Variable<F>, w: Option<(F, F)>, coefs: &[F], c: F) {
    // two multipliers, one generic constraint
    let (l0, r0, o0) = cs.allocate_multiplier(w).unwrap();
    let (l1, _r1, o1) = cs.multiply(l0 + o0, r0 + v);
    let lc = l0 * coefs[0] + r0 * coefs[1] + o0 * coefs[2] + l1 * coefs[3] + o1 * coefs[4] + v * coefs[5] + LinearCombination::from(c);
    cs.constrain(lc);
}

fn main() {
    let pc = PedersenGens::<G>::default();
    let bp = BulletproofGens::<G>::new(4, 1);
    let mut ext = ExtRng(rand_chacha::ChaChaRng::from_seed([7u8; 32]));
    let vv = F::rand(&mut ext); let vb = F::rand(&mut ext);
    let a = F::rand(&mut ext); let b = F::rand(&mut ext);
    let coefs: Vec<F> = (0..6).map(|_| F::rand(&mut ext)).collect();
    // satisfy the constraint by solving for the constant
    let o0 = a * b; let l1 = a + o0; let r1 = b + vv; let o1 = l1 * r1;
    let c = -(a * coefs[0] + b * coefs[1] + o0 * coefs[2] + l1 * coefs[3] + o1 * coefs[4] + vv * coefs[5]);
    let mut pt = Transcript::new(b"t");
    let mut prover = Prover::new(&pc, &mut pt);
    let (V, var) = prover.commit(vv, vb);
    gadget(&mut prover, var, Some((a, b)), &coefs, c);
    let proof = prover.prove(&mut ext, &bp).unwrap();
    let mut vt = Transcript::new(b"t");
    let mut ver = Verifier::new(&mut vt);
    let var = ver.commit(V);
    gadget(&mut ver, var, None, &coefs, c);
    let res = ver.verify(&proof, &pc, &bp);
    println!("concrete verdict: {:?}", res.is_ok());
    arena::A.with(|a| {
        let a = a.borrow();
        println!("terms {} points {} zero_tests {} bases {}", a.terms.len(), a.points.len(), a.zero_tests.len(), a.basis_names.len());
        let last = a.zero_tests.len() - 1;
        println!("last zero test: {} coefs, concrete {}", a.zero_tests[last].0.len(), a.zero_tests[last].1);
        std::fs::write("/tmp/probe/sym/q.smt2", a.smt_zero_test(last)).unwrap();
    });
}
