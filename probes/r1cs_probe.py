# Python/z3 mock of the R1CS prover+verifier algebra (1-phase + 2-phase), generic constraint matrices.
import z3, sys, time, itertools
R=z3.Real
n1=int(sys.argv[1]); n2=int(sys.argv[2]); m=int(sys.argv[3]); Q=int(sys.argv[4])
n=n1+n2
pn=1
while pn<n: pn*=2
pad=pn-n
Z=z3.RealVal(0); ONE=z3.RealVal(1)
def padd(p,q):
    r=dict(p)
    for k,v in q.items(): r[k]=r.get(k,Z)+v
    return r
def pmul(s,p): return {k:s*v for k,v in p.items()}
def msm(ss,ps):
    r={}
    for s,p in zip(ss,ps): r=padd(r,pmul(s,p))
    return r
def ip(x,y):
    r=Z
    for xi,yi in zip(x,y): r=r+xi*yi
    return r
B={"B":ONE}; Bb={"Bb":ONE}
G=[{f"G{i}":ONE} for i in range(pn)]
H=[{f"H{i}":ONE} for i in range(pn)]
assump=[]
def inv(x,name):
    xi=R(name); assump.append(x*xi==1); return xi
# witness
aL=[R(f"aL{i}") for i in range(n)]; aR=[R(f"aR{i}") for i in range(n)]
aO=[aL[i]*aR[i] for i in range(n)]
v=[R(f"v{j}") for j in range(m)]; vb=[R(f"vb{j}") for j in range(m)]
V=[padd(pmul(v[j],B),pmul(vb[j],Bb)) for j in range(m)]
# constraints: generic coefficients; constant chosen to satisfy
WL=[[R(f"WL{q}_{i}") for i in range(n)] for q in range(Q)]
WR=[[R(f"WR{q}_{i}") for i in range(n)] for q in range(Q)]
WO=[[R(f"WO{q}_{i}") for i in range(n)] for q in range(Q)]
WV=[[R(f"WV{q}_{j}") for j in range(m)] for q in range(Q)]
err=[R(f"err{q}") for q in range(Q)]  # violation amount
C=[ err[q]-(ip(WL[q],aL)+ip(WR[q],aR)+ip(WO[q],aO)+ip(WV[q],v)) for q in range(Q)]  # lc = ... + C*1 ; value = err
# prover
def rnd(name): return R(name)
ib1,ob1,sb1=rnd("ib1"),rnd("ob1"),rnd("sb1")
sL=[rnd(f"sL{i}") for i in range(n)]; sR=[rnd(f"sR{i}") for i in range(n)]
AI1=padd(pmul(ib1,Bb),padd(msm(aL[:n1],G[:n1]),msm(aR[:n1],H[:n1])))
AO1=padd(pmul(ob1,Bb),msm(aO[:n1],G[:n1]))
S1=padd(pmul(sb1,Bb),padd(msm(sL[:n1],G[:n1]),msm(sR[:n1],H[:n1])))
if n2>0:
    ib2,ob2,sb2=rnd("ib2"),rnd("ob2"),rnd("sb2")
    AI2=padd(pmul(ib2,Bb),padd(msm(aL[n1:],G[n1:n]),msm(aR[n1:],H[n1:n])))
    AO2=padd(pmul(ob2,Bb),msm(aO[n1:],G[n1:n]))
    S2=padd(pmul(sb2,Bb),padd(msm(sL[n1:],G[n1:n]),msm(sR[n1:],H[n1:n])))
else:
    ib2=ob2=sb2=Z; AI2={};AO2={};S2={}
y=R("y"); z=R("z"); yinv=inv(y,"yinv")
def flatten():
    wL=[Z]*n; wR=[Z]*n; wO=[Z]*n; wV=[Z]*m; wc=Z
    ez=z
    for q in range(Q):
        for i in range(n):
            wL[i]=wL[i]+ez*WL[q][i]; wR[i]=wR[i]+ez*WR[q][i]; wO[i]=wO[i]+ez*WO[q][i]
        for j in range(m): wV[j]=wV[j]-ez*WV[q][j]
        wc=wc-ez*C[q]
        ez=ez*z
    return wL,wR,wO,wV,wc
wL,wR,wO,wV,wc=flatten()
expy=[ONE]; expyinv=[ONE]
for i in range(1,pn+1): expy.append(expy[-1]*y); expyinv.append(expyinv[-1]*yinv)
l1=[aL[i]+expyinv[i]*wR[i] for i in range(n)]; l2=aO[:]; l3=sL[:]
r0=[wO[i]-expy[i] for i in range(n)]; r1=[expy[i]*aR[i]+wL[i] for i in range(n)]; r3=[expy[i]*sR[i] for i in range(n)]
t1=ip(l1,r0); t2=ip(l1,r1)+ip(l2,r0); t3=ip(l2,r1)+ip(l3,r0); t4=ip(l1,r3)+ip(l3,r1); t5=ip(l2,r3); t6=ip(l3,r3)
tb={k:rnd(f"tb{k}") for k in (1,3,4,5,6)}
T={k:padd(pmul(tv,B),pmul(tb[k],Bb)) for k,tv in ((1,t1),(3,t3),(4,t4),(5,t5),(6,t6))}
u=R("u"); x=R("x")
tb2=ip(wV,vb)
def poly6(c,x): return x*(c[1]+x*(c[2]+x*(c[3]+x*(c[4]+x*(c[5]+x*c[6])))))
t_x=poly6({1:t1,2:t2,3:t3,4:t4,5:t5,6:t6},x)
t_xb=poly6({1:tb[1],2:tb2,3:tb[3],4:tb[4],5:tb[5],6:tb[6]},x)
lv=[x*(l1[i]+x*(l2[i]+x*l3[i])) for i in range(n)]+[Z]*pad
rv=[r0[i]+x*(r1[i]+x*(x*r3[i])) for i in range(n)]+[-expy[i] for i in range(n,pn)]
ibl=ib1+u*ib2; obl=ob1+u*ob2; sbl=sb1+u*sb2
e_b=x*(ibl+x*(obl+x*sbl))
w=R("w"); Qp=pmul(w,B)
Gf=[ONE]*n1+[u]*(n2+pad); Hf=[expyinv[i]*Gf[i] for i in range(pn)]
# IPP create
def ipp_create(Qp,Gf,Hf,Gv,Hv,a,b):
    Ls=[];Rs=[];us=[];uis=[]
    mm=len(a); k=0
    A=a[:];Bv=b[:];GG=Gv[:];HH=Hv[:]
    first=True
    while mm!=1:
        mm//=2
        aLh,aRh=A[:mm],A[mm:]; bLh,bRh=Bv[:mm],Bv[mm:]; GL,GR=GG[:mm],GG[mm:]; HL,HR=HH[:mm],HH[mm:]
        cL=ip(aLh,bRh); cR=ip(aRh,bLh)
        if first:
            L=padd(padd(msm([aLh[i]*Gf[mm+i] for i in range(mm)],GR),msm([bRh[i]*Hf[i] for i in range(mm)],HL)),pmul(cL,Qp))
            Rr=padd(padd(msm([aRh[i]*Gf[i] for i in range(mm)],GL),msm([bLh[i]*Hf[mm+i] for i in range(mm)],HR)),pmul(cR,Qp))
        else:
            L=padd(padd(msm(aLh,GR),msm(bRh,HL)),pmul(cL,Qp))
            Rr=padd(padd(msm(aRh,GL),msm(bLh,HR)),pmul(cR,Qp))
        uu=R(f"ui_{k}"); ui=inv(uu,f"uinv_{k}"); k+=1
        Ls.append(L);Rs.append(Rr);us.append(uu);uis.append(ui)
        A=[aLh[i]*uu+ui*aRh[i] for i in range(mm)]
        Bv=[bLh[i]*ui+uu*bRh[i] for i in range(mm)]
        if first:
            GG=[padd(pmul(ui*Gf[i],GL[i]),pmul(uu*Gf[mm+i],GR[i])) for i in range(mm)]
            HH=[padd(pmul(uu*Hf[i],HL[i]),pmul(ui*Hf[mm+i],HR[i])) for i in range(mm)]
        else:
            GG=[padd(pmul(ui,GL[i]),pmul(uu,GR[i])) for i in range(mm)]
            HH=[padd(pmul(uu,HL[i]),pmul(ui,HR[i])) for i in range(mm)]
        first=False
    return Ls,Rs,A[0],Bv[0],us,uis
Ls,Rs,af,bf,us,uis=ipp_create(Qp,Gf,Hf,G,H,lv,rv)
# verifier
lg=len(us)
allinv=ONE
for ui in uis: allinv=allinv*ui
usq=[c*c for c in us]; uisq=[c*c for c in uis]
s=[allinv]
for i in range(1,pn):
    lgi=i.bit_length()-1; kk=1<<lgi
    s.append(s[i-kk]*usq[(lg-1)-lgi])
ynegwR=[wR[i]*expyinv[i] for i in range(n)]+[Z]*pad
delta=ip(ynegwR[:n],wL)
ufg=[ONE]*n1+[u]*(n2+pad)
gs=[ufg[i]*(x*ynegwR[i]-af*s[i]) for i in range(pn)]
wLp=wL+[Z]*pad; wOp=wO+[Z]*pad
srev=list(reversed(s))
hs=[ufg[i]*(expyinv[i]*(x*wLp[i]+wOp[i]-bf*srev[i])-ONE) for i in range(pn)]
r=R("r")
xx=x*x; rxx=r*xx; xxx=x*xx
Ts=[r*x,rxx*x,rxx*xx,rxx*xxx,rxx*xx*xx]
scal=[w*(t_x-af*bf)+r*(xx*(wc+delta)-t_x), -e_b-r*t_xb]+gs+hs+[x,xx,xxx,u*x,u*xx,u*xxx]+[wV[j]*rxx for j in range(m)]+Ts+usq+uisq
pts=[B,Bb]+G+H+[AI1,AO1,S1,AI2,AO2,S2]+V+[T[1],T[3],T[4],T[5],T[6]]+Ls+Rs
assert len(scal)==len(pts)
mega=msm(scal,pts)
# expected residual: on B: -r*x^2*(sum z^(q+1) err_q) ; gates all satisfied here
ez=z; e=Z
for q in range(Q): e=e+ez*err[q]; ez=ez*z
expB=-(rxx*e)   # sign to be discovered
t0=time.time()
mode=sys.argv[5] if len(sys.argv)>5 else "resid"
for key in sorted(mega):
    sol=z3.Solver(); sol.set("timeout",120000)
    for c in assump: sol.add(c)
    tgt=expB if key=="B" else Z
    sol.add(mega[key]!=tgt)
    t=time.time(); rr=sol.check(); dt=time.time()-t
    print(key,rr,round(dt,2), (sol.model() if rr==z3.sat and len(sys.argv)>6 else "")); sys.stdout.flush()
print("total",round(time.time()-t0,1))
