#![allow(non_snake_case)]
pub mod unit;
use unit::*;
use ark_bulletproofs::{r1cs::*, BulletproofGens, PedersenGens};
use merlin::Transcript;

/// Encoding of a structurally arbitrary proof on the unit group: every element is one 8-byte word.
pub fn craft(len_l: usize, len_r: usize) -> Vec<u8> {
    let mut b = Vec::new();
    let word = |b: &mut Vec<u8>, v: u64| b.extend_from_slice(&v.to_le_bytes());
    let el = |b: &mut Vec<u8>, v: u64| b.extend_from_slice(&(v as u16).to_le_bytes());
    for i in 0..14 { el(&mut b, 2 + i); }
    word(&mut b, len_l as u64);
    for i in 0..len_l { el(&mut b, 20 + i as u64); }
    word(&mut b, len_r as u64);
    for i in 0..len_r { el(&mut b, 30 + i as u64); }
    el(&mut b, 5); el(&mut b, 7);
    b
}
pub fn run(len_l: usize, len_r: usize, gates: usize) -> bool {
    let bytes = craft(len_l, len_r);
    let proof = match R1CSProof::<UA>::from_bytes(&bytes) { Ok(p) => p, Err(_) => return false };
    let pc = PedersenGens::<UA> { B: UA(Fr::from(1u64)), B_blinding: UA(Fr::from(3u64)) };
    let bp = BulletproofGens::<UA>::new(4, 1);
    let mut t = Transcript::new(b"t");
    let mut v = Verifier::<UA, _>::new(&mut t);
    let mut i = 0;
    while i < gates { let _ = v.allocate_multiplier(None); i += 1; }
    v.verify(&proof, &pc, &bp).is_ok()
}
#[cfg(test)]
mod t {
    #[test] fn equal_ok() { for g in 0..4 { for l in 0..3 { let _ = super::run(l, l, g); } } }
    #[test] #[should_panic] fn unequal_panics() { let _ = super::run(1, 0, 2); }
    #[test] #[should_panic] fn unequal_panics2() { let _ = super::run(1, 2, 2); }
}

#[cfg(kani)]
mod proofs {
    fn f1600_stub(s: &mut [u64; 25]) { let mut i = 0; while i < 25 { s[i] = s[i].rotate_left(7) ^ s[(i + 1) % 25].wrapping_add(0x9E3779B97F4A7C15 ^ (i as u64)); i += 1; } }
    fn chal_stub(_t: &mut merlin::Transcript, _label: &'static [u8], dest: &mut [u8]) { let mut i = 0; while i < dest.len() { dest[i] = (i as u8).wrapping_mul(37).wrapping_add(11); i += 1; } }
    fn app_stub(_t: &mut merlin::Transcript, _label: &'static [u8], _m: &[u8]) {}
    fn appu_stub(_t: &mut merlin::Transcript, _label: &'static [u8], _x: u64) {}
    fn barrier_stub<T: ?Sized>(_v: &T) {}
    fn adc_stub(a: &mut u64, b: u64, carry: u8) -> u8 { let tmp = *a as u128 + b as u128 + carry as u128; *a = tmp as u64; (tmp >> 64) as u8 }
    fn sbb_stub(a: &mut u64, b: u64, borrow: u8) -> u8 { let tmp = (1u128 << 64) + (*a as u128) - (b as u128) - (borrow as u128); *a = tmp as u64; u8::from(tmp >> 64 == 0) }



    #[kani::proof]
    #[kani::unwind(40)]
    #[kani::stub(keccak::f1600, f1600_stub)]
    #[kani::stub(zeroize::optimization_barrier, barrier_stub)]
    #[kani::stub(ark_ff::biginteger::arithmetic::adc_for_add_with_carry, adc_stub)]
    #[kani::stub(ark_ff::biginteger::arithmetic::sbb_for_sub_with_borrow, sbb_stub)]
    #[kani::stub(merlin::Transcript::challenge_bytes, chal_stub)]
    #[kani::stub(merlin::Transcript::append_message, app_stub)]
    #[kani::stub(merlin::Transcript::append_u64, appu_stub)]
    fn ipp_scalars_any_lengths() {
        use super::unit::*;
        use ark_bulletproofs::inner_product_proof::InnerProductProof;
        let l: usize = kani::any();
        let r: usize = kani::any();
        kani::assume(l <= 2 && r <= 2);
        let mut lv = Vec::with_capacity(2);
        let mut rv = Vec::with_capacity(2);
        if l >= 1 { lv.push(UA(Fr::from(3u64))); }
        if l >= 2 { lv.push(UA(Fr::from(4u64))); }
        if r >= 1 { rv.push(UA(Fr::from(5u64))); }
        if r >= 2 { rv.push(UA(Fr::from(6u64))); }
        let p = InnerProductProof::<UA> { L_vec: lv, R_vec: rv, a: Fr::from(7u64), b: Fr::from(9u64) };
        let n: usize = kani::any();
        kani::assume(n <= 5);
        let mut t = merlin::Transcript::new(b"t");
        let res = p.verification_scalars(n, &mut t);
        if let Ok((a, b, s)) = res { assert!(a.len() == b.len()); assert!(s.len() == n); }
        kani::cover!(true);
    }

    #[kani::proof]
    #[kani::unwind(70)]
    #[kani::stub(ark_ff::biginteger::arithmetic::adc_for_add_with_carry, adc_stub)]
    #[kani::stub(ark_ff::biginteger::arithmetic::sbb_for_sub_with_borrow, sbb_stub)]
    fn only_inverse() {
        use super::unit::*;
        use ark_ff::Field;
        let x = Fr::from(3u64).inverse().unwrap();
        assert!(x * Fr::from(3u64) == Fr::from(1u64));
    }

    #[kani::proof]
    #[kani::unwind(70)]
    #[kani::stub(ark_ff::biginteger::arithmetic::adc_for_add_with_carry, adc_stub)]
    #[kani::stub(ark_ff::biginteger::arithmetic::sbb_for_sub_with_borrow, sbb_stub)]
    fn only_batch_inv() {
        use super::unit::*;
        let mut v = [Fr::from(3u64), Fr::from(5u64)];
        ark_ff::batch_inversion(&mut v);
        assert!(v[0] * Fr::from(3u64) == Fr::from(1u64));
    }

    #[kani::proof]
    #[kani::unwind(40)]
    #[kani::stub(keccak::f1600, f1600_stub)]
    #[kani::stub(zeroize::optimization_barrier, barrier_stub)]
    #[kani::stub(ark_ff::biginteger::arithmetic::adc_for_add_with_carry, adc_stub)]
    #[kani::stub(ark_ff::biginteger::arithmetic::sbb_for_sub_with_borrow, sbb_stub)]
    #[kani::stub(merlin::Transcript::challenge_bytes, chal_stub)]
    #[kani::stub(merlin::Transcript::append_message, app_stub)]
    #[kani::stub(merlin::Transcript::append_u64, appu_stub)]
    fn only_validate() {
        use super::unit::*;
        use ark_bulletproofs::transcript::TranscriptProtocol;
        let mut t = merlin::Transcript::new(b"t");
        let r = <merlin::Transcript as TranscriptProtocol<UA>>::validate_and_append_point(&mut t, b"L", &UA(Fr::from(3u64)));
        assert!(r.is_ok());
    }

    #[kani::proof]
    #[kani::unwind(40)]
    #[kani::stub(keccak::f1600, f1600_stub)]
    #[kani::stub(zeroize::optimization_barrier, barrier_stub)]
    #[kani::stub(ark_ff::biginteger::arithmetic::adc_for_add_with_carry, adc_stub)]
    #[kani::stub(ark_ff::biginteger::arithmetic::sbb_for_sub_with_borrow, sbb_stub)]
    #[kani::stub(merlin::Transcript::challenge_bytes, chal_stub)]
    #[kani::stub(merlin::Transcript::append_message, app_stub)]
    #[kani::stub(merlin::Transcript::append_u64, appu_stub)]
    fn only_challenge() {
        use super::unit::*;
        use ark_bulletproofs::transcript::TranscriptProtocol;
        let mut t = merlin::Transcript::new(b"t");
        let c: Fr = <merlin::Transcript as TranscriptProtocol<UA>>::challenge_scalar(&mut t, b"u");
        assert!(c == c);
    }
}
