//! Unit group: additive group of the toy scalar field.
use ark_ec::{AffineRepr, CurveConfig, CurveGroup, Group, ScalarMul, VariableBaseMSM};
use ark_ff::fields::{Fp64, MontBackend, MontConfig};
use ark_ff::{PrimeField, UniformRand};
use ark_serialize::*;
use ark_std::rand::{distributions::{Distribution, Standard}, Rng};
use core::fmt;
use core::iter::Sum;
use core::ops::*;
use num_traits::Zero;
use zeroize::Zeroize;

#[derive(MontConfig)]
#[modulus = "271"]
#[generator = "6"]
pub struct FrConfig;
pub type Fr = Fp64<MontBackend<FrConfig, 1>>;

pub struct UCfg;
impl CurveConfig for UCfg {
    type BaseField = Fr;
    type ScalarField = Fr;
    const COFACTOR: &'static [u64] = &[1];
    const COFACTOR_INV: Fr = ark_ff::MontFp!("1");
}

#[derive(Copy, Clone, Debug, PartialEq, Eq, Hash, Default)]
pub struct UA(pub Fr);
#[derive(Copy, Clone, Debug, PartialEq, Eq, Hash, Default)]
pub struct UP(pub Fr);

macro_rules! common {
    ($T:ident) => {
        impl fmt::Display for $T { fn fmt(&self, f: &mut fmt::Formatter<'_>) -> fmt::Result { write!(f, "{}", self.0) } }
        impl Zeroize for $T { fn zeroize(&mut self) { self.0.zeroize(); } }
        impl CanonicalSerialize for $T {
            fn serialize_with_mode<W: Write>(&self, w: W, c: Compress) -> Result<(), SerializationError> { self.0.serialize_with_mode(w, c) }
            fn serialized_size(&self, c: Compress) -> usize { self.0.serialized_size(c) }
        }
        impl Valid for $T { fn check(&self) -> Result<(), SerializationError> { Ok(()) } }
        impl CanonicalDeserialize for $T {
            fn deserialize_with_mode<R: Read>(r: R, c: Compress, v: Validate) -> Result<Self, SerializationError> { Fr::deserialize_with_mode(r, c, v).map($T) }
        }
        impl Distribution<$T> for Standard { fn sample<R: Rng + ?Sized>(&self, rng: &mut R) -> $T { $T(Fr::rand(rng)) } }
    };
}
common!(UA);
common!(UP);
impl From<UP> for UA { fn from(g: UP) -> Self { UA(g.0) } }
impl From<UA> for UP { fn from(g: UA) -> Self { UP(g.0) } }
impl Zero for UP { fn zero() -> Self { UP(Fr::zero()) } fn is_zero(&self) -> bool { self.0.is_zero() } }
impl Neg for UP { type Output = Self; fn neg(self) -> Self { UP(-self.0) } }
impl Neg for UA { type Output = Self; fn neg(self) -> Self { UA(-self.0) } }
macro_rules! padd {
    ($tr:ident, $m:ident, $tra:ident, $ma:ident) => {
        impl<'a> $tr<&'a UP> for UP { type Output = Self; fn $m(self, o: &Self) -> Self { UP(self.0.$m(o.0)) } }
        impl $tr<UP> for UP { type Output = Self; fn $m(self, o: Self) -> Self { UP(self.0.$m(o.0)) } }
        impl<'a> $tra<&'a UP> for UP { fn $ma(&mut self, o: &Self) { self.0.$ma(o.0); } }
        impl $tra<UP> for UP { fn $ma(&mut self, o: Self) { self.0.$ma(o.0); } }
        impl<'a> $tr<&'a UA> for UP { type Output = Self; fn $m(self, o: &UA) -> Self { UP(self.0.$m(o.0)) } }
        impl $tr<UA> for UP { type Output = Self; fn $m(self, o: UA) -> Self { UP(self.0.$m(o.0)) } }
        impl<'a> $tra<&'a UA> for UP { fn $ma(&mut self, o: &UA) { self.0.$ma(o.0); } }
        impl $tra<UA> for UP { fn $ma(&mut self, o: UA) { self.0.$ma(o.0); } }
    };
}
padd!(Add, add, AddAssign, add_assign);
padd!(Sub, sub, SubAssign, sub_assign);
impl Mul<Fr> for UP { type Output = Self; fn mul(self, s: Fr) -> Self { UP(self.0 * s) } }
impl<'a> Mul<&'a Fr> for UP { type Output = Self; fn mul(self, s: &Fr) -> Self { UP(self.0 * s) } }
impl MulAssign<Fr> for UP { fn mul_assign(&mut self, s: Fr) { self.0 *= s; } }
impl<'a> MulAssign<&'a Fr> for UP { fn mul_assign(&mut self, s: &Fr) { self.0 *= s; } }
impl Sum<UP> for UP { fn sum<I: Iterator<Item = Self>>(it: I) -> Self { it.fold(Self::zero(), |a, b| a + b) } }
impl<'a> Sum<&'a UP> for UP { fn sum<I: Iterator<Item = &'a Self>>(it: I) -> Self { it.fold(Self::zero(), |a, b| a + b) } }
impl Sum<UA> for UP { fn sum<I: Iterator<Item = UA>>(it: I) -> Self { it.fold(Self::zero(), |a, b| a + b) } }
impl<'a> Sum<&'a UA> for UP { fn sum<I: Iterator<Item = &'a UA>>(it: I) -> Self { it.fold(Self::zero(), |a, b| a + b) } }
fn from_limbs(l: &[u64]) -> Fr { Fr::from(l.get(0).copied().unwrap_or(0)) }
impl Group for UP {
    type ScalarField = Fr;
    fn generator() -> Self { UP(Fr::from(1u64)) }
    fn double_in_place(&mut self) -> &mut Self { self.0 = self.0 + self.0; self }
    fn mul_bigint(&self, other: impl AsRef<[u64]>) -> Self { UP(self.0 * from_limbs(other.as_ref())) }
}
impl ScalarMul for UP {
    type MulBase = UA;
    const NEGATION_IS_CHEAP: bool = true;
    fn batch_convert_to_mul_base(bases: &[Self]) -> Vec<UA> { bases.iter().map(|b| UA(b.0)).collect() }
}
impl VariableBaseMSM for UP {
    fn msm_unchecked(bases: &[UA], scalars: &[Fr]) -> Self {
        let n = bases.len().min(scalars.len());
        let mut acc = Fr::zero();
        let mut i = 0;
        while i < n { acc += bases[i].0 * scalars[i]; i += 1; }
        UP(acc)
    }
}
impl CurveGroup for UP {
    type Config = UCfg; type BaseField = Fr; type Affine = UA; type FullGroup = UA;
    fn normalize_batch(v: &[Self]) -> Vec<UA> { v.iter().map(|b| UA(b.0)).collect() }
}
impl Add<UA> for UA { type Output = UP; fn add(self, o: Self) -> UP { UP(self.0 + o.0) } }
impl<'a> Add<&'a UA> for UA { type Output = UP; fn add(self, o: &Self) -> UP { UP(self.0 + o.0) } }
impl Add<UP> for UA { type Output = UP; fn add(self, o: UP) -> UP { UP(self.0 + o.0) } }
impl<'a> Add<&'a UP> for UA { type Output = UP; fn add(self, o: &UP) -> UP { UP(self.0 + o.0) } }
impl Mul<Fr> for UA { type Output = UP; fn mul(self, s: Fr) -> UP { UP(self.0 * s) } }
impl<'a> Mul<&'a Fr> for UA { type Output = UP; fn mul(self, s: &Fr) -> UP { UP(self.0 * s) } }
static ONE_FR: Fr = ark_ff::MontFp!("1");
impl AffineRepr for UA {
    type Config = UCfg; type ScalarField = Fr; type BaseField = Fr; type Group = UP;
    fn xy(&self) -> Option<(&Fr, &Fr)> { if self.0.is_zero() { None } else { Some((&self.0, &ONE_FR)) } }
    fn zero() -> Self { UA(Fr::zero()) }
    fn generator() -> Self { UA(Fr::from(1u64)) }
    fn from_random_bytes(b: &[u8]) -> Option<Self> { <Fr as ark_ff::Field>::from_random_bytes(b).map(UA) }
    fn mul_bigint(&self, by: impl AsRef<[u64]>) -> UP { UP(self.0 * from_limbs(by.as_ref())) }
    fn clear_cofactor(&self) -> Self { *self }
    fn mul_by_cofactor_to_group(&self) -> UP { UP(self.0) }
}
