#!/usr/bin/env python3
"""Regenerates MANIFEST.json from the table below (single source of truth for the claims)."""
import json, os
V = os.path.dirname(os.path.dirname(os.path.abspath(__file__)))
S_NOTE = ("bounded: call skeletons / sizes / positions are enumerated up to the stated bounds, all field values are symbolic; "
          "trusted: z3 4.8.12 (cross-checked with z3 5.1.0), the carrier types (validated on every run against the concrete shadow run on a real curve), "
          "the reference formulas in symark/src/oracle.rs, the rationals-to-F_q lifting argument (DESIGN 2.1.6); reject-type conclusions additionally use "
          "Schwartz-Zippel and the discrete-log reading of group identities; a VIOLATION is only printed after native reproduction on secq256k1")
S_TECH = "symbolic execution of the repo's generic Rust code on term-building carrier types + SMT (z3, QF_NRA) identity / rejection queries; native replay of counter-models"
CLAIMS = {
 "C01": ("model_checking", "per call skeleton z3 proves that every coefficient of the verifier's combined check is identically zero for ALL witness values, coefficients, blindings, nonces and challenges; skeletons (incl. zero gates, single allocations, second-phase-only gates, commit-after-constrain, user transcript data), capacities and the three curves are enumerated within bounds", "4/C01"),
 "C02": ("model_checking", "per (skeleton, error plan) z3 proves the combined check equals -r x^2 (sum z^(q+1) err_q + sum y^i gate_err_i) B for ALL values; if that fails, a rejection query searches for error values the implementation accepts and replays them natively", "4/C02"),
 "C03": ("model_checking", "for an arbitrary proof object (every point an independent symbol, every scalar free) z3 proves the combined check equals Rel_ipp - r*Rel_t with the relations written from the paper and the generators folded explicitly round by round; identity points at mandatory positions and wrong round counts are enumerated", "4/C03"),
 "C04": ("model_checking", "per proof field: honest proof with the field replaced by an arbitrary element / shifted by a symbolic delta; the combined check is expanded in the challenges that follow the field and z3 proves the detecting coefficient equals the new element / -delta times non-zero challenges; binding of later challenges is checked on the symbolic trace", "4/C04"),
 "C05": ("model_checking", "per statement deviation (replaced / reordered / extra / missing commitment, label, application data, coefficient, constant, either base): detecting coefficient or closed-form residual proved by z3 for all values", "4/C05"),
 "C06": ("model_checking", "operation sequences of prover, verifier and verifier-on-arbitrary-proof from the instrumented Merlin are compared with the protocol's reference schedule (labels, order, full encodings); per challenge a QF_UF query (z3 and cvc5) shows no earlier message can differ without changing a hashed argument", "4/C06"),
 "C07": ("model_checking", "for batches of honest and arbitrary proofs of mixed sizes z3 proves batch check = sum_i alpha_i * (instance i's own check) coefficient-wise with alpha_i distinct fresh draws made after all challenges; a linear-independence query on the recovered weights excludes cancelling forgeries; correlated forgeries are replayed natively", "4/C07"),
 "C09": ("model_checking", "every prover message is opened symbolically against the witness: z3 proves A/S/T commitments and the published blinding scalars equal the protocol formulas for all values; each blinding is a single distinct RNG draw used only where prescribed (term DAG); RNG keying is read from the instrumented Merlin", "4/C09"),
 "C10": ("model_checking", "real InnerProductProof::create/verify through the guarded re-export with symbolic a, b and factor vectors: completeness identity, verdict == explicit folding for arbitrary proof objects, exactly k rounds, length mismatch and degenerate cross terms", "4/C10"),
 "C13": ("model_checking", "commit(v,r) = v*B + r*Bblind, homomorphism, scaling, Prover::commit, for symbolic v, r and arbitrary bases (loop-free: no size bound), plus structured literal limb patterns", "4/C13"),
 "C18": ("translation_validation", "translation validation against a pinned reference protocol (independent prover, unbatched verifier, transcript schedule, generator derivation, byte layout in symark/src/{refimpl,oracle,scen_c06}.rs): z3 proves the real prover's messages and the real verifier's check equal the reference formulas for all values; both provers are run against both verifiers natively on all three curves. Recorded byte-level fixtures of the reference revision are NOT used (none exist in the tree; see DESIGN 4/C18)", "4/C18"),
 "C14": ("model_checking", "the MIR of the specialised multiply-by-a routine (re-dumped from the current tree) is translated into integer arithmetic mod p and three SMT solvers prove it equals multiplication by the declared coefficient for EVERY field element; generator-on-curve, cofactor, cofactor inverse, scalar modulus = 2^255-19 and the Hasse-interval condition are ground relations over the constants exported by the compiled crate. Primality of the moduli and the exact group order are NOT claimed (DESIGN 4/C14)", "4/C14", "mir/c14.py (Engine M)", "trusted: rustc's MIR dump, ark_ff::Fp's ring contract, agreement of z3 4.8.12 / z3 5.1.0 / cvc5; not covered: primality of p and r, point count", "MIR -> SMT-LIB (integers mod p) translation of a loop-free leaf function; three solvers"),
 "C15": ("model_checking", "for seeded expression trees over every operator impl z3 proves the denotation of the built LinearCombination equals the tree's value for all coefficient and variable values; the constraint pipeline accepts exactly the reference constant (C02 characterisation)", "4/C15"),
}
NA = {
 "C08": "Engine K (Kani) harnesses under construction in this round",
 "C11": "Engine K (Kani) harnesses under construction in this round",
 "C12": "Engine K (Kani) harnesses under construction in this round",
 "C16": "Engine K (Kani) harnesses under construction in this round",
 "C17": "Engine K (Kani) harness + Engine S capacity-independence under construction in this round",
}
try:
    from claims_extra import EXTRA_CLAIMS, EXTRA_NA  # optional overrides
    CLAIMS.update(EXTRA_CLAIMS)
    for k in EXTRA_CLAIMS: NA.pop(k, None)
    NA.update(EXTRA_NA)
except Exception:
    pass
checks = []
for pid in sorted(CLAIMS):
    c = CLAIMS[pid]
    cat, text, ref = c[0], c[1], c[2]
    engine = c[3] if len(c) > 3 else "symark (Engine S)"
    note = c[4] if len(c) > 4 else S_NOTE
    tech = c[5] if len(c) > 5 else S_TECH
    checks.append({"property_id": pid, "quick_cmd": "./check %s --tier quick" % pid, "thorough_cmd": "./check %s --tier thorough" % pid, "evidence_file": "evidence/%s.json" % pid,
                   "replay_cmd_template": "./check --replay {path}", "engine": engine, "level_claimed": {"category": cat, "text": text, "design_ref": ref}, "level_note": note, "technique": tech})
m = {"version": 1,
     "setup_cmd": "cd symark && CARGO_NET_OFFLINE=true cargo build --release --offline && cd /repo && CARGO_NET_OFFLINE=true CARGO_TARGET_DIR=/verif/mir/target cargo +nightly rustc --offline --lib -- -Zunpretty=mir > /dev/null",
     "hooks": {"guard": "verif-hooks (cargo feature of /repo, off by default)", "enable": "path dependency on /repo with features=[\"verif-hooks\"] in symark/Cargo.toml and kani/Cargo.toml", "baseline_off_cmd": "cd /repo && cargo test --workspace --no-fail-fast --offline", "source_commits": ["5ee7c7d", "40245a6"], "add_only": True},
     "engines": [{"name": "symark", "path": "symark/", "serves_properties": sorted(p for p in CLAIMS if len(CLAIMS[p]) <= 3 or "symark" in CLAIMS[p][3]), "kind_free_text": "symbolic instantiation of the repo's generic code (carrier field/group types building SMT terms, concrete shadow on a real curve, instrumented Merlin) + z3/cvc5; native replay on secq256k1"}],
     "checks": checks,
     "not_applicable": [{"property_id": k, "reason": v} for k, v in sorted(NA.items()) if k not in CLAIMS],
     "notes": "see DESIGN.md; `fix:` commit 9b5e82f in /repo repairs the C08 defect (known_findings.json)"}
json.dump(m, open(os.path.join(V, "MANIFEST.json"), "w"), indent=1)
print("claimed:", sorted(CLAIMS), "not applicable:", sorted(k for k in NA if k not in CLAIMS))
