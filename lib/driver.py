#!/usr/bin/env python3
"""Engine-S driver: regenerate the encoding from /repo, discharge every obligation group with
z3, replay counter-models natively, write evidence.

Exit status: 0 = every obligation discharged and every structural check passed;
             1 = a violation was found AND reproduced natively (VIOLATION line printed);
             2 = inconclusive (solver unknown/timeout/error, non-reproducing model, encoder gap).
"""
import concurrent.futures as cf
import hashlib
import json
import os
import re
import subprocess
import sys
import time

VERIF = os.path.dirname(os.path.dirname(os.path.abspath(__file__)))
SYMARK_DIR = os.path.join(VERIF, "symark")
SYMARK = os.path.join(SYMARK_DIR, "target", "release", "symark")
Z3 = "/usr/bin/z3"
Z3_NEW = "z3-new"


def sh(cmd, **kw):
    return subprocess.run(cmd, stdout=subprocess.PIPE, stderr=subprocess.STDOUT, text=True, **kw)


def build_symark():
    env = dict(os.environ, CARGO_NET_OFFLINE="true")
    t = time.time()
    r = sh(["cargo", "build", "--release", "--offline"], cwd=SYMARK_DIR, env=env)
    if r.returncode != 0:
        print(r.stdout[-4000:])
        print("INCONCLUSIVE: the harness crate does not build against /repo's current tree")
        sys.exit(2)
    return time.time() - t


def run_solver(solver, text, timeout):
    """returns (verdict, seconds, raw) with verdict in sat|unsat|unknown|timeout|error"""
    t = time.time()
    try:
        if solver == Z3:
            r = subprocess.run([Z3, "-in", "-T:%d" % timeout], input=text, stdout=subprocess.PIPE, stderr=subprocess.STDOUT, text=True, timeout=timeout + 20)
        else:
            r = subprocess.run([solver, "-in", "-T:%d" % timeout], input=text, stdout=subprocess.PIPE, stderr=subprocess.STDOUT, text=True, timeout=timeout + 20)
    except subprocess.TimeoutExpired:
        return "timeout", time.time() - t, ""
    dt = time.time() - t
    out = r.stdout
    first = out.strip().split("\n")[0].strip() if out.strip() else ""
    if "(error" in out and "model is not available" not in out:
        return "error", dt, out[:2000]
    if first in ("sat", "unsat"):
        return first, dt, out
    if first == "timeout" or "timeout" in first:
        return "timeout", dt, out[:500]
    return "unknown", dt, out[:500]


def group_query(g, items=None, twin=False):
    if g["form"] == "U":
        return "\n".join(q["smt"] for q in g["raw"])
    its = g["items"] if items is None else items
    s = g["preamble"]
    if g["form"] == "R":
        for it in its:
            s += "(assert (= %s %s))\n" % (it["lhs"], it["rhs"])
        for e in g.get("extra_asserts", []):
            s += e + "\n"
        s += "(check-sat)\n"
        return s
    if twin:
        it = its[0]
        s += "(assert (not (= %s (+ %s 1.0))))\n" % (it["lhs"], it["rhs"])
    else:
        s += "(assert (or false"
        for it in its:
            s += " (not (= %s %s))" % (it["lhs"], it["rhs"])
        s += "))\n"
    s += "(check-sat)\n"
    return s


def gkey(f, gi, g):
    if g["items"] or g.get("raw"):
        return hashlib.sha256(group_query(g).encode()).hexdigest()
    return "trivial-%s-%d" % (f, gi)


def parse_value(v):
    v = v.strip()
    m = re.fullmatch(r"(\d+)(?:\.0*)?", v)
    if m:
        return m.group(1)
    m = re.fullmatch(r"\(-\s+(.*)\)", v)
    if m:
        x = parse_value(m.group(1))
        return None if x is None else ("-" + x if not x.startswith("-") else x[1:])
    m = re.fullmatch(r"\(/\s+(\S+)\s+(\S+)\)", v)
    if m:
        a, b = parse_value(m.group(1)), parse_value(m.group(2))
        if a is None or b is None:
            return None
        return "%s/%s" % (a, b)
    return None


def extract_model(g, query, timeout):
    """variable name -> rational string, from a second solver call with (get-model)"""
    v, _, out = run_solver(Z3, query + "(get-model)\n", timeout)
    if v != "sat":
        return {}
    names = dict(re.findall(r"\(declare-const (t\d+) Real\) ; (\S+)", g["preamble"]))
    model = {}
    for m in re.finditer(r"\(define-fun (t\d+) \(\) Real\s+(.*?)\)\s*(?=\(define-fun|\)\s*$)", out, re.S):
        t, val = m.group(1), m.group(2).strip()
        if t in names and names[t] != "inv":
            pv = parse_value(val)
            if pv is not None:
                model[names[t]] = pv
    return model


CVC5 = "cvc5"


def run_cvc5(text, timeout):
    t = time.time()
    try:
        r = subprocess.run([CVC5, "--lang", "smt2", "--tlimit=%d" % (timeout * 1000)], input=text, stdout=subprocess.PIPE, stderr=subprocess.STDOUT, text=True, timeout=timeout + 20)
    except subprocess.TimeoutExpired:
        return "timeout", time.time() - t, ""
    out = r.stdout.strip()
    first = out.split("\n")[0].strip() if out else ""
    if "(error" in out:
        return "error", time.time() - t, out[:500]
    return (first if first in ("sat", "unsat") else "unknown"), time.time() - t, out[:500]


def solve_raw_group(args):
    job_file, gi, g, timeout, second = args
    res = {"job": job_file, "group": g["name"], "form": "U", "n_items": len(g["raw"]), "claim": g["claim"], "raw_results": [], "z3_s": 0.0, "cvc5_s": 0.0}
    for q in g["raw"]:
        v, dt, _ = run_solver(Z3, q["smt"], timeout)
        v2, dt2, _ = run_cvc5(q["smt"], timeout)
        res["z3_s"] += dt
        res["cvc5_s"] += dt2
        res["raw_results"].append({"name": q["name"], "expect": q["expect"], "z3": v, "cvc5": v2})
    res["z3_s"] = round(res["z3_s"], 3)
    res["cvc5_s"] = round(res["cvc5_s"], 3)
    res["verdict"] = "unsat" if all(r["z3"] == r["expect"] and r["cvc5"] == r["expect"] for r in res["raw_results"]) else "mixed"
    return res


def solve_group(args):
    job_file, gi, g, timeout, second = args
    if g["form"] == "U":
        return solve_raw_group(args)
    res = {"job": job_file, "group": g["name"], "form": g["form"], "n_items": len(g["items"]), "n_vars": len(g["vars"]), "n_inverses": g["n_inverses"], "n_terms": g["n_terms"], "claim": g["claim"]}
    if not g["items"]:
        res.update(verdict="unsat", trivial=True, z3_s=0.0, twin="n/a")
        return res
    q = group_query(g)
    res["query_sha"] = hashlib.sha256(q.encode()).hexdigest()[:16]
    res["query_bytes"] = len(q)
    v, dt, raw = run_solver(Z3, q, timeout)
    res.update(verdict=v, z3_s=round(dt, 3))
    if g["form"] == "R":
        if v == "sat":
            res["model"] = extract_model(g, q, timeout)
        return res
    if v in ("timeout", "unknown") and len(g["items"]) > 1:
        # fall back to one query per item
        verdicts = []
        tot = 0.0
        for it in g["items"]:
            vi, dti, _ = run_solver(Z3, group_query(g, [it]), timeout)
            verdicts.append(vi)
            tot += dti
        res["per_item"] = verdicts
        res["z3_s"] = round(dt + tot, 3)
        if all(x == "unsat" for x in verdicts):
            res["verdict"] = "unsat"
        elif any(x == "sat" for x in verdicts):
            res["verdict"] = "sat"
    if res["verdict"] == "sat":
        failing = []
        for it in g["items"]:
            vi, _, _ = run_solver(Z3, group_query(g, [it]), timeout)
            if vi == "sat":
                failing.append(it["name"])
        res["failing_items"] = failing
        res["model"] = extract_model(g, q, timeout)
    if res["verdict"] == "unsat":
        tv, tdt, _ = run_solver(Z3, group_query(g, twin=True), timeout)
        res["twin"] = tv
        res["twin_s"] = round(tdt, 3)
        if second:
            v2, dt2, _ = run_solver(Z3_NEW, q, timeout)
            res["z3new"] = v2
            res["z3new_s"] = round(dt2, 3)
    return res


def main():
    import argparse

    ap = argparse.ArgumentParser()
    ap.add_argument("prop")
    ap.add_argument("--tier", default=os.environ.get("VERIF_TIER", "quick"))
    ap.add_argument("--level", default="model_checking")
    args = ap.parse_args()
    prop, tier = args.prop, args.tier
    seed = int(os.environ.get("VERIF_SEED", "0"))
    t0 = time.time()
    build_s = build_symark()
    scratch = os.environ.get("VERIF_SCRATCH", "/var/tmp/verif-%s-%d" % (prop, os.getpid()))
    os.makedirs(scratch, exist_ok=True)
    jobs_dir = os.path.join(scratch, "jobs")
    subprocess.run(["rm", "-rf", jobs_dir])
    r = sh([SYMARK, "gen", "--prop", prop, "--tier", tier, "--seed", str(seed), "--out", jobs_dir, "--threads", "12"])
    print(r.stdout.strip())
    if r.returncode != 0:
        print("INCONCLUSIVE: scenario generation failed")
        sys.exit(2)
    gen_s = time.time() - t0 - build_s
    timeout = 60 if tier == "quick" else 600
    jobs = []
    for f in sorted(os.listdir(jobs_dir)):
        jobs.append((f, json.load(open(os.path.join(jobs_dir, f)))))
    # --- solver work, deduplicated by query text
    work = []
    seen = {}
    n_second = 0
    for f, j in jobs:
        for gi, g in enumerate(j["groups"]):
            if g["form"] == "R" and g.get("only_if_failed"):
                continue
            key = gkey(f, gi, g)
            if key in seen:
                seen[key].append((f, gi))
                continue
            seen[key] = [(f, gi)]
            second = bool(g["items"]) and (tier == "thorough" or n_second < 3)
            if second:
                n_second += 1
            work.append(((f, gi, g, timeout, second), key))
    results = {}
    with cf.ThreadPoolExecutor(max_workers=14) as ex:
        futs = {ex.submit(solve_group, w): key for (w, key) in work}
        for fu in cf.as_completed(futs):
            results[futs[fu]] = fu.result()
    # --- second pass: form-(R) searches, only for jobs whose trigger group came back sat
    rwork = []
    for f, j in jobs:
        verd = {}
        for gi, g in enumerate(j["groups"]):
            if g["form"] not in ("R", "U") and g["items"]:
                verd[g["name"]] = results[gkey(f, gi, g)]["verdict"]
        for gi, g in enumerate(j["groups"]):
            if g["form"] == "R" and g.get("only_if_failed") and verd.get(g.get("only_if_failed")) == "sat":
                rwork.append(((f, gi, g, timeout, False), "R-%s-%d" % (f, gi)))
    with cf.ThreadPoolExecutor(max_workers=14) as ex:
        futs = {ex.submit(solve_group, w): key for (w, key) in rwork}
        for fu in cf.as_completed(futs):
            results[futs[fu]] = fu.result()
    notes = []
    # --- collect
    violations, inconclusive = [], []
    obligations = discharged = 0
    structural_total = structural_ok = 0
    solver_s = 0.0
    z3new_checked = z3new_agree = 0
    samples = []
    per_job = []
    for f, j in jobs:
        jr = {"scenario": j["scenario"], "curve": j.get("curve"), "groups": []}
        for s in j["structural"]:
            structural_total += 1
            if s["ok"]:
                structural_ok += 1
            else:
                violations.append({"job": f, "scenario": j["scenario"], "curve": j.get("curve"), "kind": "structural", "what": s["name"], "detail": s["detail"], "replay": j.get("replay")})
        for msg in j.get("inconclusive", []):
            inconclusive.append("%s: %s" % (j["scenario"], msg))
        r_groups = {g.get("only_if_failed"): ("R-%s-%d" % (f, gi)) for gi, g in enumerate(j["groups"]) if g["form"] == "R" and g.get("only_if_failed")}
        for gi, g in enumerate(j["groups"]):
            if g["form"] == "R" and g.get("only_if_failed"):
                continue
            if g["form"] == "U":
                key = gkey(f, gi, g)
                res = results[key]
                if seen[key][0] == (f, gi):
                    solver_s += res.get("z3_s", 0) + res.get("cvc5_s", 0)
                for rr in res.get("raw_results", []):
                    obligations += 1
                    if rr["z3"] == rr["expect"] and rr["cvc5"] == rr["expect"]:
                        discharged += 1
                    elif rr["z3"] in ("sat", "unsat") and rr["z3"] == rr["cvc5"]:
                        violations.append({"job": f, "scenario": j["scenario"], "kind": "solver-U", "what": rr["name"], "detail": "expected %s, both solvers say %s" % (rr["expect"], rr["z3"]), "replay": j.get("replay"), "claim": g["claim"]})
                    else:
                        inconclusive.append("%s/%s: z3 %s, cvc5 %s (expected %s)" % (j["scenario"], rr["name"], rr["z3"], rr["cvc5"], rr["expect"]))
                jr["groups"].append({"group": g["name"], "form": "U", "verdict": res["verdict"], "n_items": len(g.get("raw", [])), "z3_s": res.get("z3_s"), "cvc5_s": res.get("cvc5_s")})
                continue
            if g["form"] == "R":
                key = gkey(f, gi, g)
                res = results[key]
                obligations += 1
                if seen[key][0] == (f, gi):
                    solver_s += res.get("z3_s", 0)
                if res["verdict"] == "unsat":
                    discharged += 1
                elif res["verdict"] == "sat":
                    violations.append({"job": f, "scenario": j["scenario"], "kind": "solver-R", "what": g["name"], "detail": "rejection query sat: candidate counterexample", "model": res.get("model", {}), "replay": j.get("replay"), "claim": g["claim"]})
                else:
                    inconclusive.append("%s/%s: solver verdict %s" % (j["scenario"], g["name"], res["verdict"]))
                jr["groups"].append({k: res.get(k) for k in ("group", "form", "verdict", "n_items", "n_vars", "n_inverses", "n_terms", "z3_s", "query_sha")})
                continue
            key = gkey(f, gi, g)
            res = results[key]
            n = len(g["items"])
            obligations += n
            first_owner = seen[key][0] == (f, gi)
            if first_owner:
                solver_s += res.get("z3_s", 0) + res.get("twin_s", 0) + res.get("z3new_s", 0)
            if res["verdict"] == "unsat":
                if n and res.get("twin") != "sat":
                    inconclusive.append("%s/%s: vacuity twin came back %s (expected sat)" % (j["scenario"], g["name"], res.get("twin")))
                else:
                    discharged += n
                if "z3new" in res and first_owner:
                    z3new_checked += 1
                    if res["z3new"] == "unsat":
                        z3new_agree += 1
                    elif res["z3new"] == "sat":
                        inconclusive.append("%s/%s: solvers disagree (z3 4.8.12 unsat, z3 5.1.0 sat)" % (j["scenario"], g["name"]))
            elif res["verdict"] == "sat" and g["name"] in r_groups:
                rres = results.get(r_groups[g["name"]], {"verdict": "not-run"})
                solver_s += rres.get("z3_s", 0)
                if rres["verdict"] == "unsat":
                    notes.append("%s/%s: the reference characterisation no longer matches (%s) but the rejection query is unsat: no accepted violation exists over the reals; counted as discharged in the weaker form (R)" % (j["scenario"], g["name"], res.get("failing_items")))
                    discharged += n
                elif rres["verdict"] == "sat":
                    violations.append({"job": f, "scenario": j["scenario"], "curve": j.get("curve"), "kind": "solver-R", "what": g["name"], "detail": "characterisation sat on %s; rejection query sat: candidate accepted violation" % res.get("failing_items"), "model": rres.get("model", {}), "replay": j.get("replay"), "claim": g["claim"]})
                else:
                    inconclusive.append("%s/%s: characterisation failed and the rejection query is %s" % (j["scenario"], g["name"], rres["verdict"]))
            elif res["verdict"] == "sat":
                violations.append({"job": f, "scenario": j["scenario"], "curve": j.get("curve"), "kind": "solver", "what": g["name"], "detail": "sat: %s" % res.get("failing_items"), "model": res.get("model", {}), "replay": j.get("replay"), "claim": g["claim"]})
            else:
                inconclusive.append("%s/%s: solver verdict %s" % (j["scenario"], g["name"], res["verdict"]))
            jr["groups"].append({k: res.get(k) for k in ("group", "form", "verdict", "n_items", "n_vars", "n_inverses", "n_terms", "z3_s", "twin", "z3new", "query_sha")})
        per_job.append(jr)
        if len(samples) < 400 and j["groups"]:
            cands = [(gi, x) for gi, x in enumerate(j["groups"]) if not (x["form"] == "R" and x.get("only_if_failed"))]
            cands.sort(key=lambda c: -(len(c[1]["items"]) + len(c[1].get("raw", []))))
            if cands:
                gi, g = cands[0]
                samples.append({"scenario": j["scenario"], "shape": j.get("shape"), "params": j.get("params"), "concrete": j.get("concrete"), "group": g["name"], "form": g["form"], "claim": g["claim"], "items": ([i["name"] for i in g["items"]] + [q["name"] for q in g.get("raw", [])])[:12], "n_vars": len(g["vars"]), "vars_head": g["vars"][:12], "verdict": results[gkey(f, gi, g)]["verdict"], "path_conditions_head": j.get("path_conditions", [])[:4]})
    # three written-out samples: those with the most solver-decided items, first come first among equals
    samples = sorted(samples, key=lambda x: -min(len(x["items"]), 12))[:3]
    # scenarios without solver groups (concrete companions, enumerations): written out with their first checks
    if len(samples) < 3:
        for f, j in jobs:
            if len(samples) >= 3:
                break
            if j["structural"] and not j["groups"]:
                samples.append({"scenario": j["scenario"], "shape": j.get("shape"), "params": j.get("params"), "kind": "structural / concrete checks on the real code (no solver group in this scenario)",
                                "checks_head": [{"name": c["name"][:300], "ok": c["ok"]} for c in j["structural"][:6]], "n_checks": len(j["structural"])})
    # model-checking style counts (measured): a symbolic state = one node of the hash-consed term arena (a value of the
    # symbolic execution: field terms and point combinations) or one logged path-condition event; a transition = one
    # decided step: a solver-decided obligation or a structural check on the trace
    n_states = sum(int((j.get("stats") or {}).get(k, 0) or 0) for f, j in jobs for k in ("terms", "points", "events"))
    n_traces = sum(1 for f, j in jobs if j.get("concrete") not in (None, {}, [])) + sum(1 for f, j in jobs if j["structural"] and not j["groups"])
    # --- replay violations natively
    reproduced = []
    replay_cache = {}
    os.makedirs(os.path.join(VERIF, "replays", prop), exist_ok=True)
    for k, v in enumerate(violations):
        rp = v.get("replay")
        path = os.path.join(VERIF, "replays", prop, "%s_%d.json" % (re.sub(r"[^A-Za-z0-9_.-]", "_", v["scenario"]), k))
        json.dump({"property": prop, "scenario": v["scenario"], "curve": v.get("curve"), "what": v["what"], "detail": v["detail"], "claim": v.get("claim"), "model": v.get("model", {}), "replay": rp, "cmd": "%s replay %s" % (SYMARK, path)}, open(path, "w"), indent=1)
        if not rp or rp == {}:
            inconclusive.append("%s: %s failed but the scenario has no native replay: %s" % (v["scenario"], v["what"], v["detail"]))
            continue
        ckey = json.dumps([rp, v.get("model", {}), v.get("curve")], sort_keys=True)
        if ckey not in replay_cache:
            replay_cache[ckey] = sh([SYMARK, "replay", path])
        r = replay_cache[ckey]
        v["replay_output"] = r.stdout[-1500:]
        if r.returncode == 1 and "REPLAY REPRODUCED" in r.stdout:
            reproduced.append((v, path))
        else:
            inconclusive.append("%s: %s (%s) did not reproduce natively -> encoding or oracle error, not a finding" % (v["scenario"], v["what"], v["detail"]))
    # --- known findings
    known = []
    kf_path = os.path.join(VERIF, "known_findings.json")
    if os.path.exists(kf_path):
        known = [k for k in json.load(open(kf_path)).get("known", []) if k.get("property") == prop]
    new_viol = []
    for v, path in reproduced:
        hit = [k for k in known if k.get("scenario") == v["scenario"] and k.get("what") == v["what"]]
        if hit:
            print("KNOWN-FINDING: property=%s %s" % (prop, hit[0].get("summary", v["scenario"])))
        else:
            new_viol.append((v, path))
    wall = time.time() - t0
    funcs = FUNCS.get(prop, [])
    ev = {
        "property_id": prop,
        "tier": tier,
        "seed": seed,
        "level": args.level,
        "coverage": {
            "evaluations": len(jobs),
            "distinct_nontrivial": len(set(j["scenario"] for f, j in jobs if j["structural"] or j["groups"])),
            "distinct_solver_queries": len([1 for (w, key) in work if w[2]["items"]]) + sum(len(w[2].get("raw", [])) for (w, key) in work),
            "rule": "one evaluation = one scenario (call skeleton x error plan / deviation / field x capacities x shadow curve) in which the real generic code is executed (symbolically on the carriers, or natively for the concrete companions); a scenario is non-trivial when it produced at least one obligation or structural check; distinct = by scenario name; distinct_solver_queries = solver queries deduplicated by text with at least one non-syntactic obligation",
            "samples": samples,
            "states": max(1, n_states + len(jobs)),
            "transitions": max(1, obligations + structural_total),
            "traces_validated_against_impl": n_traces + len(reproduced),
            "states_rule": "states = nodes of the hash-consed term arena (symbolic field values and point combinations) + logged path-condition events + one per scenario, summed over scenarios; transitions = solver-decided obligations + structural checks; traces_validated_against_impl = scenarios whose concrete shadow run on a real curve (the same execution of the real code) was compared with the expected verdict, plus concrete companion scenarios, plus native replays of counter-models",
            "obligations": obligations,
            "discharged": discharged,
            "identities_closed_by_hash_consing": sum(g.get("n_syntactic", 0) for f, j in jobs for g in j["groups"]),
            "programs": len(jobs),
            "disagreements_checked": len(violations),
            "structural_checks": structural_total,
            "structural_ok": structural_ok,
            "solver_queries": len(work),
            "second_solver_checked": z3new_checked,
            "second_solver_agree": z3new_agree,
            "solver_time_s": round(solver_s, 2),
            "build_s": round(build_s, 1),
            "generation_s": round(gen_s, 2),
            "checker_cmd": "/usr/bin/z3 -in -T:%d (z3 4.8.12, QF_NRA via set-logic ALL); cross-check z3-new (5.1.0)" % timeout,
            "trusted_base": ["z3 4.8.12 nlsat / z3 5.1.0", "carrier types symark/src/{field,group,arena}.rs (validated on every run against the concrete shadow run on a real curve)", "reference formulas in symark/src (oracles)", "lifting argument DESIGN.md 2.1.6", "rustc, ark-ff/ark-ec arithmetic of the shadow"],
            "functions_encoded": funcs,
            "bounds": BOUNDS.get(prop, {}).get(tier, ""),
            "outside_claim": OUTSIDE.get(prop, ""),
            "per_scenario": per_job,
            "explanation": "bounded symbolic checking: the repo's generic prover/verifier code is executed on term-building carrier types; each obligation is a polynomial identity decided by the SMT solver for all values (unsat of the negation)",
            "exhaustive": False,
        },
        "assumptions": ASSUME,
        "wall_s": round(wall, 2),
        "violations": len(new_viol),
        "inconclusive": inconclusive[:50],
        "notes": notes[:50],
    }
    os.makedirs(os.path.join(VERIF, "evidence"), exist_ok=True)
    json.dump(ev, open(os.path.join(VERIF, "evidence", prop + ".json"), "w"), indent=1)
    subprocess.run(["rm", "-rf", scratch])
    print("%s %s: %d scenarios, %d/%d obligations discharged, %d/%d structural checks ok, %d solver queries, solver %.1fs, wall %.1fs" % (prop, tier, len(jobs), discharged, obligations, structural_ok, structural_total, len(work), solver_s, wall))
    if new_viol:
        for v, path in new_viol[:12]:
            print("  violated: %s / %s : %s" % (v["scenario"], v["what"], v["detail"]))
            print("VIOLATION property=%s replay=%s" % (prop, path))
        if len(new_viol) > 12:
            print("  (+%d further violations, see evidence and replays/%s/)" % (len(new_viol) - 12, prop))
        sys.exit(1)
    if inconclusive:
        for m in inconclusive[:20]:
            print("INCONCLUSIVE: " + m)
        sys.exit(2)
    sys.exit(0)


ASSUME = [
    "per-shape claim: call skeletons are enumerated up to the stated bounds, values are symbolic",
    "identities are proved over the rationals and transfer to every scalar field by DESIGN.md 2.1.6",
    "the generic path: every logged path-condition (is_zero / == on symbolic values) has its generic outcome",
    "group elements are formal combinations of independent basis symbols (accept claims: sound unconditionally; reject claims: discrete-log reading)",
    "Fiat-Shamir challenges are interned by hash output (equal bytes = same variable)",
]
FUNCS = {}
BOUNDS = {}
OUTSIDE = {}
try:
    sys.path.insert(0, os.path.dirname(os.path.abspath(__file__)))
    from propmeta import FUNCS, BOUNDS, OUTSIDE  # noqa
except Exception:
    pass

if __name__ == "__main__":
    main()
