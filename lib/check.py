#!/usr/bin/env python3
"""Property dispatcher."""
import os, subprocess, sys
HERE = os.path.dirname(os.path.abspath(__file__))
ENGINE_S = {"C01", "C02", "C03", "C04", "C05", "C06", "C07", "C09", "C10", "C13", "C15", "C16", "C17", "C18"}
def main():
    prop = sys.argv[1]
    tier = sys.argv[sys.argv.index("--tier") + 1] if "--tier" in sys.argv else "quick"
    if prop in ENGINE_S:
        level = "translation_validation" if prop == "C18" else "model_checking"
        sys.exit(subprocess.call([sys.executable, os.path.join(HERE, "driver.py"), prop, "--tier", tier, "--level", level]))
    if prop == "C14":
        sys.exit(subprocess.call([sys.executable, os.path.join(os.path.dirname(HERE), "mir", "c14.py"), "--tier", tier]))
    print("unknown property", prop)
    sys.exit(2)
main()
