#!/usr/bin/env python3
"""Property dispatcher.  Exit 0 / 1 (VIOLATION printed) / 2 (inconclusive)."""
import os, subprocess, sys
HERE = os.path.dirname(os.path.abspath(__file__))
ENGINE_S = {"C01", "C02", "C03", "C04", "C05", "C06", "C07", "C09", "C10", "C13", "C15", "C18"}
# properties decided by Kani harnesses, each with a concrete native companion run by the Engine-S driver
ENGINE_K = {"C08", "C11", "C12", "C16", "C17"}


def main():
    prop = sys.argv[1]
    tier = sys.argv[sys.argv.index("--tier") + 1] if "--tier" in sys.argv else "quick"
    if prop in ENGINE_S:
        level = "translation_validation" if prop == "C18" else "model_checking"
        sys.exit(subprocess.call([sys.executable, os.path.join(HERE, "driver.py"), prop, "--tier", tier, "--level", level]))
    if prop in ENGINE_K:
        s_exit = subprocess.call([sys.executable, os.path.join(HERE, "driver.py"), prop, "--tier", tier, "--level", "model_checking"])
        if s_exit == 1 and os.environ.get("VERIF_MATRIX_FAST") == "1":
            # seeded-change bookkeeping only (seeded/matrix.py): the native companion already reported a reproduced
            # violation, so the exit code is 1 whatever the Kani harnesses say; they are skipped to save 5-25 minutes
            print("Engine K skipped (VERIF_MATRIX_FAST=1 and the Engine-S part already exits 1)")
            sys.exit(1)
        if os.environ.get("VERIF_MATRIX_NO_KANI") == "1":
            # seeded-change bookkeeping only (seeded/pmatrix.py --no-kani): report what the Engine-S part alone says
            print("Engine K skipped (VERIF_MATRIX_NO_KANI=1)")
            sys.exit(s_exit)
        k_exit = subprocess.call([sys.executable, os.path.join(HERE, "kani_driver.py"), prop, "--tier", tier, "--s-exit", str(s_exit)])
        sys.exit(1 if 1 in (s_exit, k_exit) else (2 if 2 in (s_exit, k_exit) else 0))
    if prop == "C14":
        sys.exit(subprocess.call([sys.executable, os.path.join(os.path.dirname(HERE), "mir", "c14.py"), "--tier", tier]))
    print("unknown property", prop)
    sys.exit(2)


main()
