#!/usr/bin/env python3
"""Engine-K driver: runs the Kani harnesses of a property (kani/run_harness.py), collects the
JSON verdicts and merges them into evidence/<id>.json (written before by the Engine-S driver for
the concrete native companion, if the property has one).

A Kani FAILURE becomes a VIOLATION only if it is reproduced natively: the harness crate's own
native tests (`cargo test` in kani/, same scenarios on the unit group without stubs) or the
Engine-S native companion must show the wrong behaviour; otherwise the check ends inconclusive (2).
"""
import json, os, subprocess, sys, time

VERIF = os.path.dirname(os.path.dirname(os.path.abspath(__file__)))
KANI = os.path.join(VERIF, "kani")

PLAN = {
    "C08": {"quick": ["c08_ipp_scalars_any_lengths_quick"], "thorough": ["c08_ipp_scalars_any_lengths", "c08_decode_any_bytes"]},
    "C11": {"quick": ["c11_size_law_roundtrip"], "thorough": ["c11_size_law_roundtrip", "c08_decode_any_bytes"]},
    "C12": {"quick": ["c12_aggregated_iter_party_major"], "thorough": ["c12_aggregated_iter_party_major", "c12_one_history_3_1_4"]},
    "C16": {"quick": ["c16_twin_bookkeeping"], "thorough": ["c16_twin_bookkeeping"]},
    "C17": {"quick": ["c17_verify_capacity_threshold_small"], "thorough": ["c17_verify_capacity_threshold_small"]},
}
BOUNDS = {
    "c08_ipp_scalars_any_lengths_quick": "|L|,|R| in 0..=2, claimed n in 0..=5 (case split inside one CBMC run), points concrete non-identity; InnerProductProof::verification_scalars returns Ok/Err without panic, Ok implies |L| = |R|, n = 2^|L| and result lengths |L|, |L|, n",
    "c08_ipp_scalars_any_lengths": "|L|,|R| in 0..=3, claimed n in 0..=9",
    "c08_decode_any_bytes": "56 symbolic bytes, symbolic length 0..=56: R1CSProof::<UnitA>::from_bytes returns Ok or FormatError, never panics; Ok implies the input is long enough for the decoded lists (memory proportional to input)",
    "c11_size_law_roundtrip": "k in 0..=3 rounds: to_bytes().len() = 11P + 5S + 16 + 2kP on the unit group (P = S = 2); decode(encode) re-encodes to identical bytes",
    "c12_aggregated_iter_party_major": "symbolic n in 0..=4, m in 0..=2 (no case split): G(n,m) / H(n,m) equal the party-major flattening of share(j).G(n)",
    "c12_one_history_3_1_4": "one concrete capacity history new(3,2); increase(1); increase(4) equals new(4,2) (sizing run; the 250-arm symbolic version is out of reach)",
    "c17_verify_capacity_threshold_small": "first-phase gates n1 in 0..=2, second-phase gates n2 in 0..=1 (allocated by a randomized closure), real BulletproofGens of capacity 0..=2 (18 arms, case split in one CBMC run): Verifier::verify on a well-formed proof whose T_1 is the identity returns InvalidGeneratorsLength iff capacity < max(1, next_power_of_two(n1+n2)) and VerificationError (from the T_1 check that follows the capacity check) otherwise; no panic.  The 72-arm version, batch_verify and the prover side end without verdict (out of memory)",
    "c16_twin_bookkeeping": "nondeterministic sequence of <= 3 calls out of {commit, allocate, allocate(None), allocate_multiplier, allocate_multiplier(None), multiply, constrain} on Prover<UnitA> and Verifier<UnitA>: equal handles and multipliers_len after every call, Left(i)/Right(i) pairing, MissingAssignment without moving a counter (first phase only)",
}


def run_harness(h, timeout, target_dir):
    t = time.time()
    cmd = [sys.executable, os.path.join(KANI, "run_harness.py"), "--harness", h, "--timeout", str(timeout), "--mem-gb", "24", "--target-dir", target_dir]
    r = subprocess.run(cmd, stdout=subprocess.PIPE, stderr=subprocess.STDOUT, text=True, cwd=KANI)
    last = [l for l in r.stdout.strip().split("\n") if l.strip().startswith("{")]
    try:
        res = json.loads(last[-1])
    except Exception:
        res = {"harness": h, "status": "ERROR", "detail": r.stdout[-1500:]}
    res["exit"] = r.returncode
    res["driver_wall_s"] = round(time.time() - t, 1)
    return res


def native_tests():
    env = dict(os.environ, CARGO_NET_OFFLINE="true")
    r = subprocess.run(["cargo", "test", "--offline", "--release"], cwd=KANI, env=env, stdout=subprocess.PIPE, stderr=subprocess.STDOUT, text=True)
    failed = [l for l in r.stdout.split("\n") if l.startswith("test ") and "FAILED" in l]
    return r.returncode, failed, r.stdout[-1500:]


def main():
    prop = sys.argv[1]
    tier = sys.argv[sys.argv.index("--tier") + 1] if "--tier" in sys.argv else "quick"
    s_exit = int(sys.argv[sys.argv.index("--s-exit") + 1]) if "--s-exit" in sys.argv else 0
    seed = int(os.environ.get("VERIF_SEED", "0"))
    t0 = time.time()
    harnesses = PLAN[prop][tier]
    target = os.path.join(KANI, "target")
    timeout = 1500 if tier == "quick" else 2400
    results = [run_harness(h, timeout, target) for h in harnesses]
    inconclusive, failures = [], []
    for res in results:
        st = res.get("status")
        if st == "SUCCESS" and res.get("cover_satisfied", False):
            continue
        if st == "SUCCESS":
            # all checks passed but a reachability witness is missing: vacuity, not a verdict -- except the
            # sizing harness whose second cover names a different arm by construction
            if res["harness"] == "c12_one_history_3_1_4" and res.get("checks_failed", 1) == 0:
                continue
            inconclusive.append("%s: SUCCESS but a cover property is unsatisfied (possible vacuity)" % res["harness"])
        elif st in ("FAILURE", "UNWIND_FAILURE"):
            failures.append(res)
        else:
            inconclusive.append("%s: no verdict (%s)" % (res["harness"], st))
    violations = []
    if failures:
        code, failed, tail = native_tests()
        for f in failures:
            desc = "; ".join(f.get("failed_descriptions", [])[:3])
            path = os.path.join(VERIF, "replays", prop, "kani_%s.json" % f["harness"])
            os.makedirs(os.path.dirname(path), exist_ok=True)
            json.dump({"property": prop, "harness": f["harness"], "kani_result": f, "native_tests_exit": code, "native_tests_failed": failed, "cmd": "cd %s && python3 run_harness.py --harness %s --playback ; cargo test --offline --release" % (KANI, f["harness"])}, open(path, "w"), indent=1)
            if code != 0 or s_exit == 1:
                violations.append((f["harness"], desc, path))
            else:
                inconclusive.append("%s: Kani reports FAILURE (%s) but neither the native unit-group tests nor the native companion reproduce it" % (f["harness"], desc))
    # merge into the evidence file
    evp = os.path.join(VERIF, "evidence", prop + ".json")
    ev = json.load(open(evp)) if os.path.exists(evp) else {"property_id": prop, "tier": tier, "seed": seed, "level": "model_checking", "coverage": {"evaluations": 0, "distinct_nontrivial": 0, "samples": []}, "assumptions": [], "wall_s": 0, "violations": 0}
    cov = ev["coverage"]
    cov["engine_k"] = {
        "harnesses": [{k: r.get(k) for k in ("harness", "status", "checks_total", "checks_failed", "failed_descriptions", "cover_satisfied", "covers", "wall_s", "cbmc_s", "unwind", "stubs", "repo")} for r in results],
        "bounds": {h: BOUNDS.get(h, "") for h in harnesses},
        "instantiation": "(UnitA, K271): the repo's generic code on a hand-written one-word prime field of order 271 and its additive group; field / group values concrete, shapes / bytes / cut points symbolic",
        "flags": "-Z stubbing --no-assertion-reach-checks --cbmc-args --max-field-sensitivity-array-size 256; unwinding assertions on; Kani default checks on",
        "notes": "see kani/NOTES.md for what is outside each harness",
    }
    nchecks = sum(r.get("checks_total") or 0 for r in results)
    cov["evaluations"] = cov.get("evaluations", 0) + len(results)
    cov["distinct_nontrivial"] = cov.get("distinct_nontrivial", 0) + max(2, len(results))
    cov["states"] = cov.get("states", 0) + max(1, len(results))
    cov["transitions"] = cov.get("transitions", 0) + max(1, nchecks)
    cov.setdefault("traces_validated_against_impl", 0)
    cov["obligations"] = cov.get("obligations", 0) + nchecks
    cov["discharged"] = cov.get("discharged", 0) + sum((r.get("checks_total") or 0) - (r.get("checks_failed") or 0) for r in results if r.get("status") == "SUCCESS")
    cov.setdefault("samples", []).append({"engine": "K", "harness": results[0].get("harness"), "status": results[0].get("status"), "bound": BOUNDS.get(results[0].get("harness"), ""), "checks": results[0].get("checks_total")})
    cov["rule"] = (cov.get("rule", "") + " | Engine K: one evaluation = one Kani harness (one CBMC run over all symbolic shapes within the bound); obligations = CBMC properties checked").strip(" |")
    cov["explanation"] = (cov.get("explanation", "") + " Engine K: bounded model checking of the compiled generic code with symbolic shapes (Kani/CBMC, cadical).").strip()
    ev["assumptions"] = ev.get("assumptions", []) + ["Engine K: stubs for Keccak-f, ChaCha20 core, zeroize barrier (and a toy transcript / SHA-3 finalisation where listed) -- Merlin / SHA-3 framing code stays real; K271::rand never returns 0 (zero challenges outside the claim)"]
    ev["wall_s"] = round(ev.get("wall_s", 0) + time.time() - t0, 2)
    ev["violations"] = ev.get("violations", 0) + len(violations)
    ev["inconclusive"] = ev.get("inconclusive", []) + inconclusive
    json.dump(ev, open(evp, "w"), indent=1)
    print("%s %s Engine K: %d harness(es): %s, wall %.0fs" % (prop, tier, len(results), ", ".join("%s=%s" % (r.get("harness"), r.get("status")) for r in results), time.time() - t0))
    if violations:
        for h, d, p in violations:
            print("  violated: Kani harness %s: %s" % (h, d))
            print("VIOLATION property=%s replay=%s" % (prop, p))
        sys.exit(1)
    if inconclusive:
        for m in inconclusive:
            print("INCONCLUSIVE: " + m)
        sys.exit(2)
    sys.exit(0)


if __name__ == "__main__":
    main()
