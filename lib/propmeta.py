"""Per-property metadata copied into the evidence files (functions encoded, bounds, outside)."""
R1CS_FUNCS = [
    "r1cs::Prover::{new, commit, allocate, allocate_multiplier, multiply, constrain, specify_randomized_constraints, flattened_constraints, eval, create_randomized_constraints, prove_and_return_transcript}",
    "r1cs::Verifier::{new, commit, allocate, allocate_multiplier, multiply, constrain, specify_randomized_constraints, flattened_constraints, create_randomized_constraints, verification_scalars, verify_and_return_transcript}",
    "r1cs::{RandomizingProver, RandomizingVerifier}::* (delegation + challenge_scalar)",
    "inner_product_proof::InnerProductProof::{create, verification_scalars}", "inner_product_proof::inner_product",
    "util::{VecPoly3::{zero, special_inner_product, eval}, Poly6::eval, exp_iter}",
    "generators::{PedersenGens::{default, commit}, BulletproofGens::{new, share, increase_capacity}, BulletproofGensShare::{G, H}}",
    "transcript::TranscriptProtocol::* (real Merlin, real SHA-3/ChaCha, concrete bytes)",
    "r1cs::linear_combination operators (Add, Sub, Mul, Neg, From, FromIterator)", "ark_ff::batch_inversion (generic, on the carrier)",
]
VER_FUNCS = [f for f in R1CS_FUNCS if "Prover::" not in f and "InnerProductProof::{create" not in f] + ["inner_product_proof::InnerProductProof::verification_scalars"]
IPP_FUNCS = ["inner_product_proof::InnerProductProof::{create, verification_scalars, verify}", "inner_product_proof::inner_product", "transcript::TranscriptProtocol::{innerproduct_domain_sep, append_point, validate_and_append_point, challenge_scalar}", "ark_ff::batch_inversion"]
FUNCS = {
    "C01": R1CS_FUNCS, "C02": R1CS_FUNCS, "C03": VER_FUNCS, "C04": R1CS_FUNCS, "C05": R1CS_FUNCS, "C06": R1CS_FUNCS + ["merlin 3.0.0 with operation log (vendored, hash output unchanged)"],
    "C07": R1CS_FUNCS + ["r1cs::verifier::batch_verify"], "C09": R1CS_FUNCS + ["merlin::TranscriptRngBuilder (log)"], "C10": IPP_FUNCS,
    "C13": ["generators::PedersenGens::{commit, default}", "r1cs::Prover::{new, commit}"],
    "C15": ["r1cs::linear_combination::* (every operator impl, From, FromIterator by value and by reference)"] + R1CS_FUNCS,
    "C16": R1CS_FUNCS, "C17": R1CS_FUNCS + ["r1cs::verifier::batch_verify"],
    "C18": R1CS_FUNCS + ["r1cs::proof::R1CSProof::to_bytes", "symark/src/refimpl.rs (pinned reference prover / verifier / generator derivation)"],
}
BOUNDS = {
    "C01": {"quick": "36 call skeletons (28 named + 8 seeded random), padded gates <= 4, commitments <= 2, <= 2 randomized closures (registered at the end, first, or between two paired allocations), capacities {pad, pad+1, 2*pad} rotated, shadow curve rotated over secq256k1 / zorro / curve25519; field values symbolic, except in the mixed / literal skeletons where coefficients, constant terms and witness values are the literals 0, 1, -1, 2, ... (deterministic cycle)",
            "thorough": "34 named + 80 seeded random skeletons (every fourth up to padded 16, linear combinations limited to 6 variables there), x 3 capacity pairs x 3 shadow curves; plus EVERY call sequence with <= 4 first-phase calls over {commit, allocate_multiplier, allocate, multiply, constrain} followed by no closure or one closure of <= 2 calls over {challenge, allocate, multiply, constrain} (16401 skeletons, capacity pair and curve rotated); field values symbolic"},
    "C02": {"quick": "19 (skeleton, error plan) cases, padded gates <= 4, incl. violations inside the first of two registered closures; error values symbolic (any value)", "thorough": "quick cases + every C01 thorough skeleton with a symbolic error on every constraint and every gate wire, 3 shadow curves; plus the same for EVERY call sequence with <= 3 first-phase and <= 2 second-phase calls (3276 skeletons less those with nothing to violate, curve rotated)"},
    "C03": {"quick": "7 skeletons, padded gates <= 4, commitments <= 2; proof object arbitrary", "thorough": "21 skeletons incl. 10 seeded random (padded gates <= 8) + EVERY call sequence with <= 3 first-phase and <= 2 second-phase calls (3276), 3 curves each"},
    "C04": {"quick": "38 (skeleton, field) cases: every field of a padded-2 one-phase proof, second-phase points and final scalars of a two-phase proof, blinding scalars of a one-gate proof, the final scalars and t_x of gate-free proofs (one- and two-phase), round points of a padded-4 proof, 4 swaps; concrete companions: all single-field alterations / identity substitutions / negations / round insertion and removal, each also through batch verification (alone, before and after the untouched proof), and coordinated forgeries, on 6 skeletons; bit flips with stride 3 on one curve", "thorough": "+ every field (11 points, 3 scalars, 4 round points, a, b) of a padded-4 two-phase proof, 3 curves"},
    "C05": {"quick": "28 deviations on circuits with <= 3 commitments and <= 2 gates (incl. commitment-framed application data, a small-order component on curve25519, a deviation inside the first of two randomized closures, an extra / missing commitment that equals one already present); 3 searches with a symbolic shift on EVERY constant (EVERY coefficient) of the verifier's statement at once (<= 5 constraints over both phases); concrete companion: the coefficient / constant deviations natively, alone and as a +d / -d pair of statements in one batch", "thorough": "+ 5 deviations on a padded-4 two-phase circuit with 3 commitments, 3 curves"},
    "C06": {"quick": "C01 quick skeletons + identity commitment (19), honest run and verifier-on-arbitrary-proof", "thorough": "C01 thorough skeletons + EVERY call sequence with <= 3 first-phase and <= 2 second-phase calls (3276), 3 curves each"},
    "C07": {"quick": "16 batches, k <= 3, members honest / arbitrary / structurally invalid, padded sizes 1..4 and gate-free members only, growth past a power of two in the randomized phase in either position; concrete companion on 3 batches: verdict vs individual verdicts, correlated offsets on 2..4 copies, batches of 9 and 17 copies with one altered member first / middle / last", "thorough": "+ batches of 4 and 5, 3 curves"},
    "C09": {"quick": "8 skeletons (0..3 gates, up to 3 commitments, second phase with 0, 1, 2, 3 gates); RNG keying from the Merlin log and from the byte log of the caller's RNG", "thorough": "+ every symbolic-coefficient C01 thorough skeleton + EVERY call sequence with <= 3 first-phase and <= 2 second-phase calls (3276), 3 curves each"},
    "C10": {"quick": "k = 0..3 honest with symbolic factors, k = 0..4 arbitrary proof objects, unit / sparse / 0-1 / all-zero variants, unit vectors and every-fourth-position vectors at k = 3, 4, 2 degenerate cases; follow-up challenge of the two transcripts; concrete companion: negative cases (wrong product, shifted scalars, forged last round, wrong lengths) on 3 instances x 3 curves, with P shifted by points of order 2, 4, 8 on curve25519", "thorough": "k = 0..7 honest with symbolic factors (n = 128), k = 0..7 arbitrary proof objects, unit-factor k = 7: the full range of the property text"},
    "C13": {"quick": "no size bound (loop-free); symbolic v, r, k on default, arbitrary and identity bases; 10 literal sets with 0, 1, -1, values above 2^64 and structured limb patterns on default / arbitrary / identity-value / identity-blinding bases and (curve25519) bases with a small-order component; 3 curves; concrete companion of the literal variants on the plain curves against double-and-add on the group law", "thorough": "same"},
    "C15": {"quick": "3 batches of 30 seeded trees (depth <= 3, <= 6 variables) + 20 pipeline circuits (accept / offset pairs; two of the ten use an expression without any variable leaf)", "thorough": "12 batches of 60 trees + 80 pipeline circuits"},
    "C16": {"quick": "Engine S: all call sequences with <= 3 first-phase and <= 2 second-phase calls (3276 sequences), second-phase calls in one closure or split over two, the closure registered after all first-phase calls or after any prefix of them; Engine K: see kani section", "thorough": "Engine S: <= 5 first-phase and <= 2 second-phase calls (closure registration position varied for <= 3 first-phase calls)"},
    "C17": {"quick": "Engine S: 6 skeletons (0..3 gates, second-phase growth), capacities 0..pad+1 (grid) and {pad, pad+1, 2pad, 4pad} (independence); Engine K: see kani section", "thorough": "+ 3 skeletons up to 6 gates, 3 curves"},
    "C18": {"quick": "9 skeletons x 3 curves (0, 1, 3, 4 gates one-phase; 2+1, 2+3 two-phase; two closures; an empty combination constrained first in either phase; application data between and after commitments)", "thorough": "+ 4, 0+3, 7 gates"},
}
OUTSIDE = {
    "C01": "padded gate counts above the bound; the measure-zero set where a logged path-condition takes its other outcome (e.g. a nonce equal to 0); zero challenges (the code unwraps their inverses; probability 2^-255)",
    "C02": "as C01; the final step 'a non-zero polynomial in (y,z) of degree <= Q+n vanishes at a random point with probability <= (Q+n)/q' is the Schwartz-Zippel argument, not a solver verdict",
    "C03": "the step from the identity to 'accepts exactly when' uses Schwartz-Zippel in r (degree 1) and C06 (r squeezed after every proof element); identity / round-count clauses are enumerated, not symbolic",
    "C04": "bit-level clause (canonicity of ark-serialize encodings on the real curves); Schwartz-Zippel and the discrete-log reading for the final step",
    "C05": "Schwartz-Zippel in the fresh challenges; 'non-zero' of an RNG draw holds except with probability 1/q",
    "C06": "unambiguity of Merlin's own framing (dependency); collision resistance of the hash (modelled as an uninterpreted function)",
    "C07": "batches above the bound; Schwartz-Zippel in the weights for the 'only if' direction",
    "C09": "statistical hiding itself is a consequence of the opening identities + freshness, not a solver verdict; padded > 1: the final scalars a, b are not opened (they are covered by C10/C01)",
    "C10": "k above the bound; zero challenges",
    "C13": "value-dependent fast paths on scalar limbs other than the literal patterns tried (the concolic run follows the shadow's path)",
    "C15": "trees beyond the seeded sample (the operator impls are loop-free per operator, every operator occurs)",
    "C16": "Engine S part is concrete enumeration (exhaustive within the bound), not a solver verdict",
    "C17": "Engine S grid is concrete enumeration; independence identity is per skeleton",
    "C18": "byte-level fixtures of the reference revision (none exist); bit-for-bit generator digests (derivation is compared against the pinned algorithm instead)",
}
