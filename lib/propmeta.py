"""Per-property metadata copied into the evidence files."""
R1CS_FUNCS = [
    "r1cs::Prover::{new, commit, allocate, allocate_multiplier, multiply, constrain, specify_randomized_constraints, flattened_constraints, eval, create_randomized_constraints, prove_and_return_transcript}",
    "r1cs::Verifier::{new, commit, allocate, allocate_multiplier, multiply, constrain, specify_randomized_constraints, flattened_constraints, create_randomized_constraints, verification_scalars, verify_and_return_transcript}",
    "r1cs::{RandomizingProver, RandomizingVerifier}::* (delegation + challenge_scalar)",
    "inner_product_proof::InnerProductProof::{create, verification_scalars}", "inner_product_proof::inner_product",
    "util::{VecPoly3::{zero, special_inner_product, eval}, Poly6::eval, exp_iter}",
    "generators::{PedersenGens::{default, commit}, BulletproofGens::{new, share, increase_capacity}, BulletproofGensShare::{G, H}}",
    "transcript::TranscriptProtocol::* (real Merlin, real SHA-3/ChaCha, concrete bytes)",
    "r1cs::linear_combination operators (Add, Sub, Mul, Neg, From)", "ark_ff::batch_inversion (generic, on the carrier)",
]
FUNCS = {"C01": R1CS_FUNCS, "C02": R1CS_FUNCS}
BOUNDS = {
    "C01": {"quick": "18 call skeletons (16 named + 2 seeded random), padded gates <= 4, commitments <= 2, <= 2 randomized closures, capacities in {pad, pad+1, 2*pad} rotated, shadow curve rotated over secq256k1/zorro/curve25519; all field values symbolic",
            "thorough": "44 call skeletons (20 named + 24 seeded random), padded gates <= 8, x 3 capacity pairs x 3 shadow curves; all field values symbolic"},
    "C02": {"quick": "15 (skeleton, error plan) cases, padded gates <= 4; error values symbolic (any value)", "thorough": "quick cases + every C01 skeleton with a symbolic error on every constraint and every gate wire, padded gates <= 8, 3 shadow curves"},
}
OUTSIDE = {
    "C01": "padded gate counts above the bound; the measure-zero set where a logged path-condition takes its other outcome (e.g. a nonce equal to 0); zero challenges (the code unwraps their inverses; probability 2^-255)",
    "C02": "as C01; the final step 'a non-zero polynomial in (y,z) of degree <= Q+n vanishes at a random point with probability <= (Q+n)/q' is the Schwartz-Zippel argument, not a solver verdict",
}
